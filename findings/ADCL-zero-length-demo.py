"""ADCL/SBCL with I = 0 on the Python core: the byte loop does not run, yet FZ is set to 1 (run from /repo: /venv/bin/python <this>)."""
import sys
sys.path.insert(0, "/repo")
from sc62015.pysc62015.emulator import Emulator, Memory, RegisterName  # noqa: E402
from sc62015.pysc62015.constants import INTERNAL_MEMORY_START  # noqa: E402

bad = 0
for name, code in (("ADCL (10),(20)", bytes([0x54, 0x10, 0x20])), ("SBCL (10),(20)", bytes([0x5C, 0x10, 0x20])),
                   ("ADCL (10),A", bytes([0x55, 0x10])), ("SBCL (10),A", bytes([0x5D, 0x10]))):
    ram = bytearray(0x101000)
    ram[0x200:0x200 + len(code)] = code
    ram[INTERNAL_MEMORY_START + 0x10] = 0x11
    ram[INTERNAL_MEMORY_START + 0x20] = 0x22
    mem = Memory(lambda a: ram[a], lambda a, v: ram.__setitem__(a, v & 0xFF))
    emu = Emulator(mem)
    emu.regs.set(RegisterName.PC, 0x200)
    emu.regs.set(RegisterName.I, 0)
    emu.regs.set(RegisterName.FZ, 0)
    emu.regs.set(RegisterName.FC, 0)
    emu.execute_instruction(0x200)
    fz, fc = emu.regs.get(RegisterName.FZ), emu.regs.get(RegisterName.FC)
    print(f"Python core: {name} with I=0, FZ=0, FC=0 -> FZ={fz} FC={fc} pc={emu.regs.get(RegisterName.PC):#x}")
    bad += fz != 0
sys.exit(1 if bad else 0)
