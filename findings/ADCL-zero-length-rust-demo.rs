use sc62015_core::llama::eval::{LlamaBus, LlamaExecutor};
use sc62015_core::llama::opcodes::RegName;
use sc62015_core::llama::state::LlamaState;
use sc62015_core::INTERNAL_MEMORY_START;

struct Bus { ext: Vec<u8>, int: [u8; 256] }
impl LlamaBus for Bus {
    fn load(&mut self, addr: u32, bits: u8) -> u32 {
        let mut v = 0u32;
        for i in 0..(bits as u32).div_ceil(8) {
            let a = addr + i;
            let b = if a >= INTERNAL_MEMORY_START { self.int[((a - INTERNAL_MEMORY_START) & 0xFF) as usize] } else { self.ext[(a & 0xFFFFF) as usize] };
            v |= (b as u32) << (8 * i);
        }
        v
    }
    fn store(&mut self, addr: u32, bits: u8, value: u32) {
        for i in 0..(bits as u32).div_ceil(8) {
            let a = addr + i;
            let b = ((value >> (8 * i)) & 0xFF) as u8;
            if a >= INTERNAL_MEMORY_START { self.int[((a - INTERNAL_MEMORY_START) & 0xFF) as usize] = b } else { self.ext[(a & 0xFFFFF) as usize] = b }
        }
    }
}

fn main() {
    for (name, bytes) in [("ADCL (10),(20)", [0x54u8, 0x10, 0x20]), ("SBCL (10),(20)", [0x5C, 0x10, 0x20]), ("ADCL (10),A", [0x55, 0x10, 0x00]), ("SBCL (10),A", [0x5D, 0x10, 0x00])] {
        let mut exec = LlamaExecutor::new();
        let mut state = LlamaState::new();
        let mut bus = Bus { ext: vec![0; 0x100000], int: [0; 256] };
        bus.ext[0x200..0x203].copy_from_slice(&bytes);
        bus.int[0x10] = 0x11; bus.int[0x20] = 0x22;
        state.set_pc(0x200);
        state.set_reg(RegName::I, 0);
        state.set_reg(RegName::FZ, 0);
        state.set_reg(RegName::FC, 0);
        let _ = exec.execute(bytes[0], &mut state, &mut bus).unwrap();
        println!("Rust core:   {} with I=0, FZ=0, FC=0 -> FZ={} FC={} pc={:#x}", name, state.get_reg(RegName::FZ), state.get_reg(RegName::FC), state.pc());
    }
}
