use sc62015_core::llama::eval::{LlamaBus, LlamaExecutor};
use sc62015_core::llama::opcodes::RegName;
use sc62015_core::llama::state::LlamaState;
use sc62015_core::INTERNAL_MEMORY_START;

struct Bus { ext: Vec<u8>, int: [u8; 256] }
impl LlamaBus for Bus {
    fn load(&mut self, addr: u32, bits: u8) -> u32 {
        let mut v = 0u32;
        for i in 0..(bits as u32).div_ceil(8) {
            let a = addr + i;
            let b = if a >= INTERNAL_MEMORY_START { self.int[((a - INTERNAL_MEMORY_START) & 0xFF) as usize] } else { self.ext[(a & 0xFFFFF) as usize] };
            v |= (b as u32) << (8 * i);
        }
        v
    }
    fn store(&mut self, addr: u32, bits: u8, value: u32) {
        for i in 0..(bits as u32).div_ceil(8) {
            let a = addr + i;
            let b = ((value >> (8 * i)) & 0xFF) as u8;
            if a >= INTERNAL_MEMORY_START { self.int[((a - INTERNAL_MEMORY_START) & 0xFF) as usize] = b } else { self.ext[(a & 0xFFFFF) as usize] = b }
        }
    }
}

fn main() {
    let mut exec = LlamaExecutor::new();
    let mut state = LlamaState::new();
    let mut bus = Bus { ext: vec![0; 0x100000], int: [0; 256] };
    bus.ext[0x200..0x204].copy_from_slice(&[0x32, 0xC3, 0x10, 0x20]);
    for i in 0..3usize { bus.int[0x10 + i] = 0xA0 + i as u8; bus.int[0x20 + i] = 0xB0 + i as u8; }
    state.set_pc(0x200);
    state.set_reg(RegName::I, 3);
    let len = exec.execute(0x32, &mut state, &mut bus).unwrap();
    println!("Rust core: EXL (10),(20) with I=3: len={} I_after={} (10..12)={:02x?} (20..22)={:02x?}", len, state.get_reg(RegName::I), &bus.int[0x10..0x13], &bus.int[0x20..0x23]);
}
