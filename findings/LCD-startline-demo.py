import sys, os
sys.path.insert(0, os.getcwd())
from pce500.display.controller_wrapper import HD61202Controller
c = HD61202Controller()
for a, v in ((0x2000, 0x3F), (0x2000, 0xC0 | 8), (0x2000, 0xB8 | 1), (0x2000, 0x40 | 0)):   # ON, START_LINE 8, SET_PAGE 1, SET_Y 0 (both chips)
    c.write(a, v)
c.write(0x2002, 0xFF)      # data: all bits set -> the 8 pixels of (page 1, column 0) = chip rows 8..15 are UNLIT (everything else is lit)
buf = c.get_display_buffer()
print("start_line per chip:", [ch.state.start_line for ch in c.chips])
print("display row 0, col 0 (right chip col 0):", int(buf[0][0]), " row 8, col 0:", int(buf[8][0]))
# HD61202: display line 0 shows RAM line start_line (=8) -> the lit pixel must be on display row 0
sys.exit(0 if buf[0][0] == 0 and buf[8][0] == 1 else 1)
