use sc62015_core::lcd::LcdController;
fn main() {
    let mut c = LcdController::new();
    for (a, v) in [(0x2000u32, 0x3Fu8), (0x2000, 0xC0 | 8), (0x2000, 0xB8 | 1), (0x2000, 0x40)] {
        c.write(a, v);
    }
    c.write(0x2002, 0xFF);
    let buf = c.display_buffer();
    println!("display row 0, col 0: {}  row 8, col 0: {}", buf[0][0], buf[8][0]);
}
