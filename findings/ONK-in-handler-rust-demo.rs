use sc62015_core::llama::opcodes::RegName;
use sc62015_core::{CoreRuntime};

const ISR: u32 = 0xFC;
const IMR: u32 = 0xFB;

fn run(press_in_handler: bool) -> (u8, u32, Vec<(u32, u8)>) {
    let mut rt = CoreRuntime::new();
    rt.state.set_reg(RegName::PC, 0x0100);
    rt.state.set_reg(RegName::S, 0x0400);
    // main program: NOPs
    for a in 0x0100..0x0140u32 { rt.memory.write_external_byte(a, 0x00); }
    // handler at 0x1234: NOP NOP NOP RETI
    rt.memory.write_external_byte(0x0FFFFA, 0x34);
    rt.memory.write_external_byte(0x0FFFFB, 0x12);
    rt.memory.write_external_byte(0x0FFFFC, 0x00);
    for (i, b) in [0x00u8, 0x00, 0x00, 0x01].iter().enumerate() { rt.memory.write_external_byte(0x1234 + i as u32, *b); }
    // MTI pending, master + MTI + ONK enabled; timers disabled so nothing else fires
    rt.timer.enabled = false;
    rt.memory.write_internal_byte(ISR, 0x01);
    rt.memory.write_internal_byte(IMR, 0x80 | 0x01 | 0x08);
    let mut pcs = vec![];
    for i in 0..12 {
        let _ = rt.step(1);
        if press_in_handler && i == 1 { rt.press_on_key(); }
        pcs.push((rt.state.get_reg(RegName::PC) & 0xFFFFF, rt.memory.read_internal_byte(ISR).unwrap_or(0)));
    }
    (rt.memory.read_internal_byte(ISR).unwrap_or(0), rt.state.get_reg(RegName::PC) & 0xFFFFF, pcs)
}

fn main() {
    let (isr0, pc0, pcs0) = run(false);
    println!("no key:            ISR after = {:#04x}  (pc, ISR) after each step {:x?}", isr0, pcs0);
    let (isr1, pc1, pcs1) = run(true);
    println!("ON pressed inside: ISR after = {:#04x}  (pc, ISR) after each step {:x?}", isr1, pcs1);
    let _ = (pc0, pc1);
}
