"""Abstract interpreter for the Python ISA layer (instr/opcodes.py, instr/instructions.py).

It interprets the repository's *source* (ast) over abstract values:
  * BitVec bit-provenance vectors for operand bytes / register values (sa/bits.py)
  * Obj: instances of repository classes (attribute dict + class from the class table, methods through the C3 MRO)
  * native Python objects supplied by an analysis as abstract transfer functions (abstract Decoder / Encoder / IL builder)
No module of /repo is imported.  Control flow must be decidable from concrete parts of the state (the analyses split the
selector byte of an operand into its finitely many values); a branch on a symbolic value raises Unknown -> the analysis
reports the construct as outside the fragment (ANALYSIS-ERROR), never a verdict."""
from __future__ import annotations

import ast
import copy as _copy
from typing import Any, Callable

from .bits import BitVec
from .pyfacts import (ClassRef, EnumMember, FuncRef, NotConst, PyClass, PyEval, PyModule, PyProgram, Term,
                      _Break, _Continue, _Return, _unwrap, unparse)


class Unknown(NotConst):
    """A construct outside the interpretable fragment (symbolic branch, unsupported feature).  `symbols` names the symbolic
    inputs a value-dependent branch hinges on, so that an analysis can split on them."""

    def __init__(self, msg: str = "", symbols: Any = ()):
        super().__init__(msg)
        self.symbols = frozenset(symbols)


def symbols_of(*vals: Any) -> set[str]:
    out: set[str] = set()
    for v in vals:
        if isinstance(v, BitVec):
            for b in v.bits:
                if isinstance(b, tuple) and b and isinstance(b[0], str):
                    out.add(b[0])
        elif hasattr(v, "terms") and hasattr(v, "c"):
            for _k, bv in v.terms:
                out |= symbols_of(bv)
    return out


class Obj:
    __slots__ = ("cls", "attrs")

    def __init__(self, cls: PyClass):
        self.cls = cls
        self.attrs: dict[str, Any] = {}

    def __repr__(self) -> str:
        return f"<{self.cls.name} {sorted(self.attrs)}>"

    def isinstance_of(self, name: str) -> bool:
        return self.cls.is_subclass_of(name)


class Raised(Exception):
    """An exception raised by interpreted code."""

    def __init__(self, cls_name: str, bases: set[str], value: Any = None, where: str = ""):
        super().__init__(cls_name)
        self.cls_name = cls_name
        self.bases = bases | {cls_name}
        self.value = value
        self.where = where

    def matches(self, names: set[str]) -> bool:
        return bool(self.bases & names) or "BaseException" in names


_BUILTIN_EXC = {
    "Exception": {"BaseException"}, "ValueError": {"Exception", "BaseException"}, "TypeError": {"Exception", "BaseException"},
    "KeyError": {"LookupError", "Exception", "BaseException"}, "IndexError": {"LookupError", "Exception", "BaseException"},
    "AssertionError": {"Exception", "BaseException"}, "NotImplementedError": {"RuntimeError", "Exception", "BaseException"},
    "StopIteration": {"Exception", "BaseException"}, "AttributeError": {"Exception", "BaseException"},
    "RuntimeError": {"Exception", "BaseException"}, "BufferTooShort": {"Exception", "BaseException"},
    "BufferTooShortErrorError": {"Exception", "BaseException"},
}


def raised(name: str, value: Any = None, where: str = "") -> Raised:
    return Raised(name, set(_BUILTIN_EXC.get(name, {"Exception", "BaseException"})), value, where)


class BoundMethod:
    __slots__ = ("self_obj", "owner", "func", "kind")

    def __init__(self, self_obj: Any, owner: PyClass, func: ast.FunctionDef, kind: str = "method"):
        self.self_obj, self.owner, self.func, self.kind = self_obj, owner, func, kind


class Frame:
    __slots__ = ("cls", "self_obj")

    def __init__(self, cls: PyClass | None, self_obj: Any):
        self.cls, self.self_obj = cls, self_obj


class AbsEval(PyEval):
    """PyEval with objects, exceptions, context managers and native abstract callables."""

    def __init__(self, prog: PyProgram, mod: PyModule, env: dict | None = None, budget: list | None = None, frame: Frame | None = None,
                 shared: dict | None = None):
        super().__init__(prog, mod, env, budget if budget is not None else [2_000_000])
        self.frame = frame or Frame(None, None)
        self.shared = shared if shared is not None else {"class_attr_cache": {}, "natives": {}}
        self._yields = None

    # -- helpers ---------------------------------------------------------
    def sub(self, mod: PyModule, env: dict, frame: Frame | None = None) -> "AbsEval":
        return AbsEval(self.prog, mod, env, self.budget, frame or Frame(None, None), self.shared)

    def where(self, n: ast.AST | None) -> str:
        return f"{self.mod.rel}:{getattr(n, 'lineno', '?')}"

    def cls_of(self, cref: ClassRef) -> PyClass | None:
        if not cref.module:
            return None
        return self.prog.cls(self.prog.module(cref.module), cref.name)

    # -- names -----------------------------------------------------------
    def name(self, name: str) -> Any:
        if name in self.env:
            return self.env[name]
        nat = self.shared["natives"]
        if name in nat:
            return nat[name]
        if name in _BUILTIN_EXC or name in ("BaseException",):
            return ("excclass", name)
        if name in ("super", "getattr", "setattr", "hasattr", "isinstance", "callable", "type", "iter", "next", "repr", "id", "issubclass", "format"):
            return ("absbuiltin", name)
        return super().name(name)

    def _define(self, name: str, node: ast.AST) -> Any:
        # module-level values are computed by the constant evaluator (Terms for constructor calls) and shared
        return super()._define(name, node)

    # -- instantiation ---------------------------------------------------
    def instantiate(self, cref: ClassRef, args: list, kwargs: dict, n: ast.AST | None = None) -> Any:
        c = self.cls_of(cref)
        if c is None:
            return Term(cref.name, tuple(args), kwargs, getattr(n, "lineno", 0))
        if c.is_subclass_of("Exception") or c.is_subclass_of("BaseException"):
            o = Obj(c)
            o.attrs["args"] = tuple(args)
            return o
        o = Obj(c)
        init = c.find_method("__init__")
        if init is not None:
            owner, fn = init
            self.invoke(fn, owner, [o] + list(args), kwargs, self_obj=o)
        else:
            # dataclass-style: fields from annotated assignments, in MRO order
            names: list[tuple[str, ast.AST | None, PyClass]] = []
            for k in reversed(c.mro):
                if any("dataclass" in unparse(d) for d in k.node.decorator_list):
                    for st in k.node.body:
                        if isinstance(st, ast.AnnAssign) and isinstance(st.target, ast.Name):
                            names.append((st.target.id, st.value, k))
            if names:
                for i, (nm, dflt, k) in enumerate(names):
                    if i < len(args):
                        o.attrs[nm] = args[i]
                    elif nm in kwargs:
                        o.attrs[nm] = kwargs[nm]
                    elif dflt is not None:
                        o.attrs[nm] = self.sub(k.mod, {}).eval(dflt)
                    else:
                        raise Unknown(f"missing dataclass field {nm} for {c.name}")
            elif args or kwargs:
                raise Unknown(f"{c.name}() takes no arguments in the class table")
        return o

    def from_term(self, t: Any) -> Any:
        """Turn constant-evaluator output (Terms of repo classes, lists, tuples) into live objects."""
        if isinstance(t, Term):
            mod_c = None
            for m in (self.mod,):
                mod_c = self.prog.cls(m, t.ctor)
            if mod_c is None:
                for m in self.prog.modules.values():
                    mod_c = self.prog.cls(m, t.ctor)
                    if mod_c is not None:
                        break
            if mod_c is None:
                return t
            args = [self.from_term(a) for a in t.args]
            extra = {k: self.from_term(v) for k, v in t.kwargs.items()}
            # kwargs of a Term already include positional args by name: prefer names only
            return self.instantiate(ClassRef(mod_c.mod.rel, mod_c.name), [], extra)
        if isinstance(t, list):
            return [self.from_term(x) for x in t]
        if isinstance(t, tuple) and not (t and isinstance(t[0], str) and t[0] in ("external", "builtin", "identity", "bound", "lambda", "closure", "method", "excclass", "absbuiltin", "external-op")):
            return tuple(self.from_term(x) for x in t)
        return t

    # -- function invocation ----------------------------------------------
    def invoke(self, fn: ast.FunctionDef, owner: PyClass | None, args: list, kwargs: dict, self_obj: Any = None, mod: PyModule | None = None, closure_env: dict | None = None) -> Any:
        m = mod or (owner.mod if owner is not None else self.mod)
        ev = self.sub(m, dict(closure_env) if closure_env else {}, Frame(owner, self_obj))
        for d in fn.decorator_list:
            dd = d.func if isinstance(d, ast.Call) else d
            dn = dd.id if isinstance(dd, ast.Name) else getattr(dd, "attr", "")
            if dn not in ("staticmethod", "classmethod", "contextmanager", "property", "lru_cache", "cache", "perf_trace") and dn not in self.shared.get("decorators_ok", ()):
                raise Unknown(f"decorator @{dn} on {fn.name}")
        return self._run_function(fn, ev, args, kwargs)

    def _run_function(self, node: ast.FunctionDef, ev: "PyEval", args: list, kwargs: dict) -> Any:  # type: ignore[override]
        a = node.args
        params = [p.arg for p in a.posonlyargs + a.args]
        defaults = a.defaults
        for i, p in enumerate(params):
            if i < len(args):
                ev.env[p] = args[i]
            elif p in kwargs:
                ev.env[p] = kwargs[p]
            else:
                di = i - (len(params) - len(defaults))
                if di < 0:
                    raise Unknown(f"missing argument {p} for {node.name}")
                ev.env[p] = ev.eval(defaults[di])
        if a.vararg is not None:
            ev.env[a.vararg.arg] = tuple(args[len(params):])
        elif len(args) > len(params):
            raise Unknown(f"too many positional arguments for {node.name}")
        for p, dflt in zip(a.kwonlyargs, a.kw_defaults):
            ev.env[p.arg] = kwargs[p.arg] if p.arg in kwargs else (ev.eval(dflt) if dflt is not None else None)
        is_gen = _has_own_yield(node)
        ev._yields = [] if is_gen else None
        try:
            ev.exec_block(node.body)
        except _Return as r:
            return ev._yields if is_gen else r.v
        except Raised as ex:
            if is_gen:
                # eager generators: remember what was produced before the exception; the consumer sees the
                # exception when it pulls past the produced items
                return _PartialGen(ev._yields, ex)
            raise
        return ev._yields if is_gen else None

    # -- expressions -------------------------------------------------------
    def e_Attribute(self, n: ast.Attribute) -> Any:
        base = self.eval(n.value)
        return self.getattr(base, n.attr, n)

    def getattr(self, base: Any, attr: str, n: ast.AST | None = None) -> Any:
        if isinstance(base, Obj):
            if attr in base.attrs:
                return base.attrs[attr]
            if attr == "__class__":
                return ClassRef(base.cls.mod.rel, base.cls.name)
            r = base.cls.find_attr(attr)
            if r is not None:
                key = (r[0].mod.rel, r[0].name, attr)
                cache = self.shared["class_attr_cache"]
                if key not in cache:
                    cache[key] = self.from_term(self.sub(r[0].mod, {}).eval(r[1]))
                return cache[key]
            mth = base.cls.find_method(attr)
            if mth is not None:
                owner, fn = mth
                decos = {d.id if isinstance(d, ast.Name) else getattr(d, "attr", "") for d in fn.decorator_list}
                if "staticmethod" in decos:
                    return BoundMethod(None, owner, fn, "static")
                if "classmethod" in decos:
                    return BoundMethod(ClassRef(base.cls.mod.rel, base.cls.name), owner, fn, "class")
                if "property" in decos:
                    return self.invoke(fn, owner, [base], {}, self_obj=base)
                return BoundMethod(base, owner, fn)
            if base.cls.is_subclass_of("Exception") and attr == "args":
                return base.attrs.get("args", ())
            raise raised("AttributeError", f"{base.cls.name}.{attr}", self.where(n))
        if isinstance(base, ClassRef):
            c = self.cls_of(base)
            if attr == "__name__":
                return base.name
            if c is not None:
                members = self.enum_members(base)
                if members is not None and attr in members:
                    return members[attr]
                if members is not None and attr == "__members__":
                    return dict(members)
                r = c.find_attr(attr)
                if r is not None:
                    key = (r[0].mod.rel, r[0].name, attr)
                    cache = self.shared["class_attr_cache"]
                    if key not in cache:
                        cache[key] = self.from_term(self.sub(r[0].mod, {}).eval(r[1]))
                    return cache[key]
                mth = c.find_method(attr)
                if mth is not None:
                    owner, fn = mth
                    decos = {d.id if isinstance(d, ast.Name) else getattr(d, "attr", "") for d in fn.decorator_list}
                    if "staticmethod" in decos:
                        return BoundMethod(None, owner, fn, "static")
                    if "classmethod" in decos:
                        return BoundMethod(base, owner, fn, "class")
                    return BoundMethod(None, owner, fn, "unbound")
                if attr.startswith("__") and attr.endswith("__"):
                    # a special attribute the model does not know is not evidence that the program raises
                    raise Unknown(f"special attribute {base.name}.{attr} is outside the interpreted fragment")
                raise raised("AttributeError", f"{base.name}.{attr}", self.where(n))
        if isinstance(base, EnumMember):
            if attr == "value":
                return base.value
            if attr == "name":
                return base.name
            if attr == "__class__":
                for m in self.prog.modules.values():
                    c = self.prog.cls(m, base.cls)
                    if c is not None:
                        return ClassRef(c.mod.rel, c.name)
        if isinstance(base, (list, dict, set, str, tuple, bytearray, bytes)) and not (isinstance(base, tuple) and base and isinstance(base[0], str) and base[0] in ("external", "builtin", "absbuiltin", "excclass")):
            return getattr(base, attr)
        if isinstance(base, Term):
            if attr in base.kwargs:
                return base.kwargs[attr]
            raise raised("AttributeError", f"{base.ctor}.{attr}", self.where(n))
        if isinstance(base, tuple) and base and base[0] == "external":
            return ("external", base[1] + "." + attr)
        if base is None or isinstance(base, (int, bool, BitVec)):
            raise raised("AttributeError", f"{type(base).__name__}.{attr}", self.where(n))
        # analysis-supplied native object
        try:
            return getattr(base, attr)
        except AttributeError:
            raise raised("AttributeError", f"{type(base).__name__}.{attr}", self.where(n))

    def e_Call(self, n: ast.Call) -> Any:
        # super().method(...)
        if isinstance(n.func, ast.Attribute) and isinstance(n.func.value, ast.Call) and isinstance(n.func.value.func, ast.Name) and n.func.value.func.id == "super":
            fr = self.frame
            if fr.cls is None or fr.self_obj is None:
                raise Unknown(f"super() outside a method at {self.where(n)}")
            mro = fr.self_obj.cls.mro if isinstance(fr.self_obj, Obj) else fr.cls.mro
            idx = mro.index(fr.cls)
            args = self._elts(n.args)
            kwargs = {kw.arg: self.eval(kw.value) for kw in n.keywords if kw.arg}
            for k in mro[idx + 1:]:
                if n.func.attr in k.methods:
                    return self.invoke(k.methods[n.func.attr], k, [fr.self_obj] + args, kwargs, self_obj=fr.self_obj)
            if n.func.attr == "__init__":
                return None  # object.__init__
            raise raised("AttributeError", f"super().{n.func.attr}", self.where(n))
        f = self.eval(n.func)
        args = self._elts(n.args)
        kwargs = {}
        for kw in n.keywords:
            if kw.arg is None:
                kwargs.update(self.eval(kw.value))
            else:
                kwargs[kw.arg] = self.eval(kw.value)
        return self.call(f, args, kwargs, n)

    def call(self, f: Any, args: list, kwargs: dict, n: ast.AST | None = None) -> Any:
        if isinstance(f, BoundMethod):
            if f.kind in ("static",):
                return self.invoke(f.func, f.owner, args, kwargs)
            if f.kind == "unbound":
                return self.invoke(f.func, f.owner, args, kwargs, self_obj=args[0] if args else None)
            return self.invoke(f.func, f.owner, [f.self_obj] + list(args), kwargs, self_obj=f.self_obj)
        if isinstance(f, ClassRef):
            members = self.enum_members(f) if f.module else None
            if members is not None:
                if len(args) == 1:
                    v = args[0]
                    if isinstance(v, BitVec):
                        if not v.is_const():
                            c0 = self.cls_of(f)
                            if c0 is not None and ({"IntEnum", "IntFlag"} & c0.ext_bases()):
                                # value-like enum used for naming only: keep the value symbolic
                                return EnumMember(f.name, "<" + sym_name(v) + ">", v)
                            raise Unknown(f"enum lookup {f.name}(<symbolic>) at {self.where(n)}", symbols_of(v))
                        v = v.value()
                    for m in members.values():
                        if m.value == v or m == v:
                            return m
                    raise raised("ValueError", f"{v!r} is not a valid {f.name}", self.where(n))
            return self.instantiate(f, args, kwargs, n)
        if isinstance(f, FuncRef):
            mod = self.prog.module(f.module)
            node = mod.symbols[f.name][-1]
            return self.invoke(node, None, args, kwargs, mod=mod)
        if isinstance(f, tuple) and f:
            tag = f[0]
            if tag == "excclass":
                return raised(f[1], args[0] if args else None)
            if tag == "absbuiltin":
                return self._absbuiltin(f[1], args, kwargs, n)
            if tag == "closure":
                _t, node, env = f
                return self.invoke(node, self.frame.cls, args, kwargs, self_obj=self.frame.self_obj, mod=self.mod, closure_env=env)
            if tag == "builtin" and f[1] in ("list", "tuple", "len", "reversed", "sorted", "enumerate", "zip", "any", "all", "sum", "min", "max", "set"):
                args = [a.items if isinstance(a, _PartialGen) else a for a in args]
            if tag == "builtin" and f[1] == "isinstance":
                return self._isinstance(args[0], args[1])
            if tag == "builtin" and f[1] == "int" and args and isinstance(args[0], BitVec):
                if args[0].is_const():
                    return args[0].value()
                return args[0]
            if tag == "builtin" and f[1] == "bool" and args and isinstance(args[0], Obj):
                return True
        if isinstance(f, Raised):
            return f
        if callable(f) and not isinstance(f, (Term, Obj)):
            try:
                return f(*args, **kwargs)
            except Raised:
                raise
        try:
            return super().call(f, args, kwargs, n)
        except NotConst as e:
            if isinstance(e, Unknown):
                raise
            raise Unknown(str(e))

    def _isinstance(self, v: Any, t: Any) -> bool:
        ts = t if isinstance(t, tuple) and not (t and isinstance(t[0], str)) else (t,)
        for x in ts:
            if isinstance(x, ClassRef):
                if isinstance(v, Obj) and v.isinstance_of(x.name):
                    return True
                if isinstance(v, EnumMember) and v.cls == x.name:
                    return True
                if isinstance(v, Term) and v.ctor == x.name:
                    return True
                nat = getattr(v, "_abs_isinstance", None)
                if nat is not None and x.name in nat:
                    return True
            elif isinstance(x, tuple) and x and x[0] == "builtin":
                py = {"int": int, "str": str, "tuple": tuple, "list": list, "dict": dict, "set": set, "bool": bool, "bytes": bytes, "bytearray": bytearray}
                if x[1] == "int" and isinstance(v, BitVec):
                    return True
                if x[1] in py and isinstance(v, py[x[1]]) and not isinstance(v, EnumMember):
                    return True
            elif isinstance(x, tuple) and x and x[0] == "external":
                nat = getattr(v, "_abs_isinstance", None)
                last = x[1].split(".")[-1]
                if nat is not None and last in nat:
                    return True
                if last in ("MockLLIL",) and getattr(v, "_abs_isinstance", None) is None and isinstance(v, Term):
                    return True
            elif isinstance(x, tuple) and x and x[0] == "excclass":
                pass
        return False

    def _absbuiltin(self, name: str, args: list, kwargs: dict, n: ast.AST | None) -> Any:
        if name == "getattr":
            try:
                return self.getattr(args[0], args[1], n)
            except Raised as ex:
                if ex.cls_name == "AttributeError" and len(args) > 2:
                    return args[2]
                raise
        if name == "hasattr":
            try:
                self.getattr(args[0], args[1], n)
                return True
            except Raised as ex:
                if ex.cls_name == "AttributeError":
                    return False
                raise
        if name == "setattr":
            if isinstance(args[0], Obj):
                args[0].attrs[args[1]] = args[2]
                return None
            raise raised("AttributeError", "setattr on non-object", self.where(n))
        if name == "isinstance":
            return self._isinstance(args[0], args[1])
        if name == "issubclass":
            c = self.cls_of(args[0]) if isinstance(args[0], ClassRef) else None
            return bool(c and isinstance(args[1], ClassRef) and c.is_subclass_of(args[1].name))
        if name == "callable":
            return isinstance(args[0], (BoundMethod, FuncRef, ClassRef)) or (callable(args[0]) and not isinstance(args[0], (Obj, Term))) or (isinstance(args[0], tuple) and args[0] and args[0][0] in ("closure", "lambda", "absbuiltin", "builtin"))
        if name == "type":
            v = args[0]
            if isinstance(v, Obj):
                return ClassRef(v.cls.mod.rel, v.cls.name)
            if isinstance(v, EnumMember):
                return self.getattr(v, "__class__", n)
            if isinstance(v, Term):
                return ClassRef("", v.ctor)
            return ("builtin", type(v).__name__)
        if name == "iter":
            v = args[0]
            return _Iter(list(v.items) if isinstance(v, _PartialGen) else list(self._iter(v)), v.exc if isinstance(v, _PartialGen) else None)
        if name == "next":
            it = args[0]
            if isinstance(it, _PartialGen):
                it = _Iter(list(it.items), it.exc)
                args[0] = it
            if isinstance(it, list):
                raise Unknown("next() on a list: generators must be wrapped by iter()/kept as _Iter")
            if isinstance(it, _Iter):
                return it.next(self, n)
            raise Unknown(f"next() on {type(it).__name__}")
        if name == "repr":
            return repr(args[0])
        if name == "id":
            return id(args[0])
        if name == "format":
            return "<fmt>"
        raise Unknown(f"builtin {name}")

    def e_Compare(self, n: ast.Compare) -> Any:
        left = self.eval(n.left)
        for op, r in zip(n.ops, n.comparators):
            right = self.eval(r)
            if isinstance(left, BitVec) or isinstance(right, BitVec):
                a = left.value() if isinstance(left, BitVec) and left.is_const() else left
                b = right.value() if isinstance(right, BitVec) and right.is_const() else right
                if isinstance(a, BitVec) or isinstance(b, BitVec):
                    if isinstance(op, (ast.Is, ast.IsNot)) and (a is None or b is None):
                        res = isinstance(op, ast.IsNot)
                        if not res:
                            return False
                        left = right
                        continue
                    raise Unknown(f"comparison on a symbolic value at {self.where(n)}: {unparse(n)}", symbols_of(a, b))
                left, right = a, b
            if isinstance(op, (ast.Is, ast.IsNot)):
                same = (left is right) or (left is None and right is None) or (isinstance(left, (EnumMember, bool)) and type(left) is type(right) and left == right) \
                    or (isinstance(left, ClassRef) and isinstance(right, ClassRef) and left.name == right.name)
                res = same if isinstance(op, ast.Is) else not same
            elif isinstance(op, (ast.In, ast.NotIn)):
                cont = right.items if isinstance(right, _PartialGen) else right
                if isinstance(cont, Obj):
                    raise Unknown("`in` on object")
                inn = any(self._eq(left, x) for x in (cont.keys() if isinstance(cont, dict) else cont))
                res = inn if isinstance(op, ast.In) else not inn
            elif isinstance(op, (ast.Eq, ast.NotEq)):
                eq = self._eq(left, right)
                res = eq if isinstance(op, ast.Eq) else not eq
            else:
                a, b = _unwrap(left), _unwrap(right)
                try:
                    res = {ast.Lt: a < b, ast.LtE: a <= b, ast.Gt: a > b, ast.GtE: a >= b}[type(op)] if True else False
                except TypeError as ex:
                    raise Unknown(f"ordering comparison {unparse(n)}: {ex}")
            if not res:
                return False
            left = right
        return True

    def _eq(self, a: Any, b: Any) -> bool:
        if isinstance(a, Obj) or isinstance(b, Obj):
            return a is b
        if isinstance(a, EnumMember) and isinstance(b, EnumMember):
            return a.cls == b.cls and a.name == b.name or (a.cls == b.cls and a.value == b.value)
        if isinstance(a, EnumMember) and not isinstance(b, EnumMember):
            # plain Enum members never equal raw values; IntEnum / str-mixin enums do
            return _enum_is_valuelike(self, a) and a.value == b
        if isinstance(b, EnumMember):
            return _enum_is_valuelike(self, b) and b.value == a
        try:
            return bool(a == b)
        except Exception:
            return False

    def e_BoolOp(self, n: ast.BoolOp) -> Any:
        last: Any = None
        for e in n.values:
            last = self.eval(e)
            t = self.truth(last, e)
            if isinstance(n.op, ast.And) and not t:
                return last
            if isinstance(n.op, ast.Or) and t:
                return last
        return last

    def e_UnaryOp(self, n: ast.UnaryOp) -> Any:
        if isinstance(n.op, ast.Not):
            return not self.truth(self.eval(n.operand), n)
        return super().e_UnaryOp(n)

    def e_IfExp(self, n: ast.IfExp) -> Any:
        return self.eval(n.body) if self.truth(self.eval(n.test), n) else self.eval(n.orelse)

    def truth(self, v: Any, n: ast.AST | None = None) -> bool:
        if isinstance(v, BitVec):
            if v.is_const():
                return v.value() != 0
            raise Unknown(f"truth value of a symbolic value at {self.where(n)}", symbols_of(v))
        if isinstance(v, Obj):
            if v.cls.find_method("__bool__") or v.cls.find_method("__len__"):
                raise Unknown(f"__bool__/__len__ on {v.cls.name}")
            return True
        if isinstance(v, (EnumMember,)):
            return bool(v.value) if _enum_is_valuelike(self, v) else True
        if isinstance(v, (ClassRef, FuncRef, BoundMethod, Term)):
            return True
        if isinstance(v, _PartialGen):
            return True
        return bool(v)

    def e_JoinedStr(self, n: ast.JoinedStr) -> Any:
        out = ""
        for v in n.values:
            if isinstance(v, ast.Constant):
                out += str(v.value)
            elif isinstance(v, ast.FormattedValue):
                try:
                    val = self.eval(v.value)
                    spec = self.eval(v.format_spec) if v.format_spec else ""
                    if isinstance(val, EnumMember) and isinstance(val.value, BitVec):
                        val = val.value
                    if isinstance(val, BitVec):
                        val = val.value() if val.is_const() else None
                        if val is None:
                            out += "<" + sym_name(self.eval(v.value) if not isinstance(self.eval(v.value), EnumMember) else self.eval(v.value).value) + ">"
                            continue
                    out += format(_unwrap(val), spec) if not isinstance(val, (Obj, Term)) else f"<{type(val).__name__}>"
                except Raised:
                    raise
                except Exception:
                    out += "<?>"
        return out

    def e_Subscript(self, n: ast.Subscript) -> Any:
        base = self.eval(n.value)
        if isinstance(n.slice, ast.Slice):
            return super().e_Subscript(n)
        idx = self.eval(n.slice)
        if isinstance(idx, BitVec):
            if not idx.is_const():
                raise Unknown(f"symbolic subscript at {self.where(n)}", symbols_of(idx))
            idx = idx.value()
        if isinstance(base, ClassRef) and self.cls_of(base) is not None:
            members = self.enum_members(base)
            if members is not None:
                if idx in members:
                    return members[idx]
                raise raised("KeyError", idx, self.where(n))
            return base
        if isinstance(base, dict):
            for k, v in base.items():
                if self._eq(k, idx):
                    return v
            raise raised("KeyError", idx, self.where(n))
        if isinstance(base, (list, tuple, str)) and not (isinstance(base, tuple) and base and isinstance(base[0], str) and base[0] in ("external", "builtin")):
            try:
                return base[_unwrap(idx)]
            except IndexError:
                raise raised("IndexError", idx, self.where(n))
        if isinstance(base, _PartialGen):
            return base.items[idx]
        try:
            return super().e_Subscript(n)
        except NotConst as e:
            raise Unknown(str(e))

    def e_Yield(self, n: ast.Yield) -> Any:
        raise Unknown("yield expression used as a value")

    def _iter(self, v: Any) -> Any:
        if isinstance(v, _PartialGen):
            if v.exc is not None:
                raise Unknown("iteration over a generator that raised part-way; use iter()/next()")
            return list(v.items)
        if isinstance(v, _Iter):
            out = list(v.items[v.pos:])
            v.pos = len(v.items)
            if v.exc is not None:
                raise v.exc
            return out
        if isinstance(v, Obj):
            raise Unknown(f"iteration over object {v.cls.name}")
        if isinstance(v, (type(reversed([])), type({}.items()), type({}.keys()), type({}.values()), type(iter([])), zip, enumerate, map)):
            return list(v)
        return super()._iter(v)

    def _bind(self, target: ast.AST, value: Any) -> None:
        if isinstance(target, ast.Attribute):
            base = self.eval(target.value)
            if isinstance(base, Obj):
                base.attrs[target.attr] = value
                return
            if isinstance(base, (Term, ClassRef, EnumMember, int, str)) or base is None:
                raise Unknown(f"attribute store on {type(base).__name__} at {self.where(target)}")
            setattr(base, target.attr, value)   # native analysis object
            return
        if isinstance(target, ast.Starred):
            self._bind(target.value, value)
            return
        if isinstance(target, (ast.Tuple, ast.List)) and any(isinstance(e, ast.Starred) for e in target.elts):
            vals = list(self._iter(value))
            k = [i for i, e in enumerate(target.elts) if isinstance(e, ast.Starred)][0]
            after = len(target.elts) - k - 1
            if len(vals) < len(target.elts) - 1:
                raise raised("ValueError", "not enough values to unpack", self.where(target))
            for t, v in zip(target.elts[:k], vals[:k]):
                self._bind(t, v)
            self._bind(target.elts[k], vals[k:len(vals) - after])
            for t, v in zip(target.elts[k + 1:], vals[len(vals) - after:]):
                self._bind(t, v)
            return
        if isinstance(target, (ast.Tuple, ast.List)):
            vals = list(self._iter(value)) if not isinstance(value, (tuple, list)) else list(value)
            if len(vals) != len(target.elts):
                raise raised("ValueError", "unpack arity", self.where(target))
            for t, v in zip(target.elts, vals):
                self._bind(t, v)
            return
        super()._bind(target, value)

    # -- statements --------------------------------------------------------
    def exec(self, st: ast.stmt) -> None:
        self.budget[0] -= 1
        if self.budget[0] <= 0:
            raise Unknown("evaluation budget exhausted")
        if isinstance(st, ast.Expr):
            if isinstance(st.value, ast.Constant):
                return
            if isinstance(st.value, ast.Yield):
                self._yields.append(self.eval(st.value.value) if st.value.value else None)
                return
            if isinstance(st.value, ast.YieldFrom):
                v = self.eval(st.value.value)
                if isinstance(v, _PartialGen):
                    self._yields.extend(v.items)
                    if v.exc is not None:
                        raise v.exc
                else:
                    self._yields.extend(self._iter(v))
                return
            self.eval(st.value)
            return
        if isinstance(st, ast.If):
            self.exec_block(st.body if self.truth(self.eval(st.test), st) else st.orelse)
            return
        if isinstance(st, ast.While):
            k = 0
            while self.truth(self.eval(st.test), st):
                k += 1
                if k > 100000:
                    raise Unknown("loop bound")
                try:
                    self.exec_block(st.body)
                except _Continue:
                    continue
                except _Break:
                    break
            return
        if isinstance(st, ast.Raise):
            if st.exc is None:
                cur = self.env.get("__current_exc__")
                if cur is None:
                    raise Unknown("bare raise outside handler")
                raise cur
            v = self.eval(st.exc)
            raise self._to_raised(v, st)
        if isinstance(st, ast.Assert):
            if not self.truth(self.eval(st.test), st):
                raise raised("AssertionError", self.eval(st.msg) if st.msg is not None else None, self.where(st))
            return
        if isinstance(st, ast.Try):
            try:
                self.exec_block(st.body)
            except Raised as ex:
                for h in st.handlers:
                    names = self._handler_names(h)
                    if ex.matches(names):
                        if h.name:
                            self.env[h.name] = ex
                        saved = self.env.get("__current_exc__")
                        self.env["__current_exc__"] = ex
                        try:
                            self.exec_block(h.body)
                        finally:
                            if saved is None:
                                self.env.pop("__current_exc__", None)
                            else:
                                self.env["__current_exc__"] = saved
                        break
                else:
                    if st.finalbody:
                        self.exec_block(st.finalbody)
                    raise
            else:
                self.exec_block(st.orelse)
            if st.finalbody:
                self.exec_block(st.finalbody)
            return
        if isinstance(st, ast.With):
            self._with(st, 0)
            return
        if isinstance(st, ast.Match):
            subj = self.eval(st.subject)
            for case in st.cases:
                if self._match(case.pattern, subj) and (case.guard is None or self.truth(self.eval(case.guard), case.guard)):
                    self.exec_block(case.body)
                    return
            return
        if isinstance(st, (ast.Global, ast.Nonlocal)):
            return
        if isinstance(st, ast.ImportFrom):
            # function-local import of a repository module: bind the names
            target = self.mod._resolve_rel(st.module, st.level)
            m2 = self.prog.by_dotted.get(target)
            if m2 is not None:
                for a in st.names:
                    self.env[a.asname or a.name] = self.sub(m2, {}).name(a.name)
            return
        if isinstance(st, ast.Delete):
            return
        try:
            super().exec(st)
        except Unknown:
            raise
        except (_Return, _Break, _Continue, Raised):
            raise
        except NotConst as e:
            raise Unknown(str(e))

    def _match(self, pat: ast.pattern, subj: Any) -> bool:
        if isinstance(pat, ast.MatchValue):
            return self._eq(self.eval(pat.value), subj)
        if isinstance(pat, ast.MatchAs) and pat.pattern is None:
            if pat.name:
                self.env[pat.name] = subj
            return True
        if isinstance(pat, ast.MatchOr):
            return any(self._match(p, subj) for p in pat.patterns)
        if isinstance(pat, ast.MatchSingleton):
            return subj is pat.value
        raise Unknown(f"match pattern {type(pat).__name__}")

    def _handler_names(self, h: ast.ExceptHandler) -> set[str]:
        if h.type is None:
            return {"BaseException"}
        ts = h.type.elts if isinstance(h.type, ast.Tuple) else [h.type]
        out = set()
        for t in ts:
            v = self.eval(t)
            if isinstance(v, tuple) and v and v[0] == "excclass":
                out.add(v[1])
            elif isinstance(v, ClassRef):
                out.add(v.name)
            elif isinstance(v, tuple) and v and v[0] == "external":
                out.add(v[1].split(".")[-1])
            else:
                raise Unknown(f"except clause type {unparse(t)}")
        # aliases of the trusted summary
        if "BufferTooShort" in out:
            out.add("BufferTooShortErrorError")
        return out

    def _to_raised(self, v: Any, st: ast.AST) -> Raised:
        if isinstance(v, Raised):
            if not v.where:
                v.where = self.where(st)
            return v
        if isinstance(v, Obj):
            bases = {c.name for c in v.cls.mro} | v.cls.ext_bases()
            return Raised(v.cls.name, bases, v.attrs.get("args"), self.where(st))
        if isinstance(v, ClassRef):
            c = self.cls_of(v)
            bases = ({k.name for k in c.mro} | c.ext_bases()) if c else {"Exception"}
            return Raised(v.name, bases, None, self.where(st))
        if isinstance(v, tuple) and v and v[0] == "excclass":
            return raised(v[1], None, self.where(st))
        raise Unknown(f"raise of {type(v).__name__}")

    def _with(self, st: ast.With, i: int) -> None:
        if i == len(st.items):
            self.exec_block(st.body)
            return
        item = st.items[i]
        ce = item.context_expr
        # @contextmanager generator function: run up to the top-level yield, body, then the rest
        if isinstance(ce, ast.Call):
            f = self.eval(ce.func)
            if isinstance(f, FuncRef):
                mod = self.prog.module(f.module)
                node = mod.symbols[f.name][-1]
                if any((isinstance(d, ast.Name) and d.id == "contextmanager") or (isinstance(d, ast.Attribute) and d.attr == "contextmanager") for d in node.decorator_list):
                    args = self._elts(ce.args)
                    kwargs = {kw.arg: self.eval(kw.value) for kw in ce.keywords if kw.arg}
                    ev = self.sub(mod, {})
                    params = [p.arg for p in node.args.args]
                    for p, a in zip(params, args):
                        ev.env[p] = a
                    ev.env.update(kwargs)
                    ys = [k for k, s in enumerate(node.body) if isinstance(s, ast.Expr) and isinstance(s.value, ast.Yield)]
                    if len(ys) != 1:
                        raise Unknown(f"@contextmanager {f.name} without a single top-level yield")
                    ev._yields = []
                    ev.exec_block(node.body[:ys[0]])
                    yv = node.body[ys[0]].value.value
                    val = ev.eval(yv) if yv is not None else None
                    if item.optional_vars is not None:
                        self._bind(item.optional_vars, val)
                    self._with(st, i + 1)
                    ev.exec_block(node.body[ys[0] + 1:])
                    return
        mgr = self.eval(ce)
        enter = getattr(mgr, "__enter__", None)
        if enter is None:
            raise Unknown(f"with on {type(mgr).__name__}")
        v = enter()
        if item.optional_vars is not None:
            self._bind(item.optional_vars, v)
        try:
            self._with(st, i + 1)
        finally:
            mgr.__exit__(None, None, None)


def _has_own_yield(fn: ast.AST) -> bool:
    stack = list(ast.iter_child_nodes(fn))
    while stack:
        n = stack.pop()
        if isinstance(n, (ast.FunctionDef, ast.AsyncFunctionDef, ast.Lambda, ast.ClassDef)):
            continue
        if isinstance(n, (ast.Yield, ast.YieldFrom)):
            return True
        stack.extend(ast.iter_child_nodes(n))
    return False


def _enum_is_valuelike(ev: AbsEval, m: EnumMember) -> bool:
    for mod in ev.prog.modules.values():
        c = ev.prog.cls(mod, m.cls)
        if c is not None:
            eb = c.ext_bases()
            return bool({"IntEnum", "IntFlag", "StrEnum", "str", "int"} & eb)
    return False


def sym_name(v: Any) -> str:
    """Canonical short name of a symbolic bit-vector: in3, in0|in1<<8, ... (falls back to the bit list)."""
    if not isinstance(v, BitVec):
        return repr(v)
    bits = v.bits
    parts = []
    i = 0
    width = max((k + 1 for k, b in enumerate(bits) if b != 0), default=0)
    ok = True
    while i < width:
        b = bits[i]
        if isinstance(b, tuple) and len(b) == 3 and not b[2] and b[1] == 0 and i % 8 == 0:
            name = b[0]
            n = 0
            while i + n < len(bits) and bits[i + n] == (name, n, False):
                n += 1
            # the remainder of the byte must be zero when the run is shorter than 8
            if any(bits[i + k] != 0 for k in range(n, 8) if i + k < len(bits)):
                ok = False
                break
            parts.append(name + (f"[{n}]" if n != 8 else "") + (f"<<{i}" if i else ""))
            i += 8
        elif b == 0 and all(x == 0 for x in bits[i:i + 8]):
            i += 8
        else:
            ok = False
            break
    if ok and parts:
        return "|".join(parts)
    from .bits import show_bit
    return "[" + " ".join(show_bit(x) for x in bits[:width]) + "]"


class _PartialGen:
    """Result of an eagerly evaluated generator that raised after producing `items`."""

    def __init__(self, items: list, exc: Raised | None):
        self.items, self.exc = items, exc


class _Iter:
    def __init__(self, items: list, exc: Raised | None = None):
        self.items, self.exc, self.pos = items, exc, 0

    def next(self, ev: AbsEval, n: ast.AST | None) -> Any:
        if self.pos < len(self.items):
            self.pos += 1
            return self.items[self.pos - 1]
        if self.exc is not None:
            raise self.exc
        raise raised("StopIteration", None, ev.where(n))


def deepcopy_value(v: Any, memo: dict | None = None) -> Any:
    memo = memo if memo is not None else {}
    if isinstance(v, Obj):
        if id(v) in memo:
            return memo[id(v)]
        o = Obj(v.cls)
        memo[id(v)] = o
        o.attrs = {k: deepcopy_value(x, memo) for k, x in v.attrs.items()}
        return o
    if isinstance(v, list):
        return [deepcopy_value(x, memo) for x in v]
    if isinstance(v, dict):
        return {k: deepcopy_value(x, memo) for k, x in v.items()}
    if isinstance(v, tuple):
        return tuple(deepcopy_value(x, memo) for x in v)
    return v
