"""Abstract execution of the assembler (asm.lark + asm.py AsmTransformer + sc_asm.py Assembler) on instruction
texts whose numbers are symbolic bit-vectors.

  text (tokens with symbolic values)
    -> membership / derivation in the grammar file (lark, configured with the options read from asm.py's Lark(...) call)
    -> AsmTransformer handlers, interpreted from source by sa/absint.py over abstract operand objects
    -> Assembler._first_pass / _second_pass, interpreted from source (trusted summaries: Encoder, bincopy.BinFile, copy)
    -> emitted bytes as bit-provenance vectors over the *same* symbols as the text.

Nothing of /repo is imported or executed; the grammar file is data for lark's Earley parser."""
from __future__ import annotations

import ast
import re
from typing import Any

from . import isa
from .absint import AbsEval, Obj, Raised, Unknown, raised, symbols_of
from .bits import BitVec
from .core import REPO, AnalysisError
from .isa_abs import AbsEncoder, IsaAbs
from .pyfacts import ClassRef, EnumMember, PyProgram, Term

ASM_PY = "sc62015/pysc62015/asm.py"
SC_ASM_PY = "sc62015/pysc62015/sc_asm.py"
GRAMMAR = "sc62015/pysc62015/asm.lark"

ASM_ASSUMPTIONS = [
    "lark 1.x: Lark(grammar, **options read from asm.py).parse(text) yields the derivation the repository's parser object yields; Transformer calls the "
    "method named after each rule/alias bottom-up with the child list, token callbacks by terminal name, filtered anonymous/underscore terminals",
    "bincopy.BinFile.add_binary(data, address) records a segment; copy.deepcopy copies object graphs",
]


class SymStr(str):
    """A token text whose meaning is symbolic: a numeric literal with a symbolic value (kind 'num'), a named internal register with a
    symbolic value (kind 'name'), or a label (kind 'label')."""
    kind: str
    bv: Any

    def __new__(cls, text: str, kind: str, bv: Any = None) -> "SymStr":
        o = super().__new__(cls, text)
        o.kind, o.bv = kind, bv
        return o

    def __str__(self) -> str:      # str(token) keeps the abstract value
        return self

    def upper(self) -> "SymStr":   # type: ignore[override]
        return self

    def lower(self) -> "SymStr":   # type: ignore[override]
        return self

    def strip(self, chars: Any = None) -> "SymStr":   # type: ignore[override]
        return self

    def __reduce__(self) -> Any:
        return (SymStr, (str.__str__(self), self.kind, self.bv))


_PART = re.compile(r"^([A-Za-z_]\w*)(?:\[(\d+)\])?(?:<<(\d+))?$")


def parse_sym(s: str) -> BitVec:
    """Inverse of absint.sym_name: 'in0|in1<<8|in2[4]<<16' -> BitVec."""
    v = BitVec.const(0)
    for part in s.split("|"):
        m = _PART.match(part.strip())
        if not m:
            raise AnalysisError(f"rendered symbolic value {s!r} is not a byte concatenation")
        name, width, shift = m.group(1), int(m.group(2) or 8), int(m.group(3) or 0)
        b = BitVec.sym(name, 8)
        if width != 8:
            b = b & ((1 << width) - 1)
        v = v | (b << shift)
    return v


class BinFileStub:
    _abs_isinstance = {"BinFile"}

    def __init__(self) -> None:
        self.segments: list[tuple[Any, list]] = []

    def add_binary(self, data: Any, address: Any = 0, overwrite: bool = False) -> None:
        self.segments.append((address, list(data)))


class _Bincopy:
    BinFile = BinFileStub


class AsmAbsEval(AbsEval):
    """AbsEval + the few constructs only the assembler uses."""

    def sub(self, mod: Any, env: dict, frame: Any = None) -> "AsmAbsEval":
        from .absint import Frame
        return AsmAbsEval(self.prog, mod, env, self.budget, frame or Frame(None, None), self.shared)

    def e_Call(self, n: ast.Call) -> Any:
        if isinstance(n.func, ast.Name) and n.func.id == "cast" and len(n.args) == 2:
            return self.eval(n.args[1])          # typing.cast(T, v) is v; T may be a PEP 604 union of classes
        return super().e_Call(n)

    def call(self, f: Any, args: list, kwargs: dict, n: ast.AST | None = None) -> Any:
        if isinstance(f, tuple) and f and f[0] == "builtin":
            nm = f[1]
            if nm == "int" and args:
                x = args[0]
                if isinstance(x, SymStr):
                    if x.kind == "num":
                        return x.bv.value() if isinstance(x.bv, BitVec) and x.bv.is_const() else x.bv
                    raise raised("ValueError", f"invalid literal for int(): {str.__str__(x)!r}", self.where(n))
                if isinstance(x, str):
                    base = args[1] if len(args) > 1 else kwargs.get("base", 10)
                    try:
                        return int(x, base)
                    except ValueError as ex:
                        raise raised("ValueError", str(ex), self.where(n))
                if isinstance(x, EnumMember) and isinstance(x.value, BitVec):
                    return x.value.value() if x.value.is_const() else x.value
                if x is None:
                    raise raised("TypeError", "int() argument must be a string or a number, not 'NoneType'", self.where(n))
            if nm == "str" and args and isinstance(args[0], SymStr):
                return args[0]
            if nm == "str" and args and isinstance(args[0], Raised):
                return f"{args[0].cls_name}: {args[0].value}"
            if nm == "len" and args and isinstance(args[0], SymStr):
                raise Unknown(f"len() of a symbolic token at {self.where(n)}")
            if nm == "ord" and args and isinstance(args[0], str) and len(args[0]) == 1:
                return ord(args[0])
        if isinstance(f, tuple) and f and f[0] == "external" and f[1].split(".")[-1] == "ord" and args:
            return ord(args[0])
        if isinstance(f, ClassRef) and f.module and len(args) == 1 and isinstance(args[0], BitVec) and not args[0].is_const():
            members = self.enum_members(f)
            if members is not None and self.shared.get("sym_enum") == "invalid" and not (symbols_of(args[0]) & set(self.shared.get("member_syms") or ())):
                raise raised("ValueError", f"<symbolic> is not a valid {f.name}", self.where(n))
        return super().call(f, args, kwargs, n)

    def e_Subscript(self, n: ast.Subscript) -> Any:
        if not isinstance(n.slice, ast.Slice):
            base = self.eval(n.value)
            if isinstance(base, ClassRef) and self.cls_of(base) is not None:
                idx = self.eval(n.slice)
                if isinstance(idx, SymStr):
                    members = self.enum_members(base)
                    if members is not None:
                        if idx.kind == "name":
                            return EnumMember(base.name, str.__str__(idx), idx.bv)
                        raise raised("KeyError", str.__str__(idx), self.where(n))
        return super().e_Subscript(n)

    def e_Compare(self, n: ast.Compare) -> Any:
        # ordering of a bit-vector against a constant, decided from the known bits (e.g. a 16-bit literal <= 0xFFFF)
        if len(n.ops) == 2 and all(isinstance(o, (ast.Lt, ast.LtE, ast.Gt, ast.GtE)) for o in n.ops):
            mid = n.comparators[0]
            first = ast.copy_location(ast.Compare(left=n.left, ops=[n.ops[0]], comparators=[mid]), n)
            second = ast.copy_location(ast.Compare(left=mid, ops=[n.ops[1]], comparators=[n.comparators[1]]), n)
            return self.e_Compare(first) and self.e_Compare(second)
        if len(n.ops) == 1 and isinstance(n.ops[0], (ast.Lt, ast.LtE, ast.Gt, ast.GtE)):
            a, b = self.eval(n.left), self.eval(n.comparators[0])
            from .bits import Lin
            if (isinstance(a, BitVec) and not a.is_const()) or (isinstance(b, BitVec) and not b.is_const()) or isinstance(a, Lin) or isinstance(b, Lin):
                ra, rb = _range(a), _range(b)
                if ra is None or rb is None:
                    raise Unknown(f"ordering on a symbolic value at {self.where(n)}", symbols_of(a, b))
                op = n.ops[0]
                poss = set()
                for x in (ra[0], ra[1]):
                    for y in (rb[0], rb[1]):
                        poss.add({ast.Lt: x < y, ast.LtE: x <= y, ast.Gt: x > y, ast.GtE: x >= y}[type(op)])
                if len(poss) == 1:
                    return poss.pop()
                raise Unknown(f"ordering on a symbolic value is not decided by its width at {self.where(n)}: {ast.unparse(n)}", symbols_of(a, b))
        return super().e_Compare(n)

    def _absbuiltin(self, name: str, args: list, kwargs: dict, n: ast.AST | None) -> Any:
        if name == "repr":
            return self.repr_of(args[0], n)
        return super()._absbuiltin(name, args, kwargs, n)

    def repr_of(self, v: Any, n: ast.AST | None = None) -> str:
        if isinstance(v, Obj):
            m = v.cls.find_method("__repr__")
            if m is not None:
                return self.invoke(m[1], m[0], [v], {}, self_obj=v)
            return f"<{v.cls.name} object #{id(v)}>"      # object.__repr__: distinct per object
        if isinstance(v, SymStr):
            return repr(str.__str__(v))
        return repr(v)

    def e_JoinedStr(self, n: ast.JoinedStr) -> Any:
        out = ""
        for v in n.values:
            if isinstance(v, ast.Constant):
                out += str(v.value)
                continue
            assert isinstance(v, ast.FormattedValue)
            val = self.eval(v.value)
            if isinstance(val, Obj):
                if v.conversion == ord("r") or val.cls.find_method("__str__") is None:
                    out += self.repr_of(val, n)
                else:
                    m = val.cls.find_method("__str__")
                    out += self.invoke(m[1], m[0], [val], {}, self_obj=val)
                continue
            if isinstance(val, Raised):
                out += f"{val.cls_name}: {val.value}"
                continue
            if isinstance(val, SymStr):
                out += str.__str__(val)
                continue
            if isinstance(val, (list, tuple)) and any(isinstance(x, Obj) for x in val):
                out += "[" + ", ".join(self.repr_of(x, n) for x in val) + "]"
                continue
            if v.conversion == ord("r") and isinstance(val, str):
                out += repr(val)
                continue
            sub = ast.JoinedStr(values=[v])
            ast.copy_location(sub, n)
            out += super().e_JoinedStr(sub)
        return out


def _range(v: Any) -> tuple[int, int] | None:
    from .bits import Lin
    if isinstance(v, bool):
        return None
    if isinstance(v, Lin):
        lo = hi = v.c
        for k, bv in v.terms:
            r = _range(bv)
            if r is None:
                return None
            lo += min(k * r[0], k * r[1])
            hi += max(k * r[0], k * r[1])
        return (lo, hi)
    if isinstance(v, int):
        return (v, v)
    if isinstance(v, BitVec):
        lo = hi = 0
        for i, b in enumerate(v.bits):
            if b == 1:
                lo |= 1 << i
                hi |= 1 << i
            elif b != 0:
                hi |= 1 << i
        return (lo, hi)
    return None


def lark_options(prog: PyProgram) -> dict:
    """Keyword options of the module-level `asm_parser = Lark(...)` call in asm.py."""
    mod = prog.module(ASM_PY)
    for st in mod.tree.body:
        if isinstance(st, ast.Assign) and any(isinstance(t, ast.Name) and t.id == "asm_parser" for t in st.targets) and isinstance(st.value, ast.Call):
            opts = {}
            for kw in st.value.keywords:
                try:
                    opts[kw.arg] = ast.literal_eval(kw.value)
                except ValueError:
                    raise AnalysisError(f"asm.py: Lark option {kw.arg} is not a literal")
            return opts
    raise AnalysisError("asm.py: `asm_parser = Lark(...)` not found")


class AsmAbs:
    def __init__(self, ia: IsaAbs):
        import lark
        self.ia = ia
        self.prog = ia.prog
        gpath = REPO / GRAMMAR
        if not gpath.exists():
            raise AnalysisError(f"grammar anchor missing: {GRAMMAR}")
        self.options = lark_options(self.prog)
        try:
            self.parser = lark.Lark(gpath.read_text(), **self.options)
        except Exception as e:  # a grammar lark rejects is an analysis failure, not a verdict
            raise AnalysisError(f"asm.lark does not load under lark: {type(e).__name__}: {e}")
        self.lark = lark
        self.shared = dict(ia.shared)
        self.shared["natives"] = dict(ia.shared["natives"])
        self.shared["natives"].update({"OPCODES": ia.opcodes, "REVERSE_OPCODES_CACHE": {}, "Encoder": AbsEncoder, "bincopy": _Bincopy})
        self.shared["sym_enum"] = "member"
        self.shared["decorators_ok"] = ("v_args",)     # honoured by AsmAbs.transform (meta=True passes the line number first)
        self.asm_mod = self.prog.module(ASM_PY)
        self.sc_mod = self.prog.module(SC_ASM_PY)
        self.tcls = self.prog.cls(self.asm_mod, "AsmTransformer")
        self.acls = self.prog.cls(self.sc_mod, "Assembler")
        if self.tcls is None or self.acls is None:
            raise AnalysisError("AsmTransformer / Assembler class anchors missing")

    def ev(self, mod: Any) -> AsmAbsEval:
        return AsmAbsEval(self.prog, mod, {}, self.ia.ev.budget, None, self.shared)

    # -- grammar ------------------------------------------------------------
    def parse(self, text: str) -> Any:
        return self.parser.parse(text if text.endswith("\n") else text + "\n")

    # -- transformer ----------------------------------------------------------
    def transform(self, tree: Any, symtab: dict[str, Any], tobj: Obj | None = None) -> Any:
        """Bottom-up application of AsmTransformer, as lark.Transformer does; `symtab` maps placeholder token texts to SymStr."""
        ev = self.ev(self.asm_mod)
        tobj = tobj or ev.instantiate(ClassRef(ASM_PY, "AsmTransformer"), [], {})
        Token, Tree = self.lark.Token, self.lark.Tree

        def tok(t: Any) -> Any:
            v: Any = symtab.get(str.__str__(t), None)
            if v is None:
                v = str.__str__(t)
            m = self.tcls.find_method(t.type)
            if m is None:
                return _Tok(v, t.type) if not isinstance(v, SymStr) else v
            return ev.call(ev.getattr(tobj, t.type), [_Tok(v, t.type) if not isinstance(v, SymStr) else v], {})

        def rec(node: Any) -> Any:
            if isinstance(node, Token):
                return tok(node)
            children = [rec(c) for c in node.children]
            name = str(node.data)
            m = self.tcls.find_method(name)
            if m is None:
                return _TreeStub(name, children)
            decos = [ast.unparse(d) for d in m[1].decorator_list]
            if any("v_args" in d for d in decos):
                if any("meta=True" in d for d in decos):
                    return ev.call(ev.getattr(tobj, name), [_Meta(getattr(node.meta, "line", 1)), children], {})
                raise Unknown(f"v_args form on {name}")
            return ev.call(ev.getattr(tobj, name), [children], {})
        return rec(tree)

    # -- assembler ------------------------------------------------------------
    def new_assembler(self) -> Obj:
        ev = self.ev(self.sc_mod)
        return ev.instantiate(ClassRef(SC_ASM_PY, "Assembler"), [], {})

    def method(self, obj: Obj, name: str, args: list) -> Any:
        ev = self.ev(self.sc_mod)
        return ev.call(ev.getattr(obj, name), args, {})

    def assemble_ast(self, program_ast: dict, asm: Obj | None = None) -> tuple[Obj, BinFileStub]:
        asm = asm or self.new_assembler()
        self.method(asm, "_first_pass", [program_ast])
        out = self.method(asm, "_second_pass", [program_ast])
        return asm, out

    def assemble_text(self, text: str, symtab: dict[str, Any], sym_enum: str = "member", member_syms: Any = frozenset()) -> dict:
        """Returns {'status': ok|parse-error|error, 'alias', 'segments', 'exc', ...} for a one-line program."""
        res: dict = {"status": "ok", "alias": None}
        try:
            tree = self.parse(text)
        except self.lark.exceptions.LarkError as e:
            res.update(status="parse-error", exc=type(e).__name__)
            return res
        res["alias"] = _instr_alias(tree, self.lark)
        self.shared["sym_enum"] = sym_enum
        self.shared["member_syms"] = frozenset(member_syms)
        try:
            program = self.transform(tree, symtab)
        except Raised as e:
            res.update(status="error", stage="transform", exc=e.cls_name, msg=_msg(e), where=e.where)
            return res
        if not isinstance(program, dict) or "lines" not in program:
            raise AnalysisError(f"AsmTransformer.start did not return a program node for {text!r}")
        program["source_text"] = text + "\n"
        res["program"] = program
        try:
            asm, out = self.assemble_ast(program)
        except Raised as e:
            res.update(status="error", stage="assemble", exc=e.cls_name, msg=_msg(e), where=e.where)
            return res
        res["segments"] = out.segments
        res["symbols"] = asm.attrs.get("symbols")
        res["instrs"] = list((asm.attrs.get("instructions_cache") or {}).values())
        return res

    # -- facts about what the transformer built (used to attribute failures) ----
    def parsed_ops(self, program: dict) -> list:
        out = []
        for line in program.get("lines", []):
            st = line.get("statement") if isinstance(line, dict) else None
            if isinstance(st, dict) and "instruction" in st:
                opts = st["instruction"]["instr_opts"]
                out.append(list(opts.attrs.get("ops") or []))
        return out

    def carried_modes(self, ops: list) -> list[tuple[str, str]]:
        """(addressing mode, container path) of every IMemOperand object reachable from the parsed operands, in operand order."""
        out: list[tuple[str, str]] = []
        seen: set[int] = set()

        def walk(v: Any, path: str) -> None:
            if isinstance(v, Obj):
                if id(v) in seen:
                    return
                seen.add(id(v))
                if v.cls.name == "IMemOperand":
                    m = v.attrs.get("mode")
                    out.append((m.name if isinstance(m, EnumMember) else str(m), path))
                    return
                for k, x in v.attrs.items():
                    if k.startswith("_parent"):
                        continue
                    walk(x, f"{path}{v.cls.name}.{k}/")
            elif isinstance(v, (list, tuple)):
                for x in v:
                    walk(x, path)
        for o in ops:
            walk(o, "")
        return out


class _Tok(str):
    """A lark Token stand-in: a str with a .type"""
    type: str

    def __new__(cls, text: str, type_: str) -> "_Tok":
        o = super().__new__(cls, text)
        o.type = type_
        return o

    _abs_isinstance = {"Token"}


class _Meta:
    def __init__(self, line: int):
        self.line = line


class _TreeStub:
    _abs_isinstance = {"Tree"}

    def __init__(self, data: str, children: list):
        self.data, self.children = data, children


def _instr_alias(tree: Any, lark: Any) -> str | None:
    for t in tree.iter_subtrees_topdown():
        if str(t.data) in ("start", "line", "statement", "instruction"):
            continue
        return str(t.data)
    return None


def _msg(e: Raised) -> str:
    v = e.value
    if isinstance(v, tuple) and v:
        v = v[0]
    return str(v) if v is not None else ""
