"""Bit-provenance abstract domain.

A BitVec is a fixed-width vector whose bits are 0, 1, a named source bit (possibly
negated) or TOP.  Transfer functions exist for the bitwise operators, shifts by
constants, masking and (carry-free) addition.  Anything that would need arithmetic
reasoning yields TOP bits - reported as *unproved*, never as proved.  The lattice has
finite height; there is no solver and no path enumeration besides explicit finite
case splits made by the caller."""
from __future__ import annotations

from typing import Any, Iterable

W = 40  # working width (>= widest register/immediate + shift room)

TOP = ("?",)


def _c(b: Any) -> bool:
    return b == 0 or b == 1


class BitVec:
    __slots__ = ("bits",)

    def __init__(self, bits: Iterable[Any]):
        bl = list(bits)
        if len(bl) < W:
            bl += [0] * (W - len(bl))
        self.bits = tuple(bl[:W])

    # -- constructors ----------------------------------------------------
    @staticmethod
    def const(v: int) -> "BitVec":
        v &= (1 << W) - 1
        return BitVec((v >> i) & 1 for i in range(W))

    @staticmethod
    def sym(name: str, width: int) -> "BitVec":
        return BitVec([(name, i, False) for i in range(width)])

    @staticmethod
    def top(width: int = W) -> "BitVec":
        return BitVec([TOP] * width)

    @staticmethod
    def lift(x: Any) -> "BitVec":
        if isinstance(x, BitVec):
            return x
        if isinstance(x, bool):
            return BitVec.const(int(x))
        if isinstance(x, int):
            return BitVec.const(x)
        v = getattr(x, "value", None)
        if isinstance(v, int):
            return BitVec.const(v)
        raise TypeError(f"cannot lift {type(x).__name__} to BitVec")

    # -- queries ---------------------------------------------------------
    def is_const(self) -> bool:
        return all(_c(b) for b in self.bits)

    def value(self) -> int:
        if not self.is_const():
            raise ValueError("BitVec is not constant")
        return sum(b << i for i, b in enumerate(self.bits))

    def has_top(self, width: int = W) -> bool:
        return any(b == TOP for b in self.bits[:width])

    def slice(self, lo: int, n: int) -> tuple:
        return self.bits[lo:lo + n]

    def __int__(self) -> int:
        return self.value()

    def __index__(self) -> int:
        return self.value()

    def __bool__(self) -> bool:
        if self.is_const():
            return self.value() != 0
        raise ValueError("truth value of a symbolic BitVec")

    def __hash__(self) -> int:
        return hash(self.bits)

    def __eq__(self, o: object) -> bool:  # structural equality (used by the analyses, not by analysed code)
        if isinstance(o, BitVec):
            return self.bits == o.bits
        if isinstance(o, int) and self.is_const():
            return self.value() == o
        return NotImplemented

    def __repr__(self) -> str:
        return "BitVec[" + " ".join(show_bit(b) for b in self.bits[:24]) + "]"

    # -- operators -------------------------------------------------------
    def __and__(self, o: Any) -> "BitVec":
        o = BitVec.lift(o)
        return BitVec(_and(a, b) for a, b in zip(self.bits, o.bits))

    __rand__ = __and__

    def __or__(self, o: Any) -> "BitVec":
        o = BitVec.lift(o)
        return BitVec(_or(a, b) for a, b in zip(self.bits, o.bits))

    __ror__ = __or__

    def __xor__(self, o: Any) -> "BitVec":
        o = BitVec.lift(o)
        return BitVec(_xor(a, b) for a, b in zip(self.bits, o.bits))

    __rxor__ = __xor__

    def __invert__(self) -> "BitVec":
        return BitVec(_not(a) for a in self.bits)

    def __lshift__(self, n: Any) -> "BitVec":
        n = int(BitVec.lift(n).value()) if not isinstance(n, int) else n
        return BitVec(([0] * n + list(self.bits))[:W])

    def __rshift__(self, n: Any) -> "BitVec":
        n = int(BitVec.lift(n).value()) if not isinstance(n, int) else n
        return BitVec(list(self.bits[n:]) + [0] * n)

    def __add__(self, o: Any) -> Any:
        if isinstance(o, Lin):
            return o + self
        o = BitVec.lift(o)
        if self.is_const() and o.is_const():
            return BitVec.const(self.value() + o.value())
        # carry-free when no position can be 1 in both
        if all(a == 0 or b == 0 for a, b in zip(self.bits, o.bits)):
            return self | o
        return Lin.of(self) + Lin.of(o)

    __radd__ = __add__

    def __sub__(self, o: Any) -> Any:
        if isinstance(o, Lin):
            return Lin.of(self) - o
        o = BitVec.lift(o)
        if self.is_const() and o.is_const():
            return BitVec.const(self.value() - o.value())
        return Lin.of(self) - Lin.of(o)

    def __rsub__(self, o: Any) -> Any:
        return Lin.of(o) - Lin.of(self)

    def __neg__(self) -> Any:
        if self.is_const():
            return -self.value()
        return Lin(0, ((-1, self),))

    def __mul__(self, o: Any) -> "BitVec":
        o = BitVec.lift(o)
        if self.is_const() and o.is_const():
            return BitVec.const(self.value() * o.value())
        return BitVec.top()

    __rmul__ = __mul__


def show_bit(b: Any) -> str:
    if _c(b):
        return str(b)
    if b == TOP:
        return "?"
    return ("~" if b[2] else "") + f"{b[0]}.{b[1]}"


def _not(a: Any) -> Any:
    if _c(a):
        return 1 - a
    if a == TOP:
        return TOP
    return (a[0], a[1], not a[2])


def _and(a: Any, b: Any) -> Any:
    if a == 0 or b == 0:
        return 0
    if a == 1:
        return b
    if b == 1:
        return a
    if a == TOP or b == TOP:
        return TOP
    if a == b:
        return a
    if a[:2] == b[:2]:
        return 0  # x & ~x
    return TOP


def _or(a: Any, b: Any) -> Any:
    if a == 1 or b == 1:
        return 1
    if a == 0:
        return b
    if b == 0:
        return a
    if a == TOP or b == TOP:
        return TOP
    if a == b:
        return a
    if a[:2] == b[:2]:
        return 1
    return TOP


def _xor(a: Any, b: Any) -> Any:
    if a == 0:
        return b
    if b == 0:
        return a
    if a == 1:
        return _not(b)
    if b == 1:
        return _not(a)
    if a == TOP or b == TOP:
        return TOP
    if a == b:
        return 0
    if a[:2] == b[:2]:
        return 1
    return TOP


def show(v: BitVec, width: int) -> list[str]:
    return [show_bit(b) for b in v.bits[:width]]


class Lin:
    """Linear expression const + sum(coef * bitvector-as-unsigned-integer): used for addresses such as pc + len - offset."""
    __slots__ = ("c", "terms")

    def __init__(self, c: int, terms: tuple):
        self.c = c
        self.terms = tuple(t for t in terms if t[0] != 0)

    @staticmethod
    def of(x: Any) -> "Lin":
        if isinstance(x, Lin):
            return x
        if isinstance(x, bool):
            return Lin(int(x), ())
        if isinstance(x, int):
            return Lin(x, ())
        if isinstance(x, BitVec):
            if x.is_const():
                return Lin(x.value(), ())
            return Lin(0, ((1, x),))
        v = getattr(x, "value", None)
        if isinstance(v, int):
            return Lin(v, ())
        raise TypeError(f"cannot lift {type(x).__name__} to Lin")

    def _merge(self, o: "Lin", sign: int) -> "Lin":
        acc: dict = {}
        for k, v in self.terms:
            acc[v] = acc.get(v, 0) + k
        for k, v in o.terms:
            acc[v] = acc.get(v, 0) + sign * k
        return Lin(self.c + sign * o.c, tuple((k, v) for v, k in acc.items()))

    def __add__(self, o: Any) -> "Lin":
        return self._merge(Lin.of(o), 1)

    __radd__ = __add__

    def __sub__(self, o: Any) -> "Lin":
        return self._merge(Lin.of(o), -1)

    def __rsub__(self, o: Any) -> "Lin":
        return Lin.of(o)._merge(self, -1)

    def __neg__(self) -> "Lin":
        return Lin(-self.c, tuple((-k, v) for k, v in self.terms))

    def is_const(self) -> bool:
        return not self.terms

    def __eq__(self, o: object) -> bool:
        if isinstance(o, (Lin, int, BitVec)):
            o2 = Lin.of(o)
            return self.c == o2.c and sorted((k, v.bits) for k, v in self.terms) == sorted((k, v.bits) for k, v in o2.terms)
        return NotImplemented

    def __hash__(self) -> int:
        return hash((self.c, tuple(sorted((k, v.bits) for k, v in self.terms))))

    def _bitop(self, o: Any) -> BitVec:
        if self.is_const():
            return BitVec.const(self.c)
        return BitVec.top()

    def __and__(self, o: Any) -> BitVec:
        if self.is_const():
            return BitVec.const(self.c) & o
        return BitVec.top() & o

    __rand__ = __and__

    def __or__(self, o: Any) -> BitVec:
        if self.is_const():
            return BitVec.const(self.c) | o
        return BitVec.top() | o

    __ror__ = __or__

    def __repr__(self) -> str:
        parts = [hex(self.c)] if self.c or not self.terms else []
        for k, v in self.terms:
            nm = v.bits[0][0] if isinstance(v.bits[0], tuple) and len(v.bits[0]) == 3 else "?"
            parts.append(("+" if k > 0 else "-") + (f"{abs(k)}*" if abs(k) != 1 else "") + nm)
        return "Lin(" + " ".join(parts) + ")"
