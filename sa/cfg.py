"""Statement-level control-flow graphs for Python (ast) and Rust (rsfacts JSON),
with guard pseudo-nodes on conditional edges, dominators and reachability.

A *guard* is a triple (atom, polarity, origin): the condition `atom` (an AST of the
source language) evaluated to `polarity` on that edge.  Conjunctions/disjunctions/
negations are decomposed, so `if a && !b { S }` gives S the dominating guards
(a, True), (b, False).  Early returns, `continue`, `break`, `?`, `let .. else`,
`match` arms, `if let`, `while let` are modelled."""
from __future__ import annotations

import ast
from dataclasses import dataclass, field
from typing import Any, Callable, Iterable, Iterator

from .core import AnalysisError


@dataclass
class Node:
    id: int
    kind: str                    # entry | exit | stmt | guard | join | raise
    ast: Any = None              # statement / expression (language specific)
    guard: tuple | None = None   # (atom, polarity, origin) for kind == guard
    line: int = 0
    note: str = ""


class CFG:
    def __init__(self, lang: str, name: str = ""):
        self.lang = lang
        self.name = name
        self.nodes: list[Node] = []
        self.succ: dict[int, list[int]] = {}
        self.pred: dict[int, list[int]] = {}
        self.entry = self.new("entry").id
        self.exit = self.new("exit").id          # normal + early returns
        self.err_exit = self.new("exit", note="raise/err").id  # raise / `?` error / panic
        self._idom: dict[int, int] | None = None
        self._site_index: dict[int, int] = {}
        self.exc_edges: set[tuple[int, int]] = set()   # "may raise into handler" edges (Python try bodies)

    def new(self, kind: str, ast_: Any = None, guard: tuple | None = None, line: int = 0, note: str = "") -> Node:
        n = Node(len(self.nodes), kind, ast_, guard, line, note)
        self.nodes.append(n)
        self.succ[n.id] = []
        self.pred[n.id] = []
        return n

    def edge(self, a: int, b: int) -> None:
        if b not in self.succ[a]:
            self.succ[a].append(b)
            self.pred[b].append(a)
        self._idom = None

    def guarded(self, a: int, atom: Any, polarity: bool, origin: str, line: int = 0) -> int:
        """Create the chain of guard nodes for `atom == polarity` leaving node a;
        returns the last guard node id."""
        cur = a
        for (at, pol) in decompose(self.lang, atom, polarity):
            g = self.new("guard", guard=(at, pol, origin), line=line)
            self.edge(cur, g.id)
            cur = g.id
        if cur == a:  # undecomposable (e.g. `a || b` true): keep whole
            g = self.new("guard", guard=(atom, polarity, origin), line=line)
            self.edge(cur, g.id)
            cur = g.id
        return cur

    # -- analyses --------------------------------------------------------
    def rpo(self) -> list[int]:
        seen, order = set(), []
        stack = [(self.entry, iter(self.succ[self.entry]))]
        seen.add(self.entry)
        while stack:
            n, it = stack[-1]
            for s in it:
                if s not in seen:
                    seen.add(s)
                    stack.append((s, iter(self.succ[s])))
                    break
            else:
                order.append(n)
                stack.pop()
        order.reverse()
        return order

    def idom(self) -> dict[int, int]:
        if self._idom is not None:
            return self._idom
        order = self.rpo()
        idx = {n: i for i, n in enumerate(order)}
        idom: dict[int, int] = {self.entry: self.entry}
        changed = True
        while changed:
            changed = False
            for n in order[1:]:
                preds = [p for p in self.pred[n] if p in idom]
                if not preds:
                    continue
                new = preds[0]
                for p in preds[1:]:
                    a, b = p, new
                    while a != b:
                        while idx[a] > idx[b]:
                            a = idom[a]
                        while idx[b] > idx[a]:
                            b = idom[b]
                    new = a
                if idom.get(n) != new:
                    idom[n] = new
                    changed = True
        self._idom = idom
        return idom

    def dominators(self, n: int) -> list[int]:
        idom = self.idom()
        if n not in idom:
            return []  # unreachable
        out = []
        cur = n
        while True:
            out.append(cur)
            if cur == self.entry:
                break
            cur = idom[cur]
        return out

    def guards_of(self, n: int) -> list[tuple]:
        """Guards (atom, polarity, origin) on edges that dominate node n (outermost first)."""
        return [self.nodes[d].guard for d in reversed(self.dominators(n)) if self.nodes[d].kind == "guard"]

    def reachable_from(self, src: int, avoid: Iterable[int] = (), follow_exc: bool = True) -> set[int]:
        avoid = set(avoid)
        seen = set()
        stack = [src]
        while stack:
            n = stack.pop()
            if n in seen or n in avoid:
                continue
            seen.add(n)
            for s_ in self.succ[n]:
                if not follow_exc and (n, s_) in self.exc_edges:
                    continue
                stack.append(s_)
        return seen

    def is_reachable(self, n: int) -> bool:
        return n in self.idom()

    def stmt_nodes(self) -> Iterator[Node]:
        for n in self.nodes:
            if n.kind == "stmt":
                yield n

    def dominates(self, a: int, b: int) -> bool:
        return a in self.dominators(b)

    def node_of(self, sub: Any) -> int | None:
        """CFG node whose statement contains AST node `sub` (identity)."""
        return self._site_index.get(id(sub))

    def index_sites(self) -> None:
        self._site_index.clear()
        for n in self.nodes:
            if n.kind != "stmt" or n.ast is None:
                continue
            for sub in (_walk_py(n.ast) if self.lang == "py" else _walk_rs(n.ast)):
                self._site_index.setdefault(id(sub), n.id)


def _walk_py(a: Any) -> Iterator[Any]:
    if isinstance(a, ast.AST):
        yield from ast.walk(a)
    elif isinstance(a, list):
        for x in a:
            yield from _walk_py(x)


def _walk_rs(a: Any) -> Iterator[Any]:
    stack = [a]
    while stack:
        n = stack.pop()
        if isinstance(n, dict):
            yield n
            stack.extend(v for v in n.values() if isinstance(v, (dict, list)))
        elif isinstance(n, list):
            stack.extend(v for v in n if isinstance(v, (dict, list)))


# ---------------------------------------------------------------------------
# condition decomposition

def decompose(lang: str, atom: Any, pol: bool) -> list[tuple[Any, bool]]:
    if lang == "py":
        return _dec_py(atom, pol)
    return _dec_rs(atom, pol)


def _dec_py(e: Any, pol: bool) -> list[tuple[Any, bool]]:
    if isinstance(e, ast.UnaryOp) and isinstance(e.op, ast.Not):
        return _dec_py(e.operand, not pol)
    if isinstance(e, ast.BoolOp):
        if (isinstance(e.op, ast.And) and pol) or (isinstance(e.op, ast.Or) and not pol):
            out = []
            for v in e.values:
                out += _dec_py(v, pol)
            return out
        return [(e, pol)]
    if isinstance(e, tuple):
        return [(e, pol)]
    return [(e, pol)]


def _dec_rs(e: Any, pol: bool) -> list[tuple[Any, bool]]:
    if isinstance(e, dict):
        k = e.get("k")
        if k == "paren":
            return _dec_rs(e["e"], pol)
        if k == "unary" and e["op"] == "!":
            return _dec_rs(e["e"], not pol)
        if k == "binary" and ((e["op"] == "&&" and pol) or (e["op"] == "||" and not pol)):
            return _dec_rs(e["l"], pol) + _dec_rs(e["r"], pol)
    return [(e, pol)]


# ---------------------------------------------------------------------------
# Python builder

class _Loop:
    def __init__(self, head: int, after: int):
        self.head = head
        self.after = after


def build_py(fn: ast.FunctionDef | ast.AsyncFunctionDef, name: str = "") -> CFG:
    g = CFG("py", name or fn.name)
    b = _PyBuilder(g)
    end = b.block(fn.body, g.entry, [])
    if end is not None:
        g.edge(end, g.exit)
    g.index_sites()
    return g


class _PyBuilder:
    def __init__(self, g: CFG):
        self.g = g
        self.handlers: list[int] = []   # enclosing try handler-entry nodes

    def stmt_node(self, st: Any, cur: int, note: str = "") -> int:
        n = self.g.new("stmt", st, line=getattr(st, "lineno", 0), note=note)
        self.g.edge(cur, n.id)
        # anything may raise into the innermost handler
        if self.handlers:
            self.g.edge(n.id, self.handlers[-1])
            self.g.exc_edges.add((n.id, self.handlers[-1]))
        return n.id

    def block(self, body: list[ast.stmt], cur: int | None, loops: list[_Loop]) -> int | None:
        for st in body:
            if cur is None:
                # unreachable tail; still build it so sites get nodes (unreachable)
                dead = self.g.new("join", note="unreachable")
                cur = dead.id
            cur = self.stmt(st, cur, loops)
        return cur

    def stmt(self, st: ast.stmt, cur: int, loops: list[_Loop]) -> int | None:
        g = self.g
        if isinstance(st, ast.If):
            c = self.stmt_node(st.test, cur, "if-cond")
            t = g.guarded(c, st.test, True, "if", st.lineno)
            f = g.guarded(c, st.test, False, "if", st.lineno)
            te = self.block(st.body, t, loops)
            fe = self.block(st.orelse, f, loops) if st.orelse else f
            return self.join([te, fe])
        if isinstance(st, (ast.While,)):
            head = g.new("join", note="while-head")
            g.edge(cur, head.id)
            c = self.stmt_node(st.test, head.id, "while-cond")
            t = g.guarded(c, st.test, True, "while", st.lineno)
            f = g.guarded(c, st.test, False, "while", st.lineno)
            after = g.new("join", note="while-after")
            be = self.block(st.body, t, loops + [_Loop(head.id, after.id)])
            if be is not None:
                g.edge(be, head.id)
            fe = self.block(st.orelse, f, loops) if st.orelse else f
            if fe is not None:
                g.edge(fe, after.id)
            return after.id
        if isinstance(st, (ast.For, ast.AsyncFor)):
            it = self.stmt_node(st.iter, cur, "for-iter")
            head = g.new("join", note="for-head")
            g.edge(it, head.id)
            t = g.new("guard", guard=(("for-has-next", st.iter), True, "for"), line=st.lineno)
            f = g.new("guard", guard=(("for-has-next", st.iter), False, "for"), line=st.lineno)
            g.edge(head.id, t.id)
            g.edge(head.id, f.id)
            bind = self.stmt_node(st.target, t.id, "for-bind")
            after = g.new("join", note="for-after")
            be = self.block(st.body, bind, loops + [_Loop(head.id, after.id)])
            if be is not None:
                g.edge(be, head.id)
            fe = self.block(st.orelse, f.id, loops) if st.orelse else f.id
            if fe is not None:
                g.edge(fe, after.id)
            return after.id
        if isinstance(st, ast.Return):
            n = self.stmt_node(st, cur, "return")
            g.edge(n, g.exit)
            return None
        if isinstance(st, ast.Raise):
            n = self.stmt_node(st, cur, "raise")
            g.edge(n, self.handlers[-1] if self.handlers else g.err_exit)
            return None
        if isinstance(st, ast.Break):
            n = self.stmt_node(st, cur, "break")
            if not loops:
                raise AnalysisError("break outside loop")
            g.edge(n, loops[-1].after)
            return None
        if isinstance(st, ast.Continue):
            n = self.stmt_node(st, cur, "continue")
            g.edge(n, loops[-1].head)
            return None
        if isinstance(st, ast.Assert):
            c = self.stmt_node(st, cur, "assert")
            t = g.guarded(c, st.test, True, "assert", st.lineno)
            f = g.guarded(c, st.test, False, "assert", st.lineno)
            g.edge(f, self.handlers[-1] if self.handlers else g.err_exit)
            return t
        if isinstance(st, (ast.With, ast.AsyncWith)):
            n = self.stmt_node([i.context_expr for i in st.items] + [i.optional_vars for i in st.items if i.optional_vars], cur, "with")
            return self.block(st.body, n, loops)
        if isinstance(st, ast.Try) or type(st).__name__ == "TryStar":
            hentry = g.new("join", note="except-entry")
            self.handlers.append(hentry.id)
            be = self.block(st.body, cur, loops)
            self.handlers.pop()
            if st.orelse:
                be = self.block(st.orelse, be, loops) if be is not None else None
            ends = [be]
            for h in st.handlers:
                hg = g.new("guard", guard=(("except", h.type), True, "except"), line=h.lineno)
                g.edge(hentry.id, hg.id)
                ends.append(self.block(h.body, hg.id, loops))
            if not any(h.type is None or (isinstance(h.type, ast.Name) and h.type.id in ("Exception", "BaseException")) for h in st.handlers):
                # uncaught exception types propagate outward
                g.edge(hentry.id, self.handlers[-1] if self.handlers else g.err_exit)
            j = self.join(ends)
            if st.finalbody:
                if j is None:
                    j = g.new("join", note="finally-only").id
                    g.edge(hentry.id, j)
                j = self.block(st.finalbody, j, loops)
            return j
        if isinstance(st, ast.Match):
            subj = self.stmt_node(st.subject, cur, "match-subject")
            ends = []
            for case in st.cases:
                cg = g.new("guard", guard=(("case", st.subject, case.pattern, case.guard), True, "match"), line=case.pattern.lineno)
                g.edge(subj, cg.id)
                ends.append(self.block(case.body, cg.id, loops))
            has_wild = any(isinstance(c.pattern, ast.MatchAs) and c.pattern.pattern is None and c.guard is None for c in st.cases)
            if not has_wild:
                ends.append(subj)
            return self.join(ends)
        if isinstance(st, (ast.FunctionDef, ast.AsyncFunctionDef, ast.ClassDef)):
            return self.stmt_node(ast.Pass(lineno=st.lineno), cur, f"def {st.name}")
        return self.stmt_node(st, cur)

    def join(self, ends: list[int | None]) -> int | None:
        live = [e for e in ends if e is not None]
        if not live:
            return None
        if len(live) == 1:
            return live[0]
        j = self.g.new("join")
        for e in live:
            self.g.edge(e, j.id)
        return j.id


# ---------------------------------------------------------------------------
# Rust builder

_CF_KINDS = {"if", "match", "loop", "while", "for", "return", "break", "continue", "try"}


def rs_has_cf(e: Any) -> bool:
    """Does the expression contain control flow (outside closures / async blocks)?"""
    stack = [e]
    while stack:
        n = stack.pop()
        if isinstance(n, dict):
            k = n.get("k")
            if k in ("closure", "async", "item_stmt"):
                continue
            if k in _CF_KINDS:
                return True
            if k == "macro" and n.get("name") in ("panic", "unreachable", "todo", "unimplemented", "bail"):
                return True
            stack.extend(v for v in n.values() if isinstance(v, (dict, list)))
        elif isinstance(n, list):
            stack.extend(n)
    return False


class _RsLoop:
    def __init__(self, head: int, after: int, label: str | None):
        self.head = head
        self.after = after
        self.label = label


def build_rs(fn_node: dict, name: str = "") -> CFG:
    g = CFG("rs", name or fn_node.get("name", ""))
    b = _RsBuilder(g)
    end = b.block(fn_node["body"], g.entry, [])
    if end is not None:
        g.edge(end, g.exit)
    g.index_sites()
    return g


def build_rs_closure(closure: dict, name: str = "") -> CFG:
    """CFG of a closure body (`return` leaves the closure)."""
    g = CFG("rs", name or f"closure@{closure.get('ln')}")
    b = _RsBuilder(g)
    body = closure["body"]
    if body.get("k") == "block":
        end = b.block(body, g.entry, [])
    else:
        end = b.expr(body, g.entry, []) if rs_has_cf(body) else b.atom(body, g.entry)
    if end is not None:
        g.edge(end, g.exit)
    g.index_sites()
    return g


class _RsBuilder:
    def __init__(self, g: CFG):
        self.g = g

    def atom(self, e: Any, cur: int, note: str = "") -> int:
        n = self.g.new("stmt", e, line=(e.get("ln", 0) if isinstance(e, dict) else 0), note=note)
        self.g.edge(cur, n.id)
        return n.id

    def block(self, blk: dict, cur: int | None, loops: list[_RsLoop]) -> int | None:
        for st in blk["stmts"]:
            if cur is None:
                cur = self.g.new("join", note="unreachable").id
            cur = self.stmt(st, cur, loops)
        return cur

    def stmt(self, st: dict, cur: int, loops: list[_RsLoop]) -> int | None:
        k = st["k"]
        if k == "let":
            init = st.get("init")
            if init is not None and (rs_has_cf(init) or st.get("else") is not None):
                cur2 = self.expr(init, cur, loops)
                if cur2 is None:
                    return None
                if st.get("else") is not None:
                    c = self.atom(st, cur2, "let-else")
                    ok = self.g.guarded(c, ("let-else", st["pat"], init), True, "let-else", st["ln"])
                    bad = self.g.guarded(c, ("let-else", st["pat"], init), False, "let-else", st["ln"])
                    eend = self.expr(st["else"], bad, loops)
                    if eend is not None:
                        # diverging block expected; be conservative
                        self.g.edge(eend, self.g.err_exit)
                    return ok
                return self.atom(st, cur2, "let-bind")
            return self.atom(st, cur)
        if k == "expr_stmt":
            e = st["e"]
            if rs_has_cf(e):
                return self.expr(e, cur, loops, stmt_ctx=st)
            return self.atom(st, cur)
        if k == "item_stmt":
            return cur
        return self.atom(st, cur)

    def expr(self, e: dict, cur: int, loops: list[_RsLoop], stmt_ctx: dict | None = None) -> int | None:
        """Lower an expression containing control flow; returns the node after it
        (None if it diverges)."""
        g = self.g
        k = e.get("k")
        if not rs_has_cf(e):
            return self.atom(stmt_ctx or e, cur)
        if k == "paren":
            return self.expr(e["e"], cur, loops)
        if k == "block":
            return self.block(e, cur, loops)
        if k == "if":
            cond = e["cond"]
            cur = self.cond_prefix(cond, cur, loops)
            if cur is None:
                return None
            c = self.atom(cond, cur, "if-cond")
            t = g.guarded(c, cond, True, "if", e["ln"])
            f = g.guarded(c, cond, False, "if", e["ln"])
            te = self.block(e["then"], t, loops)
            fe = self.expr(e["else"], f, loops) if e.get("else") else f
            return self.join([te, fe])
        if k == "match":
            cur = self.expr(e["e"], cur, loops) if rs_has_cf(e["e"]) else self.atom(e["e"], cur, "match-scrutinee")
            if cur is None:
                return None
            ends = []
            for arm in e["arms"]:
                ag = g.new("guard", guard=(("arm", e["e"], arm["pat"], arm.get("guard")), True, "match"), line=arm["ln"])
                g.edge(cur, ag.id)
                last = ag.id
                if arm.get("guard") is not None:
                    last = g.guarded(ag.id, arm["guard"], True, "match-guard", arm["ln"])
                ends.append(self.expr(arm["body"], last, loops))
            return self.join(ends)
        if k in ("loop", "while", "for"):
            head = g.new("join", note=f"{k}-head")
            g.edge(cur, head.id)
            after = g.new("join", note=f"{k}-after")
            body_entry = head.id
            if k == "while":
                cond = e["cond"]
                c = self.atom(cond, head.id, "while-cond")
                body_entry = g.guarded(c, cond, True, "while", e["ln"])
                f = g.guarded(c, cond, False, "while", e["ln"])
                g.edge(f, after.id)
            elif k == "for":
                it = self.atom(e["iter"], head.id, "for-iter")
                t = g.new("guard", guard=(("for-has-next", e["iter"]), True, "for"), line=e["ln"])
                f = g.new("guard", guard=(("for-has-next", e["iter"]), False, "for"), line=e["ln"])
                g.edge(it, t.id)
                g.edge(it, f.id)
                g.edge(f.id, after.id)
                body_entry = self.atom(e["pat"], t.id, "for-bind")
            be = self.block(e["body"], body_entry, loops + [_RsLoop(head.id, after.id, e.get("label"))])
            if be is not None:
                g.edge(be, head.id)
            if not self.g.pred[after.id]:
                return None if k == "loop" else after.id
            return after.id
        if k == "return":
            if e.get("e") is not None and rs_has_cf(e["e"]):
                cur2 = self.expr(e["e"], cur, loops)
                if cur2 is None:
                    return None
                cur = cur2
            n = self.atom(e, cur, "return")
            g.edge(n, g.exit)
            return None
        if k in ("break", "continue"):
            n = self.atom(e, cur, k)
            tgt = None
            for lp in reversed(loops):
                if e.get("label") is None or lp.label == e.get("label"):
                    tgt = lp
                    break
            if tgt is None:
                # labelled block break etc.: conservative
                g.edge(n, g.exit)
                return None
            g.edge(n, tgt.after if k == "break" else tgt.head)
            return None
        if k == "try":
            cur2 = self.expr(e["e"], cur, loops) if rs_has_cf(e["e"]) else self.atom(e["e"], cur, "try-operand")
            if cur2 is None:
                return None
            ok = g.new("guard", guard=(("try-ok", e["e"]), True, "try"), line=e["ln"])
            bad = g.new("guard", guard=(("try-ok", e["e"]), False, "try"), line=e["ln"])
            g.edge(cur2, ok.id)
            g.edge(cur2, bad.id)
            g.edge(bad.id, g.err_exit)
            return ok.id
        if k == "macro" and e.get("name") in ("panic", "unreachable", "todo", "unimplemented", "bail"):
            n = self.atom(e, cur, "diverge")
            g.edge(n, g.err_exit)
            return None
        # generic: lower children that contain control flow in evaluation order, then the node itself
        for child in self.children(e):
            if rs_has_cf(child):
                cur2 = self.expr(child, cur, loops)
                if cur2 is None:
                    return None
                cur = cur2
        return self.atom(stmt_ctx or e, cur, "after-cf")

    def cond_prefix(self, cond: dict, cur: int, loops: list[_RsLoop]) -> int | None:
        # conditions containing `?`/match are rare; lower them first
        if cond.get("k") == "let_cond":
            inner = cond["e"]
        else:
            inner = cond
        if inner.get("k") in ("try", "match", "if") or any(c.get("k") == "try" for c in _walk_rs(inner) if isinstance(c, dict) and c is not inner):
            # only lower when a `try` is inside the condition
            for c in _walk_rs(inner):
                if isinstance(c, dict) and c.get("k") == "try":
                    return self.expr(c, cur, loops)
        return cur

    def children(self, e: dict) -> list[dict]:
        out = []
        for key in ("recv", "f", "e", "l", "r", "i", "lo", "hi", "len"):
            v = e.get(key)
            if isinstance(v, dict):
                out.append(v)
        for key in ("args", "elems"):
            for v in e.get(key) or []:
                if isinstance(v, dict):
                    out.append(v)
        for f in e.get("fields") or []:
            if isinstance(f, dict) and isinstance(f.get("e"), dict):
                out.append(f["e"])
        if isinstance(e.get("rest"), dict):
            out.append(e["rest"])
        if isinstance(e.get("init"), dict):
            out.append(e["init"])
        return out

    def join(self, ends: list[int | None]) -> int | None:
        live = [x for x in ends if x is not None]
        if not live:
            return None
        if len(live) == 1:
            return live[0]
        j = self.g.new("join")
        for x in live:
            self.g.edge(x, j.id)
        return j.id
