"""C01 - decoding any byte string is total, deterministic and consistent across consumers.

Decides:
  1 SWEEP/EXC-ESCAPE  abstract execution of decode -> analyze / render / encode / lift for every opcode x selector (and prefix classes):
                      the only exceptions that can leave any stage are the ones every consumer handles; whenever analyze accepts,
                      render, the encode round trip and lift accept with the same length; 1 <= length <= bytes supplied; a buffer one byte
                      short is rejected cleanly; the decoder cursor is only advanced or peeked at offset 0
  2 EFFECT            decoding never writes through the shared operand templates (history independence)
  3 EXC-ESCAPE        look-ahead isolation: every exception the instruction iterator can raise while decoding the *next* instruction is
                      handled at the look-ahead pull in fusion(), so the first instruction does not depend on trailing bytes
  4 SIBLING           the three Binary Ninja hooks and the emulator fetch call the same decoder and handle the same exception set
  5 EXHAUSTIVE        both opcode tables have exactly 256 rows (index == opcode on the Rust side)
  6 MEMO              no decode consumer returns a value remembered across calls under a key that omits an input (sa/memo.py)
"""
from __future__ import annotations

import ast
import collections

from .. import cfg as cfgmod
from .. import isa
from ..core import REPO, AnalysisError, Ctx
from ..isa_abs import ASSUMPTIONS
from ..isa_sweep import MAXLEN, sweep
from ..pyfacts import PyProgram, attr_chain, unparse
from ..rsfacts import RustProgram
from ..rules import key_of, py_is_call

LEVEL = "other"
EXPLANATION = (
    "Abstract interpretation sweep (sa/isa_sweep.py): every opcode with a symbolic or exhaustively enumerated selector byte is decoded, "
    "fused with every prefix class, and pushed through analyze/render/encode/lift; exceptions are tracked by class through try/except and the "
    "class hierarchy. Structural EXC-ESCAPE and SIBLING rules cover the generator pipeline (iter_decode/fusion/decode) and the four consumers."
)
TRUSTED = ["CPython ast", "sa/absint.py interpreter semantics", *ASSUMPTIONS]
CLAIM = ("Decides for the complete structural instruction space (data bytes symbolic) which exceptions each consumer stage can raise, that accepting consumers agree on length, "
         "that decoding is bounded by the buffer and does not mutate shared templates, that the first instruction is isolated from failures in the look-ahead, and that all four consumers handle the same failures.")
NOTE = "Addresses are fixed to one concrete value in the sweep (no decode path depends on the address except messages); the emulator's cached decoder is covered by the Decoder summary."
TECHNIQUE = "abstract-interpretation sweep with exception-class tracking + exception-escape and sibling-handler rules on the decode pipeline"

HANDLED = {"AssertionError", "InvalidInstruction"}


def run(ctx: Ctx) -> None:
    py = PyProgram()
    for f in (isa.OPTABLE, isa.OPCODES_PY, isa.INSTR_PY, isa.ARCH_PY, isa.EMU_PY, "sc62015/pysc62015/cached_decoder.py"):
        ctx.file_used(REPO / f)
    for a in ASSUMPTIONS:
        ctx.assume(a)
    tables(ctx, py)
    sweep_rules(ctx, py)
    lookahead(ctx, py)
    consumers(ctx, py)
    cached_decoder(ctx, py)
    address_independence(ctx, py)
    history(ctx, py)


def tables(ctx: Ctx, py: PyProgram) -> None:
    rows = isa.py_rows(py)
    ctx.need(sorted(rows) == list(range(256)), "Python OPCODES keys are not exactly 0..255")
    rs = RustProgram()
    rr = isa.rs_rows(rs)
    bad = [i for i, r in enumerate(rr) if r.opcode != i]
    if len(rr) != 256 or bad:
        ctx.violation("C01.5/table-total", f"{rs.file_for(isa.OPCODES_RS)}::OPCODES", f"Rust OPCODES has {len(rr)} entries, misplaced {bad[:5]}", rs.file_for(isa.OPCODES_RS))
    ctx.instance("C01.5/table-total", "opcode rows: Python keys 0..255, Rust entry i has opcode i", 512, 512)


def sweep_rules(ctx: Ctx, py: PyProgram) -> None:
    mode = "all" if ctx.tier == "thorough" else "reps"
    base, pre, unchanged = sweep(with_prefixes=mode)
    rows = isa.py_rows(py)
    allc = base + pre
    n = 0
    groups: dict[tuple, list] = collections.defaultdict(list)
    for c in allc:
        n += 1
        if c.status.startswith("reject:"):
            cls = c.status.split(":", 1)[1]
            if cls not in HANDLED | {"nofuse", "BufferTooShortErrorError"}:
                groups[("C01.1/unexpected-error", c.opcode, f"decode raises {cls} at {c.exc_where}")].append(c)
            continue
        for stage, val in (("render", c.render_exc), ("analyze", c.analyze_exc), ("lift", c.lift_exc)):
            if val:
                cls = val.split("@")[0]
                if cls not in HANDLED:
                    groups[("C01.1/unexpected-error", c.opcode, f"{stage} raises {val}")].append(c)
        if c.enc_detail.startswith("encode raised"):
            cls = c.enc_detail.split()[2]
            if cls not in HANDLED:
                groups[("C01.1/unexpected-error", c.opcode, c.enc_detail)].append(c)
        # consumer consistency: info accepts => text and IL accept with the same length
        if not c.analyze_exc:
            want = c.n + (1 if c.pre is not None else 0)
            if c.info_len != want or c.length != want:
                groups[("C01.1/length-agree", c.opcode, f"info length {c.info_len}, instruction length {c.length}, bytes consumed {want}")].append(c)
            if c.render_exc:
                groups[("C01.1/consumer-agree", c.opcode, f"info accepts but render raises {c.render_exc}")].append(c)
            if c.lift_exc:
                groups[("C01.1/consumer-agree", c.opcode, f"info accepts but lift raises {c.lift_exc}")].append(c)
            if not c.enc_identity:
                groups[("C01.1/consumer-agree", c.opcode, f"info accepts but the text round trip fails: {c.enc_detail}")].append(c)
        # the text hook turns every rendered element into a Binary Ninja token through the Token interface: anything that is not a
        # token object (a bare string, a number) makes get_instruction_text raise where info and IL accept
        junk = [t for k, t in c.tokens if k == "?"]
        if junk and not c.render_exc:
            groups[("C01.1/consumer-agree", c.opcode, f"render yields non-token elements {junk[:3]}: the text hook fails on them")].append(c)
        if not (1 <= c.n <= MAXLEN - 1):
            groups[("C01.1/length-bound", c.opcode, f"consumed {c.n} bytes")].append(c)
        if c.pre is None and c.n > 1 and c.trunc_exc != "BufferTooShortErrorError":
            groups[("C01.1/truncated", c.opcode, f"buffer one byte short: {c.trunc_exc or 'no exception'}")].append(c)
        if any(p != 0 for p in c.peeks):
            groups[("C01.1/cursor", c.opcode, f"decoder peeks at offsets {c.peeks}")].append(c)
    for (rule, op, what), cs in sorted(groups.items(), key=lambda kv: (kv[0][0], kv[0][1])):
        r = rows[op]
        sels = sorted({c.selector for c in cs if c.selector is not None})
        pres = sorted({c.pre for c in cs if c.pre is not None})
        ctx.violation(rule, key_of(isa.OPCODES_PY, f"opcode 0x{op:02X} {r.cls}", what), f"opcode 0x{op:02X} ({r.name}): {what}; selectors {[hex(s) for s in sels[:6]]} prefixes {[hex(p) for p in pres[:4]]} ({len(cs)} cases)", f"{isa.OPTABLE}:{r.ln}")
    ctx.instance("C01.1/sweep", "cases (opcode x selector, prefix x class) through decode/analyze/render/encode/lift with exception-class tracking", n, 19000 if mode == "reps" else 30000)
    st = collections.Counter(c.status for c in base)
    ctx.extra["decode_outcomes"] = dict(st)
    ctx.sample({"decode_outcomes": dict(st)})
    for c in base:
        if (c.opcode, c.selector) in ((0x56, 0x04), (0x90, 0x24), (0x44, 0x88)):
            ctx.sample({"opcode": hex(c.opcode), "selector": hex(c.selector), "status": c.status, "where": c.exc_where, "n": c.n, "tokens": c.tokens[:8], "info_len": c.info_len})
    if not unchanged:
        ctx.violation("C01.2/template-mutation", key_of(isa.OPCODES_PY, "create_instruction", "shared operand templates"),
                      "decoding/lifting writes through the shared OPCODES operand templates: a later decode sees state left by an earlier one", isa.OPCODES_PY)
    ctx.instance("C01.2/template-effect", "OPCODES template fingerprint unchanged after decode/fuse/render/analyze/lift/encode of 90 cases", 90, 90)


# ---------------------------------------------------------------------------
def _raise_classes(fn: ast.AST) -> set[str]:
    out = set()
    for n in ast.walk(fn):
        if isinstance(n, ast.Raise) and n.exc is not None:
            e = n.exc
            if isinstance(e, ast.Call):
                e = e.func
            nm = attr_chain(e)
            if nm:
                out.add(nm.split(".")[-1])
    return out


def _handler_classes(h: ast.ExceptHandler) -> set[str]:
    if h.type is None:
        return {"BaseException"}
    ts = h.type.elts if isinstance(h.type, ast.Tuple) else [h.type]
    return {(attr_chain(t) or "?").split(".")[-1] for t in ts}


def lookahead(ctx: Ctx, py: PyProgram, rule: str = "C01.3/lookahead-isolation", why: str = "") -> None:
    it = py.func(isa.OPCODES_PY, "iter_decode")
    fu = py.func(isa.OPCODES_PY, "fusion")
    raises = _raise_classes(it)
    # iter_decode's own handlers that swallow (break) are not escapes; explicit raise statements are
    pulls = []
    for t in ast.walk(fu):
        if isinstance(t, ast.Try):
            for st in t.body:
                if any(isinstance(c, ast.Call) and unparse(c.func) == "next" for c in ast.walk(st)):
                    tgt = [unparse(x.targets[0]) for x in ast.walk(st) if isinstance(x, ast.Assign)]
                    pulls.append((t, tgt[0] if tgt else "?"))
    ctx.need(len(pulls) == 2, f"fusion(): expected 2 guarded next() pulls, found {len(pulls)}")
    pulls.sort(key=lambda p_: p_[0].lineno)     # the first pull in program order fetches the instruction itself, the second looks ahead
    first_try = pulls[0][0]
    n = 0
    for t, tgt in pulls:
        handled = set()
        for h in t.handlers:
            handled |= _handler_classes(h)
        first = t is first_try
        n += 1
        if first:
            continue  # a failure of the first instruction is the caller's verdict for that instruction
        missing = sorted(r for r in raises if r not in handled and "BaseException" not in handled and "Exception" not in handled)
        if missing:
            ctx.violation(rule, key_of(isa.OPCODES_PY, "fusion", f"look-ahead next() handles {sorted(handled)}"),
                          f"fusion() pulls the *next* instruction to test for a prefix, but {missing} raised by iter_decode while decoding it escapes: "
                          "a valid first instruction is rejected (hooks) or the emulator fetch raises, depending on the bytes after it (e.g. 00 56 04 00)" + (": " + why if why else ""),
                          f"{isa.OPCODES_PY}:{t.lineno}", raised=sorted(raises), handled=sorted(handled))
    ctx.instance(rule, "guarded next() pulls in fusion() vs the raise set of iter_decode", n, 2)
    ctx.sample({"iter_decode_raises": sorted(raises), "fusion_lookahead_handles": sorted(set().union(*[_handler_classes(h) for t, tgt in pulls if t is not first_try for h in t.handlers]))})


def window_unaltered(ctx: Ctx, py: PyProgram, rule: str = "C01.4/window", hooks: tuple = ("SC62015.get_instruction_info", "SC62015.get_instruction_text", "SC62015.get_instruction_low_level_il")) -> None:
    """The bytes decoded are the bytes supplied: (a) a hook hands its own `data` / `addr` parameters to decode() without rebinding them
    first (a truncated window cuts a prefixed instruction in two; the lone prefix then passes the round-trip guard); (b) decode()
    wraps the buffer it is given in a Decoder as it is - no padding, slicing or concatenation (padding completes a truncated
    instruction, so a length larger than the buffer is reported)."""
    n = 0
    for q in hooks:
        fn = py.func(isa.ARCH_PY, q)
        params = {a.arg for a in fn.args.args if a.arg != "self"}
        calls = [c for c in ast.walk(fn) if isinstance(c, ast.Call) and unparse(c.func) == "decode"]
        if not calls:
            # the hook may reach decode() through a helper of its class: the same obligations hold on both hops
            cls_ = py.need_cls(py.module(isa.ARCH_PY), q.split(".")[0])
            modfns = {f_.name: f_ for f_ in py.module(isa.ARCH_PY).tree.body if isinstance(f_, ast.FunctionDef)}
            cands = [(c, cls_.methods[c.func.attr]) for c in ast.walk(fn) if isinstance(c, ast.Call) and isinstance(c.func, ast.Attribute) and isinstance(c.func.value, ast.Name) and c.func.value.id == "self" and c.func.attr in cls_.methods]
            cands += [(c, modfns[c.func.id]) for c in ast.walk(fn) if isinstance(c, ast.Call) and isinstance(c.func, ast.Name) and c.func.id in modfns]
            for hc, helper in cands:
                if any(isinstance(x, ast.Call) and unparse(x.func) == "decode" for x in ast.walk(helper)):
                    calls.append(hc)
                    hparams = {a_.arg for a_ in helper.args.args if a_.arg != "self"}
                    for x in ast.walk(helper):
                        if isinstance(x, ast.Call) and unparse(x.func) == "decode":
                            for a in x.args[:2]:
                                n += 1
                                if not (isinstance(a, ast.Name) and a.id in hparams) or any(
                                        isinstance(y, (ast.Assign, ast.AugAssign)) and y.lineno <= x.lineno and any(isinstance(t, ast.Name) and t.id == a.id for t in (y.targets if isinstance(y, ast.Assign) else [y.target]))
                                        for y in ast.walk(helper)):
                                    ctx.violation(rule, key_of(isa.ARCH_PY, f"{q.split('.')[0]}.{helper.name}", "decode() is not given the helper's own parameter"),
                                                  f"{helper.name} decodes `{unparse(a)}`, not the bytes/address it was called with", f"{isa.ARCH_PY}:{x.lineno}")
        # every answer other than "not an instruction" comes after the decoder has seen the window (must-pass-through): a return
        # that bypasses decode() (a length table, a first-byte shortcut) accepts what the other consumers reject
        try:
            from .. import cfg as _cfg
            g = _cfg.build_py(fn, q)
            cnodes = [g.node_of(c) for c in calls]
            for r in [r for r in ast.walk(fn) if isinstance(r, ast.Return) and r.value is not None and not (isinstance(r.value, ast.Constant) and r.value.value is None)]:
                rn = g.node_of(r)
                n += 1
                if rn is None or not any(cn is not None and g.dominates(cn, rn) for cn in cnodes):
                    ctx.violation(rule.split("/")[0] + "/decode-first", key_of(isa.ARCH_PY, q, "an answer is returned without decoding the window"),
                                  f"{q} returns `{unparse(r.value)[:60]}` on a path that never called decode(): this hook accepts byte strings (with a length) that the decoder, and so the other consumers, may reject", f"{isa.ARCH_PY}:{r.lineno}")
        except AnalysisError:
            raise
        for c in calls:
            for a in c.args[:2]:
                n += 1
                if not (isinstance(a, ast.Name) and a.id in params):
                    ctx.violation(rule, key_of(isa.ARCH_PY, q, "decode() is not given the hook's own parameter"), f"{q} decodes `{unparse(a)}`, not the bytes/address it was called with", f"{isa.ARCH_PY}:{c.lineno}")
                    continue
                rebinds = [x for x in ast.walk(fn) if isinstance(x, (ast.Assign, ast.AugAssign, ast.AnnAssign)) and x.lineno <= c.lineno
                           and any(isinstance(t, ast.Name) and t.id == a.id for t in (x.targets if isinstance(x, ast.Assign) else [x.target]))]
                if rebinds:
                    ctx.violation(rule, key_of(isa.ARCH_PY, q, f"`{a.id}` rebound before decode()"),
                                  f"{q} rebinds `{a.id}` with `{unparse(rebinds[0])[:70]}` before decoding: the decoder no longer sees the window the caller supplied, so this hook and the other consumers "
                                  "can disagree on whether, and how long, the instruction is", f"{isa.ARCH_PY}:{rebinds[0].lineno}")
    dfn = py.func(isa.OPCODES_PY, "decode")
    dparams = [a.arg for a in dfn.args.args]
    for c in ast.walk(dfn):
        if isinstance(c, ast.Call) and unparse(c.func) == "Decoder" and c.args:
            n += 1
            t = unparse(c.args[0]).replace(" ", "")
            if t not in (dparams[0], f"bytearray({dparams[0]})", f"bytes({dparams[0]})"):
                ctx.violation(rule, key_of(isa.OPCODES_PY, "decode", "buffer altered before decoding"),
                              f"decode() wraps `{unparse(c.args[0])[:80]}` instead of the buffer it was given: bytes that were not supplied take part in decoding, so a truncated instruction is accepted with a "
                              "length larger than the buffer", f"{isa.OPCODES_PY}:{c.lineno}")
    ctx.instance(rule, "decode() arguments of the hooks are their own unrebound parameters; decode() wraps the supplied buffer unaltered", n, 1)


def consumers(ctx: Ctx, py: PyProgram) -> None:
    window_unaltered(ctx, py)
    from .c05 import fetch_decoder_fresh
    fetch_decoder_fresh(ctx, py, "C01.2/fetch-window-fresh")
    hooks = ["SC62015.get_instruction_info", "SC62015.get_instruction_text", "SC62015.get_instruction_low_level_il"]
    sets = {}
    n = 0
    amod = py.module(isa.ARCH_PY)
    modfns = {f_.name: f_ for f_ in amod.tree.body if isinstance(f_, ast.FunctionDef)}
    for q in hooks:
        fn = py.func(isa.ARCH_PY, q)
        calls = [c for c in ast.walk(fn) if isinstance(c, ast.Call) and unparse(c.func) == "decode"]
        n += 1
        def _args_ok(c: ast.Call) -> bool:
            pos = [unparse(a) for a in c.args] + [unparse(k.value) for k in c.keywords]
            return pos == ["data", "addr", "OPCODES"] or pos == ["data", "addr"]
        if not calls:
            # a wrapper (method or module function) that itself calls decode(<its params>, OPCODES) stands for the call
            cls_ = py.need_cls(amod, q.split(".")[0])
            for c in ast.walk(fn):
                h = None
                if isinstance(c, ast.Call) and isinstance(c.func, ast.Attribute) and isinstance(c.func.value, ast.Name) and c.func.value.id == "self":
                    h = cls_.methods.get(c.func.attr)
                elif isinstance(c, ast.Call) and isinstance(c.func, ast.Name):
                    h = modfns.get(c.func.id)
                if h is not None and any(isinstance(x, ast.Call) and unparse(x.func) == "decode" and [unparse(k_) for k_ in x.args[2:]] + [unparse(k_.value) for k_ in x.keywords] == ["OPCODES"] for x in ast.walk(h)):
                    calls.append(c)
        if len(calls) != 1 or not _args_ok(calls[0]):
            ctx.violation("C01.4/same-decoder", key_of(isa.ARCH_PY, q, "decode call"), f"{q} does not call decode(data, addr, OPCODES)", f"{isa.ARCH_PY}:{fn.lineno}")
        tries = [t for t in ast.walk(fn) if isinstance(t, ast.Try) and any(c in list(ast.walk(t)) for c in calls)]
        swallow = set()
        for t in tries:
            for h in t.handlers:
                # a handler that returns None (marks as data)
                if any(isinstance(s, ast.Return) and (s.value is None or (isinstance(s.value, ast.Constant) and s.value.value is None)) for s in h.body):
                    swallow |= _handler_classes(h)
        sets[q] = swallow
    vals = list(sets.values())
    n += 1
    if not all(v == vals[0] for v in vals) or not HANDLED <= vals[0]:
        ctx.violation("C01.4/handler-agree", key_of(isa.ARCH_PY, "SC62015", "hook handlers"), f"Binary Ninja hooks handle different exception sets: { {k: sorted(v) for k, v in sets.items()} }", isa.ARCH_PY)
    # emulator fetch
    fn = py.func(isa.EMU_PY, "Emulator.decode_instruction")
    calls = [c for c in ast.walk(fn) if isinstance(c, ast.Call) and unparse(c.func) == "decode"]
    ctx.need(len(calls) == 1, "Emulator.decode_instruction: decode() call not found")
    n += 1
    if ([unparse(a) for a in calls[0].args] + [unparse(k.value) for k in calls[0].keywords])[1:] != ["address", "OPCODES"]:
        ctx.violation("C01.4/same-decoder", key_of(isa.EMU_PY, "Emulator.decode_instruction", "decode call"), "the emulator does not decode with the shared OPCODES table", f"{isa.EMU_PY}:{fn.lineno}")
    handled = set()
    for t in ast.walk(fn):
        if isinstance(t, ast.Try) and any(c in list(ast.walk(s)) for s in t.body for c in calls):
            for h in t.handlers:
                handled |= _handler_classes(h)
    n += 1
    missing = sorted(x for x in vals[0] if x not in handled and "Exception" not in handled and "BaseException" not in handled)
    if missing:
        ctx.violation("C01.4/handler-agree", key_of(isa.EMU_PY, "Emulator.decode_instruction", f"decode() handlers {sorted(handled)}"),
                      f"the emulator fetch lets {missing} from decode() escape, while the Binary Ninja hooks turn them into 'not an instruction' "
                      "(e.g. bytes 56 04 00: hooks return None, Emulator.decode_instruction raises AssertionError)", f"{isa.EMU_PY}:{fn.lineno}")
    # what decode() accepted is what the emulator executes: the local bound from decode() is replaced (by the fallback, by None ..)
    # only in the handlers above or under a test that it is None.  Anything else makes the emulator reject, or re-interpret, byte
    # strings the hooks accept.
    holders = {t.id for a in ast.walk(fn) if isinstance(a, ast.Assign) and any(c in list(ast.walk(a.value)) for c in calls) for t in a.targets if isinstance(t, ast.Name)}
    ctx.need(holders, "Emulator.decode_instruction: decode() result is not bound to a local")
    parent = {}
    for p_ in ast.walk(fn):
        for ch in ast.iter_child_nodes(p_):
            parent[id(ch)] = p_
    for a in ast.walk(fn):
        if not (isinstance(a, ast.Assign) and any(isinstance(t, ast.Name) and t.id in holders for t in a.targets)) or any(c in list(ast.walk(a.value)) for c in calls):
            continue
        n += 1
        nm = next(t.id for t in a.targets if isinstance(t, ast.Name) and t.id in holders)
        ok = False
        anc, child = parent.get(id(a)), a
        while anc is not None and anc is not fn:
            if isinstance(anc, ast.ExceptHandler):
                ok = True
            if isinstance(anc, ast.If) and child in anc.body and unparse(anc.test).replace(" ", "") in (f"{nm}isNone", f"not{nm}"):
                ok = True
            anc, child = parent.get(id(anc)), anc
        if not ok:
            ctx.violation("C01.4/decoded-kept", key_of(isa.EMU_PY, "Emulator.decode_instruction", "decoded instruction replaced"),
                          f"the emulator replaces the instruction decode() returned (`{unparse(a)[:70]}`) outside the failure handlers: for those byte strings the emulator's fetch "
                          "answers differently (other mnemonic, other length) from the Binary Ninja hooks", f"{isa.EMU_PY}:{a.lineno}")
    # the window the emulator decodes is the bytes at address, address+1, ...: the fetch closure reads memory at `address + offset`,
    # unmasked (the Binary Ninja hooks are handed consecutive bytes; a fetch that wraps or masks decodes other bytes near a boundary)
    from .. import linform
    inner = [f_ for f_ in ast.walk(fn) if isinstance(f_, ast.FunctionDef) and f_ is not fn and any(isinstance(c, ast.Call) and isinstance(c.func, ast.Attribute) and c.func.attr == "read_byte" for c in ast.walk(f_))]
    ctx.need(len(inner) >= 1, "Emulator.decode_instruction: fetch closure not found")
    for f_ in inner:
        off = [a.arg for a in f_.args.args]
        ctx.need(len(off) == 1, "fetch closure takes one offset")
        binds: dict[str, list] = {}
        for a in ast.walk(f_):
            if isinstance(a, ast.Assign):
                for t in a.targets:
                    if isinstance(t, ast.Name):
                        binds.setdefault(t.id, []).append(a.value)
            if isinstance(a, ast.AugAssign) and isinstance(a.target, ast.Name):
                binds.setdefault(a.target.id, []).append(a)
        for c in ast.walk(f_):
            if isinstance(c, ast.Call) and isinstance(c.func, ast.Attribute) and c.func.attr in ("read_byte",) or (isinstance(c, ast.Call) and isinstance(c.func, ast.Name) and c.func.id == "read_fn"):
                if not c.args:
                    continue
                n += 1
                a0 = c.args[0]
                ok = False
                if isinstance(a0, ast.Name) and len(binds.get(a0.id, [])) == 1 and isinstance(binds[a0.id][0], ast.AST) and not isinstance(binds[a0.id][0], ast.AugAssign):
                    a0 = binds[a0.id][0]
                try:
                    forms = linform.alternatives(a0, {})
                    outer = [a_.arg for a_ in fn.args.args if a_.arg != "self"][0]
                    ok = forms == {(0, frozenset({(outer, 1), (off[0], 1)}))}
                except linform.NotLinear:
                    ok = False
                if not ok:
                    ctx.violation("C01.4/fetch-window", key_of(isa.EMU_PY, "Emulator.decode_instruction", "fetch address is not address + offset"),
                                  f"the emulator fetch reads memory at `{unparse(c.args[0])}` (bound by {[unparse(b)[:50] for b in binds.get(unparse(c.args[0]), [])]}), not at address + offset: near a boundary the emulator decodes "
                                  "different bytes than the ones the Binary Ninja hooks are given, so the four consumers disagree on length and mnemonic", f"{isa.EMU_PY}:{c.lineno}")
    # fallback when decode returns None
    n += 1
    holders = {t.id for a in ast.walk(fn) if isinstance(a, ast.Assign) and any(c is calls[0] for c in ast.walk(a.value)) for t in a.targets if isinstance(t, ast.Name)}

    def _none_test(t: ast.expr) -> bool:
        return (isinstance(t, ast.Compare) and len(t.ops) == 1 and isinstance(t.ops[0], ast.Is) and isinstance(t.left, ast.Name) and t.left.id in holders
                and isinstance(t.comparators[0], ast.Constant) and t.comparators[0].value is None) or (isinstance(t, ast.UnaryOp) and isinstance(t.op, ast.Not) and isinstance(t.operand, ast.Name) and t.operand.id in holders)
    if not any(isinstance(i, ast.If) and _none_test(i.test) and any("_FallbackInstruction" in unparse(s) for s in i.body) for i in ast.walk(fn)):
        ctx.violation("C01.4/fallback", key_of(isa.EMU_PY, "Emulator.decode_instruction", "fallback"), "no placeholder instruction when decode returns None", f"{isa.EMU_PY}:{fn.lineno}")
    ctx.instance("C01.4/consumers", "3 hooks + emulator fetch: same decoder call, same handled exception set, fallback present", n, 7)
    ctx.sample({"hook_handlers": {k: sorted(v) for k, v in sets.items()}, "emulator_handlers": sorted(handled)})


def history(ctx: Ctx, py: PyProgram) -> None:
    """No consumer remembers results across calls under a key that omits an input (sa/memo.py)."""
    from ..memo import memo_findings
    scope = [(isa.ARCH_PY, "SC62015.get_instruction_info", ("data", "addr"), False), (isa.ARCH_PY, "SC62015.get_instruction_text", ("data", "addr"), False),
             (isa.ARCH_PY, "SC62015.get_instruction_low_level_il", ("data", "addr"), False), (isa.EMU_PY, "Emulator.decode_instruction", ("address",), True),
             (isa.OPCODES_PY, "decode", ("decoder", "addr", "opcodes"), False), (isa.OPCODES_PY, "create_instruction", ("decoder", "opcodes"), False),
             (isa.OPCODES_PY, "iter_decode", ("decoder", "addr", "opcodes"), False), (isa.OPCODES_PY, "fusion", ("instr_iter",), False)]
    n = 0
    for rel, q, inputs, memdep in scope:
        fn = py.func(rel, q)
        n += 1
        for ln, what in memo_findings(py.module(rel), fn, inputs, memdep):
            ctx.violation("C01.2/memo", key_of(rel, q, "result remembered across calls"), what + " - decoding must not depend on what was decoded before", f"{rel}:{ln}")
    ctx.instance("C01.2/memo", "decode consumers free of memos keyed by less than their inputs", n, 8)


def address_independence(ctx: Ctx, py: PyProgram, rule: str = "C01.5/address-independence") -> None:
    """Whether bytes are accepted, and with what length, may not depend on the address they are decoded at: no method of the ISA
    layer that receives `addr` (lift / analyze / render / encode helpers) tests a value derived from it in an assert, an `if` or a
    loop condition.  (`x is None` tests are not value tests.)  The sweep runs at two concrete addresses; this rule covers the rest."""
    n = 0
    for rel in (isa.INSTR_PY, isa.OPCODES_PY):
        mod = py.module(rel)
        for fn in [x for x in ast.walk(mod.tree) if isinstance(x, (ast.FunctionDef, ast.AsyncFunctionDef))]:
            if "addr" not in [a.arg for a in fn.args.args]:
                continue
            n += 1
            tainted = {"addr"}
            changed = True
            while changed:
                changed = False
                for a in ast.walk(fn):
                    if isinstance(a, (ast.Assign, ast.AnnAssign, ast.AugAssign)) and a.value is not None and any(isinstance(x, ast.Name) and x.id in tainted for x in ast.walk(a.value)):
                        ts = a.targets if isinstance(a, ast.Assign) else [a.target]
                        for t in ts:
                            if isinstance(t, ast.Name) and t.id not in tainted:
                                tainted.add(t.id)
                                changed = True
            for nd in ast.walk(fn):
                test = nd.test if isinstance(nd, (ast.If, ast.While, ast.Assert, ast.IfExp)) else None
                if test is None:
                    continue
                for cmp_ in [test] + [x for x in ast.walk(test) if isinstance(x, (ast.Compare, ast.BoolOp, ast.UnaryOp))]:
                    pass
                uses = [x for x in ast.walk(test) if isinstance(x, ast.Name) and x.id in tainted]
                if not uses:
                    continue
                none_only = all(isinstance(c, ast.Compare) and all(isinstance(o, (ast.Is, ast.IsNot)) for o in c.ops) for c in ast.walk(test) if isinstance(c, ast.Compare)) and any(isinstance(c, ast.Compare) for c in ast.walk(test))
                if none_only:
                    continue
                ctx.violation(rule, key_of(rel, fn.name, "test on a value derived from the address"),
                              f"{fn.name} tests `{unparse(test)[:80]}`, which depends on the address the instruction is decoded at: the same bytes are accepted at one address and rejected (or treated differently) at another, and only by the consumers that call this method", f"{rel}:{nd.lineno}")
    ctx.instance(rule, "ISA-layer methods receiving `addr`: no assert/if/loop condition on a value derived from it", n, 40)


def cached_decoder(ctx: Ctx, py: PyProgram) -> None:
    """The repository's own Decoder subclass must obey the trusted summary: unsigned_byte advances by 1, peek does not advance,
    reads past the address space raise BufferTooShort, and a fresh instance is made per fetch."""
    rel = "sc62015/pysc62015/cached_decoder.py"
    cls = py.need_cls(py.module(rel), "CachedFetchDecoder")
    n = 0
    ub = cls.methods.get("unsigned_byte")
    pk = cls.methods.get("peek")
    rb = cls.methods.get("_read_byte")
    un = cls.methods.get("_unpack")
    ctx.need(all(x is not None for x in (ub, pk, rb, un)), "CachedFetchDecoder methods vanished")
    incs = [unparse(a) for a in ast.walk(ub) if isinstance(a, ast.AugAssign) and attr_chain(a.target) == "self.pos"]
    n += 1
    if incs != ["self.pos += 1"]:
        ctx.violation("C01.1/decoder-summary", key_of(rel, "CachedFetchDecoder.unsigned_byte", "advance"), f"unsigned_byte advances the cursor as {incs}", rel)
    n += 1
    if any(isinstance(a, (ast.AugAssign, ast.Assign)) and "self.pos" in unparse(a).split("=")[0] for a in ast.walk(pk)):
        ctx.violation("C01.1/decoder-summary", key_of(rel, "CachedFetchDecoder.peek", "advance"), "peek() moves the cursor", rel)
    n += 1
    g = cfgmod.build_py(rb, "_read_byte")
    reads = [c for c in ast.walk(rb) if py_is_call(c, "self.read_mem")]
    ok = bool(reads) and all(any(isinstance(a, ast.Compare) and "address_space_size" in unparse(a) and not pol for a, pol, _o in g.guards_of(g.node_of(c))) for c in reads)
    if not ok:
        ctx.violation("C01.1/decoder-summary", key_of(rel, "CachedFetchDecoder._read_byte", "bound"), "memory is read without the address-space bound test", rel)
    n += 1
    upd = [unparse(a) for a in ast.walk(un) if isinstance(a, ast.AugAssign) and attr_chain(a.target) == "self.pos"]
    if upd != ["self.pos += size"]:
        ctx.violation("C01.1/decoder-summary", key_of(rel, "CachedFetchDecoder._unpack", "advance"), f"_unpack advances the cursor as {upd}", rel)
    # fresh decoder per fetch
    fn = py.func(isa.EMU_PY, "Emulator.decode_instruction")
    n += 1
    made = [c for c in ast.walk(fn) if isinstance(c, ast.Call) and unparse(c.func) in ("CachedFetchDecoder", "FetchDecoder")]
    if len(made) != 2:
        ctx.violation("C01.2/fresh-decoder", key_of(isa.EMU_PY, "Emulator.decode_instruction", "decoder instance"), "the fetch decoder is not created per decode_instruction call", isa.EMU_PY)
    ctx.instance("C01.1/decoder-summary", "CachedFetchDecoder obeys the Decoder summary; a fresh decoder per fetch", n, 5)
