"""C02 - encoding is the exact inverse of decoding on every accepted instruction.

Decides by bit-provenance abstract interpretation of the repository's own decode/encode/fuse code:
  1 CODEC   for every opcode x (symbolic | each of the 256 selector-byte values) and every prefix x outcome-class representative:
            the bytes emitted by Instruction.encode have the same count as the bytes consumed by decode and every emitted bit is
            the very input bit at that position (so ignored bits survive, prefix byte included, length = 1 + n when fused)
  2 GUARD   the text callback returns text only after the `encoded != recoded` comparison
  3 CLASS   the prefix-rewriting encode override of exchange instructions cannot fire on decoded operands
  4 EFFECT  decoded instructions share no operand state (template fingerprint; copy.copy is modelled as shallow)
The selector byte is enumerated, every other operand byte is symbolic: each case covers all values of those bytes.
"""
from __future__ import annotations

import ast
import collections

from .. import cfg as cfgmod
from .. import isa
from ..core import REPO, AnalysisError, Ctx
from ..isa_abs import ASSUMPTIONS
from ..isa_sweep import sweep
from ..pyfacts import PyProgram, unparse
from ..rules import key_of, py_guard_text

LEVEL = "other"
EXPLANATION = (
    "Abstract interpretation of Instruction.decode / PRE.fuse / Instruction.encode (and every operand class reached through the MRO) over "
    "bit-provenance vectors: operand bytes are symbolic except the selector byte, which is enumerated completely; the encoder's output is "
    "compared bit for bit with the decoder's input. Exhaustive over opcode x selector and prefix x outcome class; each case stands for all "
    "values of the remaining bytes. The round-trip guard of the text callback is checked on its CFG."
)
TRUSTED = ["CPython ast", "sa/absint.py interpreter semantics for the Python subset used by instr/*.py", *ASSUMPTIONS]
CLAIM = ("Decides for every accepted encoding (structure enumerated, data bits symbolic) that re-encoding reproduces the consumed bytes bit for bit including prefix and ignored bits, "
         "and that the disassembler's guard compares before it returns text.")
NOTE = "Assumes the Decoder/Encoder summary; equality of text/IL after re-decoding follows from determinism of decode on identical bytes (C01)."
TECHNIQUE = "bit-provenance abstract interpretation of decode/fuse/encode, exhaustive over opcode x selector x prefix classes"


def run(ctx: Ctx) -> None:
    py = PyProgram()
    for f in (isa.OPTABLE, isa.OPCODES_PY, isa.INSTR_PY, isa.ARCH_PY):
        ctx.file_used(REPO / f)
    for a in ASSUMPTIONS:
        ctx.assume(a)
    mode = "all" if ctx.tier == "thorough" else "reps"
    base, pre, unchanged = sweep(stages=("encode",), with_prefixes=mode)
    if not unchanged:
        ctx.violation("C02.3/template-isolation", key_of(isa.OPCODES_PY, "create_instruction", "shared operand templates"),
                      "decoding writes through the shared OPCODES operand templates (operands are not deep-copied): the look-ahead decode of the next instruction "
                      "overwrites operands of the one being returned, so encode(decode(window)) != its own bytes", isa.OPCODES_PY)
    ctx.instance("C02.3/template-isolation", "OPCODES template fingerprint unchanged after decoding 90 cases (no state shared between decoded instructions)", 90, 90)
    # encode(decode(b), addr) is evaluated at the sweep's addresses; that it cannot differ (or refuse) elsewhere is the address rule
    from .c01 import address_independence
    address_independence(ctx, py, rule="C02.4/address-independence")
    rows = isa.py_rows(py)
    accepted = [c for c in base if c.status == "ok"]
    ctx.need(len({c.opcode for c in base}) == 256, "sweep did not cover 256 opcodes")
    n_ok = 0
    grouped: dict[tuple, list] = collections.defaultdict(list)
    for c in accepted + [c for c in pre if c.status == "ok"]:
        n_ok += 1
        if not c.enc_identity or c.enc_overflow:
            grouped[(c.opcode, c.pre is not None, c.enc_detail or ";".join(c.enc_overflow))].append(c)
    for (op, has_pre, detail), cs in sorted(grouped.items(), key=lambda kv: kv[0][:2]):
        r = rows[op]
        sels = sorted({c.selector for c in cs if c.selector is not None})
        ctx.violation("C02.1/codec", key_of(isa.OPCODES_PY, f"opcode 0x{op:02X} {r.cls}{' +PRE' if has_pre else ''}", detail),
                      f"opcode 0x{op:02X} ({r.name}{', prefixed' if has_pre else ''}): encode(decode(b)) != b - {detail}; selector bytes {[hex(s) for s in sels[:8]]}{'...' if len(sels) > 8 else ''} ({len(cs)} cases)",
                      f"{isa.OPTABLE}:{r.ln}", cases=len(cs))
    ctx.instance("C02.1/codec-base", "accepted (opcode, selector) cases: emitted bytes == consumed bytes bit for bit", len(accepted), 2900)
    ctx.instance("C02.1/codec-prefixed", "accepted (prefix, opcode, selector-class) cases: prefix byte + instruction bytes reproduced, length = 1 + n", len([c for c in pre if c.status == "ok"]), 4000)
    bad_len = [c for c in pre if c.status == "ok" and c.length != c.n + 1]
    for c in bad_len[:10]:
        ctx.violation("C02.1/fused-length", key_of(isa.INSTR_PY, "PRE.fuse", f"opcode 0x{c.opcode:02X}"), f"fused length {c.length} != 1 + {c.n} for prefix 0x{c.pre:02X} opcode 0x{c.opcode:02X}", isa.INSTR_PY)
    nofuse = [c for c in pre if c.status == "reject:nofuse" and rows[c.opcode].cls != "PRE"]
    for c in nofuse[:10]:
        ctx.violation("C02.1/fuse", key_of(isa.INSTR_PY, "PRE.fuse", f"nofuse 0x{c.opcode:02X}"), f"prefix 0x{c.pre:02X} does not fuse with opcode 0x{c.opcode:02X}", isa.INSTR_PY)
    # samples
    for c in accepted:
        if (c.opcode, c.selector) in ((0x0C, None), (0x11, 0x9D), (0x44, 0x77), (0xF0, 0x80)):
            ctx.sample({"opcode": hex(c.opcode), "selector": None if c.selector is None else hex(c.selector), "consumed": c.n, "emitted": c.enc_len, "bit_identity": c.enc_identity, "operands": c.operands})
    for c in pre:
        if c.status == "ok" and (c.pre, c.opcode) == (0x25, 0xC8):
            ctx.sample({"prefix": hex(c.pre), "opcode": hex(c.opcode), "length": c.length, "emitted": c.enc_len, "bit_identity": c.enc_identity})
    # exchange override infeasible on decoded operands
    ex_rows = {k for k, r in rows.items() if py.need_cls(py.module(isa.OPTABLE), r.cls).is_subclass_of("ExchangeInstruction")}
    n = 0
    for c in accepted + [c for c in pre if c.status == "ok"]:
        if c.opcode in ex_rows:
            n += 1
            if "IMemOperand" in c.operands:
                ctx.violation("C02.3/exchange-override", key_of(isa.INSTR_PY, "ExchangeInstruction.encode", f"opcode 0x{c.opcode:02X}"),
                              "a decoded exchange instruction has assembler-side IMemOperand operands: its encode() would recompute the prefix", isa.INSTR_PY)
    ctx.instance("C02.3/exchange-override", "decoded exchange instructions never carry IMemOperand operands", n, 30)
    guard(ctx, py)
    fusion_shape(ctx, py)
    from .c01 import window_unaltered
    window_unaltered(ctx, py, rule="C02.2/window", hooks=("SC62015.get_instruction_text",))
    ctx.extra["exhaustive"] = True
    ctx.extra["rejected_cases"] = dict(collections.Counter(c.status for c in base if c.status != "ok"))


def guard(ctx: Ctx, py: PyProgram) -> None:
    """get_instruction_text returns text only on a path where (data[:decoded.length()]) == encode(decoded, addr) was established, with
    `decoded` the result of this call's decode(data, addr, ...).  Locals are identified by their definitions, not by their names."""
    fn = py.func(isa.ARCH_PY, "SC62015.get_instruction_text")
    g = cfgmod.build_py(fn, "get_instruction_text")
    rets = [r for r in ast.walk(fn) if isinstance(r, ast.Return) and r.value is not None and not (isinstance(r.value, ast.Constant) and r.value.value is None)]
    ctx.need(len(rets) == 1, "get_instruction_text: expected exactly one non-None return")
    from ..rules import py_defs
    d = py_defs(fn)
    # the local holding the decoded instruction: bound (walrus or assignment) from a call of decode / a self.<helper>
    dec_names = set()
    for n_ in ast.walk(fn):
        v = t = None
        if isinstance(n_, ast.NamedExpr) and isinstance(n_.target, ast.Name):
            t, v = n_.target.id, n_.value
        elif isinstance(n_, ast.Assign) and len(n_.targets) == 1 and isinstance(n_.targets[0], ast.Name):
            t, v = n_.targets[0].id, n_.value
        if t and isinstance(v, ast.Call) and ((isinstance(v.func, ast.Name) and v.func.id == "decode") or (isinstance(v.func, ast.Attribute) and unparse(v.func.value) == "self")):
            dec_names.add(t)
    ctx.need(len(dec_names) == 1, f"get_instruction_text: decoded-instruction local not identified ({sorted(dec_names)})")
    dec = next(iter(dec_names))

    def res(e: ast.AST, depth: int = 0) -> ast.AST:
        while isinstance(e, ast.Name) and e.id in d and len(d[e.id]) == 1 and isinstance(d[e.id][0], ast.AST) and depth < 4 and e.id not in (dec, "data", "addr"):
            e = d[e.id][0]
            depth += 1
        return e

    def is_len(e: ast.AST) -> bool:
        e = res(e)
        return isinstance(e, ast.Call) and isinstance(e.func, ast.Attribute) and e.func.attr == "length" and unparse(e.func.value) == dec and not e.args

    def strip(e: ast.AST) -> ast.AST:
        e = res(e)
        if isinstance(e, ast.Call) and isinstance(e.func, ast.Name) and e.func.id in ("bytes", "bytearray") and len(e.args) == 1:
            e = res(e.args[0])
        return e

    def enc_ok(e: ast.AST) -> bool:
        e = strip(e)
        return (isinstance(e, ast.Subscript) and unparse(e.value) == "data" and isinstance(e.slice, ast.Slice) and e.slice.step is None
                and (e.slice.lower is None or (isinstance(e.slice.lower, ast.Constant) and e.slice.lower.value == 0)) and e.slice.upper is not None and is_len(e.slice.upper))

    def rec_ok(e: ast.AST) -> bool:
        e = strip(e)
        return isinstance(e, ast.Call) and isinstance(e.func, ast.Name) and e.func.id == "encode" and [unparse(a) for a in e.args] == [dec, "addr"]
    gs = g.guards_of(g.node_of(rets[0]))
    texts = [py_guard_text(x) for x in gs]
    ok = False
    seen_cmp = []
    for a, pol, _o in gs:
        if isinstance(a, ast.Compare) and len(a.ops) == 1 and isinstance(a.ops[0], (ast.Eq, ast.NotEq)):
            l, r = a.left, a.comparators[0]
            seen_cmp.append(unparse(a))
            right_pol = (isinstance(a.ops[0], ast.NotEq) and not pol) or (isinstance(a.ops[0], ast.Eq) and pol)
            if right_pol and ((enc_ok(l) and rec_ok(r)) or (enc_ok(r) and rec_ok(l))):
                ok = True
    if not ok:
        ctx.violation("C02.2/roundtrip-guard", key_of(isa.ARCH_PY, "SC62015.get_instruction_text", "return text"),
                      f"text is returned on a path that did not establish data[:decoded.length()] == encode(decoded, addr) (comparisons on the path: {seen_cmp})", f"{isa.ARCH_PY}:{rets[0].lineno}", guards=texts)
    # ... and `decoded` is this call's decode of `data`, not something remembered from an earlier call
    from ..memo import memo_findings
    for ln, what in memo_findings(py.module(isa.ARCH_PY), fn, ("data", "addr")):
        ctx.violation("C02.2/memo", key_of(isa.ARCH_PY, "SC62015.get_instruction_text", "decoded instruction remembered across calls"), what + " - the guard then compares these bytes with the re-encoding of another instruction", f"{isa.ARCH_PY}:{ln}")
    ctx.instance("C02.2/roundtrip-guard", "text returned only under encoded == recoded on data[:length] vs encode(decoded); decoded not remembered across calls", 3, 3)


def fusion_shape(ctx: Ctx, py: PyProgram) -> None:
    """The decoded instruction is what fusion() yields.  The only way two decoded items may become one is `<acc>.fuse(<next>)` - that
    is what encode() mirrors (PRE.fuse builds the prefixed instruction whose encode emits the prefix byte).  In fusion(), the
    accumulated instruction (the first element of every yielded pair) may only be rebound (a) from the input iterator, (b) to the
    result of a .fuse() call on itself, (c) to the look-ahead item right after the old accumulator was yielded.  Any other
    rebinding merges or drops bytes outside fuse(), and the instruction's encode() can no longer reproduce them."""
    fn = py.func(isa.OPCODES_PY, "fusion")
    yields = [y for y in ast.walk(fn) if isinstance(y, ast.Yield) and isinstance(y.value, ast.Tuple) and y.value.elts and isinstance(y.value.elts[0], ast.Name)]
    ctx.need(bool(yields), "fusion(): no `yield <instr>, <addr>` found")
    acc = {y.value.elts[0].id for y in yields}
    ctx.need(len(acc) == 1, f"fusion(): yields several different accumulators {sorted(acc)}")
    acc_name = acc.pop()
    it_params = {a.arg for a in fn.args.args}
    n = 0

    def blocks(node: ast.AST):
        for f_ in ("body", "orelse", "finalbody"):
            b = getattr(node, f_, None)
            if isinstance(b, list) and b and isinstance(b[0], ast.stmt):
                yield b
        for h in getattr(node, "handlers", []):
            yield h.body
    fuse_holders: set[str] = set()
    for x in ast.walk(fn):
        if isinstance(x, ast.NamedExpr) and isinstance(x.value, ast.Call) and isinstance(x.value.func, ast.Attribute) and x.value.func.attr == "fuse":
            fuse_holders.add(x.target.id)
        if isinstance(x, ast.Assign) and isinstance(x.value, ast.Call) and isinstance(x.value.func, ast.Attribute) and x.value.func.attr == "fuse":
            fuse_holders |= {t.id for t in x.targets if isinstance(t, ast.Name)}
    for node in ast.walk(fn):
        for body in blocks(node):
            for i, st in enumerate(body):
                if not isinstance(st, ast.Assign):
                    continue
                for t in st.targets:
                    pairs = []
                    if isinstance(t, ast.Name) and t.id == acc_name:
                        pairs.append(st.value)
                    if isinstance(t, ast.Tuple) and t.elts and isinstance(t.elts[0], ast.Name) and t.elts[0].id == acc_name:
                        pairs.append(st.value.elts[0] if isinstance(st.value, ast.Tuple) and st.value.elts else st.value)
                    for v in pairs:
                        n += 1
                        if isinstance(v, ast.Call) and isinstance(v.func, ast.Name) and v.func.id == "next" and v.args and isinstance(v.args[0], ast.Name) and v.args[0].id in it_params:
                            continue
                        if isinstance(v, ast.Name) and v.id in fuse_holders:
                            continue
                        if isinstance(v, ast.Call) and isinstance(v.func, ast.Attribute) and v.func.attr == "fuse":
                            continue
                        prev = body[i - 1] if i > 0 else None
                        if isinstance(v, ast.Name) and isinstance(prev, ast.Expr) and isinstance(prev.value, ast.Yield) and isinstance(prev.value.value, ast.Tuple) \
                                and isinstance(prev.value.value.elts[0], ast.Name) and prev.value.value.elts[0].id == acc_name:
                            continue
                        ctx.violation("C02.2/fusion-shape", key_of(isa.OPCODES_PY, "fusion", "accumulated instruction rebound outside fuse()"),
                                      f"fusion() rebinds the instruction it is about to yield with `{unparse(st)[:80]}`: neither the input iterator, nor a .fuse() result, nor the look-ahead item right after "
                                      "the previous one was yielded - bytes are merged or dropped behind fuse()'s back and encode(decode(b)) cannot reproduce them", f"{isa.OPCODES_PY}:{st.lineno}")
    ctx.instance("C02.2/fusion-shape", "rebindings of the accumulated instruction in fusion(): iterator / fuse() result / look-ahead after yield", n, 3)
