"""C03 - disassembly operands name exactly the locations the lifted IL touches.

Decides (which location *forms* - mode, base register, symbolic operand byte, width, side effect - not address values):
  1 IMEM       for every accepted encoding (all 15 prefixes x outcome classes, and no prefix) the set of internal-memory
               operands shown by render() - (addressing mode, operand byte) - equals the set of internal-memory address
               expressions built by lift(); in particular the first/second choice of the prefix byte
  2 DIRECTION  for two-operand internal/internal moves the store address is the first rendered operand and the load the second
  3 EMEM-REG   register-indirect operands: rendered base register, `++` / `--` markers and +-n offsets agree with the IL
               address expression and pointer side effect; the step equals the access width
  4 EMEM-ABS   absolute external operands: the rendered 20-bit address is the IL pointer (bit for bit)
  5 TABLES     the six addressing cases of IMemHelper.render and IMemHelper._imem_offset name the same base registers
  6 RANGES     counted transfers: accesses inside the I-loop use addresses that move with the loop, pointers step one byte with the
               documented wrap, registers rendered `++`/`--` are updated inside the loop (shared with C04.10)
"""
from __future__ import annotations

import ast
import collections
from typing import Any

from .. import ilfacts, isa
from ..absint import sym_name
from ..bits import BitVec, Lin
from ..core import REPO, AnalysisError, Ctx
from ..isa_abs import ASSUMPTIONS
from ..isa_sweep import sweep
from ..pyfacts import PyProgram, Term, unparse
from ..rules import key_of

LEVEL = "other"
EXPLANATION = (
    "The abstract sweep executes render() and lift() on the same decoded instruction object for every opcode x selector and every prefix x outcome "
    "class with symbolic operand bytes. Rendered operands are parsed from the token stream into location forms; the IL is scanned for "
    "internal-memory address expressions (0x100000 + {n, BP+n, PX+n, PY+n, BP+PX, BP+PY}), register-indirect address expressions with their pointer "
    "side effects, and absolute pointers. The two descriptions must coincide. Values of BP/PX/PY/pointers are never needed: the comparison is on forms."
)
TRUSTED = ["CPython ast", "sa/absint.py + sa/bits.py", *ASSUMPTIONS]
CLAIM = ("Decides for every encoding form (prefix x opcode x mode byte, data symbolic) that the locations named by the rendered operands - addressing mode incl. prefix slot, base register, operand byte, "
         "offset sign, auto-increment/decrement and width - are the ones the lifted IL computes.")
NOTE = "Does not evaluate addresses for particular register/memory contents; ranges of counted instructions are covered only through the start locations and step direction."
TECHNIQUE = "abstract-interpretation comparison of render() token forms with lift() address expressions over the full prefix x opcode x mode space"

MODES = {("N",): "N"}


def run(ctx: Ctx) -> None:
    py = PyProgram()
    for f in (isa.OPTABLE, isa.OPCODES_PY, isa.INSTR_PY):
        ctx.file_used(REPO / f)
    for a in ASSUMPTIONS:
        ctx.assume(a)
    # The sweep keeps operand values symbolic, which is sound only while the *text* does not depend on them.  A render() that compares
    # an operand's value with a number (print `(PX)` for `(PX+00)` ..) names another location for that one value while the IL is
    # unchanged; it is reported from the syntax, and the sweep (which would have to enumerate that byte for every encoding) is skipped.
    import ast as _ast
    n_r = 0
    for rel in (isa.OPCODES_PY, isa.INSTR_PY):
        for cls_ in [c for c in _ast.walk(py.module(rel).tree) if isinstance(c, _ast.ClassDef)]:
            for f_ in [f for f in cls_.body if isinstance(f, _ast.FunctionDef) and f.name == "render"]:
                n_r += 1
                for cmp_ in [x for x in _ast.walk(f_) if isinstance(x, _ast.Compare)]:
                    sides = [cmp_.left] + list(cmp_.comparators)
                    num = any(isinstance(x, _ast.Constant) and isinstance(x.value, int) and not isinstance(x.value, bool) for x in sides)
                    val = [x for x in sides if (isinstance(x, _ast.Attribute) and x.attr in ("value", "n_val")) or (isinstance(x, _ast.Call) and isinstance(x.func, _ast.Attribute) and x.func.attr in ("offset_value",))]
                    if num and val:
                        ctx.violation("C03.8/text-value-independent", key_of(rel, f"{cls_.name}.render", "text depends on an operand value"),
                                      f"{cls_.name}.render compares `{_ast.unparse(val[0])}` with a number (`{_ast.unparse(cmp_)[:60]}`): for that operand value the text names another location than for all others, while the lifted IL does not change", f"{rel}:{cmp_.lineno}")
    ctx.instance("C03.8/text-value-independent", "render() methods of the ISA layer: no comparison of an operand value with a number", n_r, 15)
    if any(f.rule == "C03.8/text-value-independent" for f in ctx.findings):
        return
    mode = "all" if ctx.tier == "thorough" else "reps"
    base, pre, _u = sweep(stages=("render", "lift"), with_prefixes=mode)
    rows = isa.py_rows(py)
    cases = [c for c in base + pre if c.status == "ok" and not c.render_exc and not c.lift_exc]
    compare(ctx, rows, cases)
    helper_tables(ctx, py)
    # counted transfers name ranges: every access inside the I-loop moves with the loop, pointers step by one byte, `++`/`--` registers
    # are updated per byte (rule shared with C04.10)
    from .c04 import counted_bodies
    counted_bodies(ctx, rows, [c for c in base if c.status == "ok" and not c.render_exc and not c.lift_exc], prefix="C03.6")
    il_runs_to_end(ctx, py)
    # ... and the IL that is run is the IL of the bytes that are there now: the emulator fetch has no instruction memo (shared with C06/C07)
    from ..memo import memo_findings
    ctx.file_used(REPO / isa.EMU_PY)
    fn_ = py.func(isa.EMU_PY, "Emulator.decode_instruction")
    for ln, what in memo_findings(py.module(isa.EMU_PY), fn_, ("address",), True):
        ctx.violation("C03.7/fetch-live", key_of(isa.EMU_PY, "Emulator.decode_instruction", "instruction remembered across steps"),
                      what + " - the executed IL touches the operands of an earlier decode, not the ones the text of the current bytes names", f"{isa.EMU_PY}:{ln}")
    ctx.instance("C03.7/fetch-live", "the emulator fetch decodes from memory on every step (no instruction memo)", 1, 1)


# ---------------------------------------------------------------------------
def parse_operands(tokens: list) -> list[dict]:
    """Token stream -> list of operand descriptions."""
    ops: list[list] = [[]]
    depth = 0
    for kind, text in tokens[1:]:
        if kind == "TSep" and text.strip() == "," and depth == 0:
            ops.append([])
            continue
        if kind == "TSep" and not text.strip():
            continue
        if kind == "TBegMem":
            depth += 1
        if kind == "TEndMem":
            depth -= 1
        ops[-1].append((kind, text))
    out = []
    for o in ops:
        if o:
            out.append(parse_operand(o))
    return out


def _imem_form(toks: list) -> tuple[str, str | None]:
    txt = [t for _k, t in toks]
    if len(txt) == 1:
        return ("N", txt[0].strip("<>"))
    if len(txt) == 3 and txt[1] == "+":
        if txt[0] == "BP" and txt[2] in ("PX", "PY"):
            return ("BP_" + txt[2], None)
        if txt[0] in ("BP", "PX", "PY"):
            return (txt[0] + "_N", txt[2].strip("<>"))
    return ("?", " ".join(txt))


def parse_operand(o: list) -> dict:
    if o[0] == ("TBegMem", "INTERNAL") and o[-1] == ("TEndMem", "INTERNAL"):
        m, n = _imem_form(o[1:-1])
        return {"kind": "imem", "mode": m, "n": n}
    if o[0] == ("TBegMem", "EXTERNAL") and o[-1] == ("TEndMem", "EXTERNAL"):
        inner = o[1:-1]
        if inner and inner[0] == ("TBegMem", "INTERNAL"):
            end = inner.index(("TEndMem", "INTERNAL"))
            m, n = _imem_form(inner[1:end])
            off = inner[end + 1:]
            return {"kind": "emem_imem", "mode": m, "n": n, "offset": off[0][1] if off else None}
        if len(inner) == 1 and inner[0][0] == "TAddr":
            return {"kind": "emem_abs", "addr": inner[0][1].strip("<>")}
        regs = [t for k, t in inner if k == "TReg"]
        marks = [t for k, t in inner if k == "TText"]
        offs = [t for k, t in inner if k == "TInt"]
        pre_dec = bool(inner and inner[0] == ("TText", "--"))
        post_inc = bool(inner and inner[-1] == ("TText", "++"))
        return {"kind": "emem_reg", "reg": regs[0] if regs else None, "pre_dec": pre_dec, "post_inc": post_inc, "offset": offs[0] if offs else None, "marks": marks}
    if len(o) == 1 and o[0][0] == "TReg":
        return {"kind": "reg", "reg": o[0][1]}
    if len(o) == 1 and o[0][0] == "TInt":
        return {"kind": "imm", "text": o[0][1]}
    return {"kind": "other", "tokens": o}


def _nname(n: Any) -> str | None:
    if n is None:
        return None
    if isinstance(n, BitVec):
        return hex(n.value()) if n.is_const() else sym_name(n)
    if isinstance(n, Lin):
        return repr(n)
    return hex(n) if isinstance(n, int) else str(n)


def compare(ctx: Ctx, rows: dict, cases: list) -> None:
    groups: dict[tuple, list] = collections.defaultdict(list)
    n = 0
    n_imem = n_reg = n_abs = 0
    for c in cases:
        n += 1
        ops = parse_operands(c.tokens)
        il = c.il_terms
        r = rows[c.opcode]
        # 1 internal-memory operand forms
        rendered = set()
        for o in ops:
            if o["kind"] in ("imem", "emem_imem"):
                rendered.add((o["mode"], o["n"]))
            if o["kind"] == "other":
                groups[("C03.0/unparsed", c.opcode, f"operand tokens {o['tokens']}")].append(c)
        lifted = set()
        for m, nv in ilfacts.imem_accesses(il):
            if isinstance(nv, int) or (isinstance(nv, BitVec) and nv.is_const()):
                continue    # implicit accesses to named registers (IMR ...) are not operands
            lifted.add((m, _nname(nv)))
        if rendered or lifted:
            n_imem += 1
        if rendered != lifted:
            only_r = sorted(rendered - lifted, key=str)
            only_l = sorted(lifted - rendered, key=str)
            groups[("C03.1/imem-form", c.opcode, f"render shows {only_r or '-'} where the IL uses {only_l or '-'}")].append(c)
        # 2 direction for internal/internal two-operand forms
        if len(ops) == 2 and ops[0]["kind"] == "imem" and ops[1]["kind"] == "imem" and r.cls == "MV":
            stores = [t for st in il for t in ilfacts.walk(st) if t.ctor == "store"]
            if len(stores) == 1:
                dst = ilfacts.imem_address(stores[0].args[1])
                loads = [ilfacts.imem_address(t.args[1]) for t in ilfacts.walk(stores[0].args[2]) if t.ctor == "load"]
                loads = [x for x in loads if x is not None and not isinstance(x[1], int)]
                want_d = (ops[0]["mode"], ops[0]["n"])
                want_s = (ops[1]["mode"], ops[1]["n"])
                if dst is None or (dst[0], _nname(dst[1])) != want_d or not loads or (loads[0][0], _nname(loads[0][1])) != want_s:
                    groups[("C03.2/direction", c.opcode, f"render: dst {want_d} src {want_s}; IL stores to {dst and (dst[0], _nname(dst[1]))} from {[(m, _nname(v)) for m, v in loads]}")].append(c)
        # 3 register-indirect operands
        for o in ops:
            if o["kind"] != "emem_reg":
                continue
            n_reg += 1
            reg = o["reg"]
            # pointer side effects on the base register in the IL
            incs, decs = [], []
            for st in il:
                for t in ilfacts.walk(st):
                    if t.ctor == "set_reg" and len(t.args) >= 3 and t.args[1] == reg:
                        v = t.args[2]
                        if isinstance(v, Term) and v.ctor in ("add", "sub") and repr(v.args[1]) == f"reg({t.args[0]}, '{reg}')":
                            step = ilfacts.value_of(v.args[2])
                            (incs if v.ctor == "add" else decs).append(step)
            dest_reg = ops[0]["reg"] if ops[0]["kind"] == "reg" else None
            counted = r.cls in ("MVL", "MVLD")
            if o["post_inc"] and not incs and reg != dest_reg and not counted:
                groups[("C03.3/emem-reg", c.opcode, f"render shows [{reg}++] but the IL never increments {reg}")].append(c)
            if o["pre_dec"] and not decs and reg != dest_reg and not counted:
                groups[("C03.3/emem-reg", c.opcode, f"render shows [--{reg}] but the IL never decrements {reg}")].append(c)
            if not o["post_inc"] and not o["pre_dec"] and (incs or decs) and reg != dest_reg and not counted:
                groups[("C03.3/emem-reg", c.opcode, f"render shows [{reg}] without ++/-- but the IL changes {reg} by {incs + decs}")].append(c)
            # the accessed address mentions the base register (directly or through the inc/dec temporary)
            uses = any(t.ctor == "reg" and len(t.args) == 2 and t.args[1] == reg for st in il for t in ilfacts.walk(st))
            if not uses:
                groups[("C03.3/emem-reg", c.opcode, f"render shows base register {reg} but the IL never reads it")].append(c)
            # offset
            if o["offset"] is not None:
                sign = o["offset"][0]
                name = o["offset"][1:].strip("<>")
                found = False
                for st in il:
                    for t in ilfacts.walk(st):
                        if t.ctor == "add" and len(t.args) >= 3 and repr(t.args[1]).startswith("reg(") and f"'{reg}'" in repr(t.args[1]):
                            ov = ilfacts.value_of(t.args[2])
                            if isinstance(ov, BitVec) and sign == "+" and sym_name(ov) == name:
                                found = True
                            if isinstance(ov, Lin) and len(ov.terms) == 1 and ov.c == 0:
                                k, v = ov.terms[0]
                                if (k == 1 and sign == "+" or k == -1 and sign == "-") and sym_name(v) == name:
                                    found = True
                if not found:
                    groups[("C03.3/emem-reg", c.opcode, f"render shows [{reg}{sign}n] but the IL has no address {reg}{sign}<that byte>")].append(c)
            # step == access width
            # data accesses only: a load that sits inside the *address* of another access (the BP/PX/PY byte read while forming an
            # internal-memory address) is not an operand access and says nothing about the operand width
            addr_part = {id(x) for st in il for t in ilfacts.walk(st) if t.ctor in ("load", "store") and isinstance(t.args[1], Term) for x in ilfacts.walk(t.args[1])}
            widths = {t.args[0] for st in il for t in ilfacts.walk(st) if t.ctor in ("load", "store") and isinstance(t.args[0], int) and id(t) not in addr_part}
            steps = {BitVec.lift(s).value() for s in incs + decs if s is not None and BitVec.lift(s).is_const()}
            if steps and not counted and not steps <= widths:
                groups[("C03.3/step-width", c.opcode, f"pointer step {sorted(steps)} differs from the access width {sorted(widths)}")].append(c)
        # 4 absolute external operands
        for o in ops:
            if o["kind"] != "emem_abs":
                continue
            n_abs += 1
            ptrs = set()
            for st in il:
                for t in ilfacts.walk(st):
                    if t.ctor == "const_pointer" and len(t.args) == 2 and isinstance(t.args[1], BitVec) and not t.args[1].is_const() and t.args[1].bits[20] != 1:
                        ptrs.add(sym_name(t.args[1]))
            if o["addr"] not in ptrs:
                groups[("C03.4/emem-abs", c.opcode, f"render shows [{o['addr']}] but the IL pointers are {sorted(ptrs)}")].append(c)
    for (rule, op, what), cs in sorted(groups.items(), key=lambda kv: (kv[0][0], kv[0][1])):
        r = rows[op]
        pres = sorted({c.pre for c in cs if c.pre is not None})
        ex = cs[0]
        ctx.violation(rule, key_of(isa.INSTR_PY, f"opcode 0x{op:02X} {r.cls}", what),
                      f"opcode 0x{op:02X} ({r.name}): {what}; prefixes {[hex(p) for p in pres[:6]] or 'none'} ({len(cs)} cases); e.g. text `{_text(ex.tokens)}`",
                      f"{isa.OPTABLE}:{r.ln}", il=ex.il[:4])
    ctx.instance("C03.1/imem-forms", "cases with internal-memory operands: rendered (mode, byte) set == IL address-expression set", n_imem, 3000)
    ctx.instance("C03.3/emem-reg", "register-indirect operands: base register, ++/--, +-n, step == width", n_reg, 900)
    ctx.instance("C03.4/emem-abs", "absolute external operands: rendered address == IL pointer", n_abs, 300)
    ctx.instance("C03/cases", "accepted cases compared (render vs lift)", n, 7000)
    for c in cases:
        if (c.pre, c.opcode) in ((0x25, 0xC8), (0x36, 0x6D)) or (c.pre is None and c.opcode == 0x90 and c.selector in (0x24, 0xC4)):
            ctx.sample({"prefix": c.pre and hex(c.pre), "opcode": hex(c.opcode), "selector": c.selector and hex(c.selector), "text": _text(c.tokens), "il": c.il[:3]})


def _text(tokens: list) -> str:
    return "".join(t for _k, t in tokens)


# ---------------------------------------------------------------------------
def helper_tables(ctx: Ctx, py: PyProgram) -> None:
    cls = py.need_cls(py.module(isa.OPCODES_PY), "IMemHelper")
    rend = cls.methods["render"]
    offs = cls.methods["_imem_offset"]

    def cases(fn: ast.FunctionDef) -> dict[str, set[str]]:
        out: dict[str, set[str]] = {}
        for m in ast.walk(fn):
            if isinstance(m, ast.Match):
                for case in m.cases:
                    if isinstance(case.pattern, ast.MatchValue):
                        mode = unparse(case.pattern.value).split(".")[-1]
                        names = set()
                        for x in ast.walk(ast.Module(body=case.body, type_ignores=[])):
                            if isinstance(x, ast.Constant) and x.value in ("BP", "PX", "PY"):
                                names.add(x.value)
                        out[mode] = names
        return out
    a, b = cases(rend), cases(offs)
    want = {"N": set(), "BP_N": {"BP"}, "PX_N": {"PX"}, "PY_N": {"PY"}, "BP_PX": {"BP", "PX"}, "BP_PY": {"BP", "PY"}}
    n = 0
    for mode in want:
        n += 1
        if a.get(mode) != want[mode] or b.get(mode) != want[mode]:
            ctx.violation("C03.5/helper-tables", key_of(isa.OPCODES_PY, "IMemHelper", f"mode {mode}"), f"mode {mode}: render names {sorted(a.get(mode, []))}, _imem_offset reads {sorted(b.get(mode, []))}, documented {sorted(want[mode])}", isa.OPCODES_PY)
    ctx.instance("C03.5/helper-tables", "six addressing cases: render vs _imem_offset vs documented base registers", n, 6)


def il_runs_to_end(ctx: Ctx, py: PyProgram) -> None:
    """The range a counted operand denotes is touched completely only if the evaluator runs the lifted IL to its end: the loop over the
    IL list in Emulator._execute_instruction_impl leaves through its own condition only - no `break`/`return` inside it (a step cap
    truncates MVL/ADCL... with a large I and leaves X/I half-updated), and the IL index is only stepped by one or set from a label."""
    import ast
    from ..pyfacts import unparse
    ctx.file_used(REPO / isa.EMU_PY)
    fn = py.func(isa.EMU_PY, "Emulator._execute_instruction_impl")
    loops = [w for w in ast.walk(fn) if isinstance(w, ast.While) and any(isinstance(a, ast.Attribute) and a.attr == "ils" for a in ast.walk(w.test))]
    ctx.need(len(loops) == 1, f"_execute_instruction_impl: expected one while-loop over il.ils, found {len(loops)}")
    lp = loops[0]
    n = 1
    parent = {id(c): p for p in ast.walk(lp) for c in ast.iter_child_nodes(p)}
    for x in ast.walk(lp):
        if isinstance(x, (ast.Break, ast.Return)):
            # an exit nested in an inner loop of its own does not leave the IL loop
            a = parent.get(id(x))
            inner = False
            while a is not None and a is not lp:
                if isinstance(a, (ast.For, ast.While)) and isinstance(x, ast.Break):
                    inner = True
                a = parent.get(id(a))
            if inner:
                continue
            n += 1
            guard = parent.get(id(x))
            while guard is not None and not isinstance(guard, ast.If):
                guard = parent.get(id(guard))
            cond = unparse(guard.test)[:80] if isinstance(guard, ast.If) else "unconditionally"
            ctx.violation("C03.7/il-runs-to-end", key_of(isa.EMU_PY, "Emulator._execute_instruction_impl", "IL evaluation abandoned before the end of the list"),
                          f"the IL evaluation loop is left by `{type(x).__name__.lower()}` when `{cond}`: a counted instruction whose I needs more IL steps than that touches only a prefix of the range "
                          "its operands denote and leaves its pointer registers and I half-updated", f"{isa.EMU_PY}:{x.lineno}")
    ctx.instance("C03.7/il-runs-to-end", "the IL evaluation loop of the emulator has no exit but its own end-of-list condition", n, 1)
