"""C04 - lifted IL computes the documented result and flags for every operand value.

Decides (effect *signatures*, not numerical results):
  1 FLAGS     per documented encoding: the flags the lifted IL may write (flag argument of IL operations, set_flag) equal the
              README `Flags (C Z)` cell of the row with the same opcode/mode pattern - so flags documented as unaffected are preserved
  2 BYTES     documented byte count = bytes the decoder consumes for the same opcode x mode pattern
  3 FAMILY    per mnemonic class the IL uses the operator family the documentation names (add / sub / with-carry / and / or / xor /
              rotate / rotate-through-carry), compares and tests never store, increments/decrements use the constant 1
  4 FRAME     registers written by an instruction's IL are a subset of {destination operands, documented flags, auto-inc/dec pointer,
              I for counted forms, stack pointer of push/pop forms}; single-store instructions store to the rendered destination
  5 WHO-MAY   every counted instruction builds its loop through lift_loop; I is written only by it or as a destination
  6 SIBLING   HALT/OFF/RESET side effects on USR/SSR/UCR/ISR/SCR/LCC: Python intrinsics and the Rust core compute the same bit
              provenance for every internal register byte they touch
  7 WIDTH     README operand ranges `(m..m+k)`: IL data access widths and the significant bits entering flag-setting operations
  8 PACK      F = C | Z<<1 when stacked; unstacking restores C from bit 0 and Z from bit 1 only (bit provenance)
  9 ADJUST    decimal-correction diamonds (>9 / +6 / pass through) test and adjust the same digit sum
"""
from __future__ import annotations

import ast
import collections
import re
from typing import Any

from .. import ilfacts, isa, mdfacts
from ..absint import AbsEval, Raised, Unknown
from ..bits import BitVec, show_bit
from ..core import REPO, AnalysisError, Ctx
from ..isa_abs import ASSUMPTIONS
from ..isa_sweep import sweep
from ..pyfacts import PyProgram, Term, unparse
from ..rsfacts import NotConst as RsNotConst
from ..rsfacts import RsInterp, RustProgram, expr_text, walk
from ..rules import key_of
from .c03 import parse_operands

LEVEL = "other"
EXPLANATION = (
    "EFFECT-SIG: the IL of every accepted encoding (abstract sweep) is reduced to a signature - flags written, operator family, registers written, "
    "store destinations, loop construct - and compared with the README instruction tables (rows keyed by their opcode/mode bit patterns, not by "
    "position) and with frozen per-mnemonic expectations taken from those tables. HALT/OFF/RESET register side effects are compared between the "
    "Python intrinsics and the Rust core by bit provenance. Destination values, carry chains, BCD digits and block lengths are declined."
)
TRUSTED = ["CPython ast / syn", "sa/absint.py + sa/bits.py", "README instruction tables as the documentation of record", *ASSUMPTIONS]
CLAIM = ("Decides for every documented encoding that the lifted IL writes exactly the documented flags, consumes the documented number of bytes, uses the documented operator family, "
         "writes no register and stores to no location outside the instruction's destination/side-effect set, and that the low-power/reset side effects agree between the cores.")
NOTE = "Numerical results for all operand values (2^17 per 8-bit operation etc.) are outside static reach and are not claimed."
TECHNIQUE = "effect-signature extraction from abstractly lifted IL vs README tables (pattern-keyed) + bit-provenance comparison of intrinsics"

FLAGMAP = {"- -": set(), "○ ○": {"C", "Z"}, "- ○": {"Z"}, "○ -": {"C"}, "C Z restore": {"C", "Z"}}
COUNTED = {"MVL", "MVLD", "ADCL", "SBCL", "DADL", "DSBL", "EXL", "DSLL", "DSRL", "WAIT"}
FAMILY = {
    # class: (required IL operator constructors, forbidden ones)
    "ADD": ({"add"}, {"sub"}), "SUB": ({"sub"}, set()), "ADC": ({"add", "flag"}, {"sub"}), "SBC": ({"sub", "flag"}, set()),
    "AND": ({"and_expr"}, {"or_expr", "xor_expr", "add", "sub"}), "OR": ({"or_expr"}, {"and_expr", "xor_expr", "add", "sub"}),
    "XOR": ({"xor_expr"}, {"and_expr", "or_expr", "add", "sub"}),
    "ROR": ({"rotate_right"}, set()), "ROL": ({"rotate_left"}, set()), "SHR": ({"rotate_right_carry"}, set()), "SHL": ({"rotate_left_carry"}, set()),
    "CMP": ({"sub"}, {"store"}), "CMPW": ({"sub"}, {"store"}), "CMPP": ({"sub"}, {"store"}), "TEST": ({"and_expr"}, {"store"}),
}


def run(ctx: Ctx) -> None:
    py = PyProgram()
    rs = RustProgram()
    for f in (isa.OPTABLE, isa.OPCODES_PY, isa.INSTR_PY, "sc62015/pysc62015/intrinsics.py", mdfacts.README):
        ctx.file_used(REPO / f)
    ctx.file_used(REPO / rs.file_for(isa.EVAL_RS))
    for a in ASSUMPTIONS:
        ctx.assume(a)
    base, pre, _u = sweep(stages=("render", "lift"), with_prefixes="reps" if ctx.tier == "quick" else "all")
    rows = isa.py_rows(py)
    docs = mdfacts.instruction_docs()
    ok_cases = [c for c in base if c.status == "ok" and not c.lift_exc]
    flags_and_bytes(ctx, rows, docs, ok_cases, [c for c in pre if c.status == "ok" and not c.lift_exc])
    families(ctx, rows, ok_cases)
    frame(ctx, rows, ok_cases + [c for c in pre if c.status == "ok" and not c.lift_exc and not c.render_exc])
    loops(ctx, py, rows, ok_cases)
    intrinsics(ctx, py, rs)
    access_widths(ctx, rows, docs, ok_cases)
    flag_pack(ctx, rows, ok_cases)
    decimal_adjust(ctx, rows, ok_cases)
    counted_bodies(ctx, rows, ok_cases)
    carry_chain(ctx, rows, ok_cases)
    explicit_carry(ctx, rows, ok_cases)
    zero_accumulator(ctx, rows, ok_cases)
    from .c07 import il_temps
    il_temps(ctx, py, cases=ok_cases, rule="C04.13", why=" - the result or flag then depends on what an earlier instruction left in that scratch register, not on the documented operands", floors=(1500, 2500))


# ---------------------------------------------------------------------------
def flags_and_bytes(ctx: Ctx, rows: dict, docs: list, cases: list, pre_cases: list) -> None:
    by_op: dict[int, list] = collections.defaultdict(list)
    for c in cases:
        by_op[c.opcode].append(c)
    n_f = n_b = 0
    groups: dict[tuple, list] = collections.defaultdict(list)
    for d in docs:
        ctx.need(d.flags in FLAGMAP, f"README line {d.line}: flags cell {d.flags!r} unreadable")
        want = FLAGMAP[d.flags]
        for op in sorted(d.opcodes):
            cs = by_op.get(op, [])
            if d.selectors is not None:
                cs2 = [c for c in cs if c.selector in d.selectors]
                if cs and cs[0].selector is None:
                    cs2 = cs    # the decoder does not branch on that byte
                cs = cs2
            for c in cs:
                got = ilfacts.flags_written(c.il_terms)
                n_f += 1
                if got != want:
                    groups[("C04.1/flags", op, d.mnemonic, f"documented flags {d.flags!r} ({sorted(want) or 'none'}) but the IL writes {sorted(got) or 'none'}")].append(c)
                if d.nbytes is not None:
                    n_b += 1
                    if c.n != d.nbytes:
                        groups[("C04.2/bytes", op, d.mnemonic, f"documented {d.nbytes} bytes, decoder consumes {c.n}")].append(c)
    # a prefix must not change the flag set
    base_flags = {}
    for c in cases:
        base_flags.setdefault((c.opcode, c.n, tuple(c.operands)), ilfacts.flags_written(c.il_terms))
    for c in pre_cases:
        k = (c.opcode, c.n, tuple(c.operands))
        if k in base_flags:
            n_f += 1
            got = ilfacts.flags_written(c.il_terms)
            if got != base_flags[k]:
                groups[("C04.1/flags", c.opcode, rows[c.opcode].name + " +PRE", f"prefixed form writes {sorted(got)} but the unprefixed form writes {sorted(base_flags[k])}")].append(c)
    for (rule, op, mn, what), cs in sorted(groups.items(), key=lambda kv: (kv[0][0], kv[0][1])):
        r = rows[op]
        sels = sorted({c.selector for c in cs if c.selector is not None})
        ctx.violation(rule, key_of(isa.INSTR_PY, f"opcode 0x{op:02X} {r.cls}", f"{mn.strip()}: {what}"),
                      f"opcode 0x{op:02X} `{mn.strip()}`: {what}; selectors {[hex(s) for s in sels[:6]]} ({len(cs)} cases)", f"{isa.OPTABLE}:{r.ln}", il=cs[0].il[:6])
    ctx.instance("C04.1/flags", "documented (opcode, mode) encodings: IL flag write set == README Flags cell; prefix-invariance of the flag set", n_f, 3500)
    ctx.instance("C04.2/bytes", "documented (opcode, mode) encodings: README Bytes == decoder length", n_b, 1500)
    ctx.sample({"documented_rows": len(docs), "opcodes_documented": len({o for d in docs for o in d.opcodes})})
    for c in cases:
        if c.opcode in (0x40, 0x70, 0xEE, 0x97) and c.selector is None:
            ctx.sample({"opcode": hex(c.opcode), "name": c.name, "il_flags": sorted(ilfacts.flags_written(c.il_terms)), "il": c.il[:3]})


def _data_ctors(il: list) -> set[str]:
    """IL constructors outside address computations (the address argument of load/store is skipped)."""
    out: set[str] = set()

    def rec(x: Any) -> None:
        if isinstance(x, Term):
            out.add(x.ctor)
            for i, a in enumerate(x.args):
                if x.ctor in ("load", "store") and i == 1:
                    continue
                rec(a)
        elif isinstance(x, (list, tuple)):
            for a in x:
                rec(a)
    for st in il:
        rec(st)
    return out


def families(ctx: Ctx, rows: dict, cases: list) -> None:
    n = 0
    seen = set()
    for c in cases:
        r = rows[c.opcode]
        fam = FAMILY.get(r.cls)
        ctors = _data_ctors(c.il_terms)
        if fam is not None:
            n += 1
            req, forb = fam
            if r.cls in ("ADD", "SUB") and "RegPair" in [o.ctor for o in r.ops] and "compare_unsigned_greater_than" in ctors:
                req = req   # 20-bit register-pair path: still add/sub
            key = (r.cls, tuple(sorted(req - ctors)), tuple(sorted(forb & ctors)))
            if (req - ctors or forb & ctors) and key not in seen:
                seen.add(key)
                ctx.violation("C04.3/family", key_of(isa.INSTR_PY, r.cls, f"missing {sorted(req - ctors)} forbidden {sorted(forb & ctors)}"),
                              f"{r.cls} (opcode 0x{c.opcode:02X}): IL lacks {sorted(req - ctors) or '-'} / contains {sorted(forb & ctors) or '-'}", f"{isa.OPTABLE}:{r.ln}", il=c.il[:4])
        if r.cls in ("INC", "DEC"):
            n += 1
            want = "add" if r.cls == "INC" else "sub"
            ok = any(t.ctor == want and len(t.args) >= 3 and ilfacts.value_of(t.args[2]) == 1 for st in c.il_terms for t in ilfacts.walk(st))
            if not ok and (r.cls, "step") not in seen:
                seen.add((r.cls, "step"))
                ctx.violation("C04.3/family", key_of(isa.INSTR_PY, r.cls, "step 1"), f"{r.cls} (opcode 0x{c.opcode:02X}) does not {want} the constant 1", f"{isa.OPTABLE}:{r.ln}", il=c.il[:4])
        if r.cls in ("ADC", "SBC"):
            n += 1
            # carry-in is the C flag
            ok = any(t.ctor == "flag" and t.args and t.args[0] == "C" for st in c.il_terms for t in ilfacts.walk(st))
            if not ok and (r.cls, "carry") not in seen:
                seen.add((r.cls, "carry"))
                ctx.violation("C04.3/family", key_of(isa.INSTR_PY, r.cls, "carry-in"), f"{r.cls} does not read the carry flag", f"{isa.OPTABLE}:{r.ln}")
    ctx.instance("C04.3/family", "accepted cases of the ALU/compare/shift classes: required operator family present, forbidden absent", n, 400)


def _dest_regs(ops: list, cls: str) -> set[str]:
    out = set()
    if not ops:
        return out
    targets = ops[:1]
    if cls in ("EX", "EXL"):
        targets = ops[:2]
    for o in targets:
        if o["kind"] == "reg":
            out.add(o["reg"])
    return out


def frame(ctx: Ctx, rows: dict, cases: list) -> None:
    n = 0
    groups: dict[tuple, list] = collections.defaultdict(list)
    for c in cases:
        r = rows[c.opcode]
        ops = parse_operands(c.tokens) if c.tokens else []
        written = {x for x in ilfacts.regs_written(c.il_terms) if not x.startswith("TEMP")}
        allowed = set(_dest_regs(ops, r.cls))
        # sub-register destinations write their base register
        if "IL" in allowed:
            allowed |= {"I"}
        for o in ops:
            if o["kind"] == "emem_reg" and (o["post_inc"] or o["pre_dec"]):
                allowed.add(o["reg"])
        if r.cls in COUNTED:
            allowed |= {"I"}
            for o in ops:
                if o["kind"] == "emem_reg":
                    allowed.add(o["reg"])      # block moves leave the pointer advanced
        if r.cls in ("PUSHU", "POPU"):
            allowed |= {"U"}
        if any(t.ctor in ("push", "pop") for st in c.il_terms for t in ilfacts.walk(st)):
            allowed |= {"S"}
        if r.cls in ("POPU", "POPS"):
            allowed |= _dest_regs(ops, r.cls)
        n += 1
        extra = written - allowed
        if extra:
            groups[("C04.4/frame-regs", c.opcode, f"IL writes {sorted(extra)} beyond the destination/side-effect set {sorted(allowed)}")].append(c)
        # store destination for single-store two-operand forms
        stores = [t for st in c.il_terms for t in ilfacts.walk(st) if t.ctor == "store"]
        if r.cls in ("CMP", "CMPW", "CMPP", "TEST") and (stores or written):
            groups[("C04.4/frame-compare", c.opcode, f"compare/test writes {sorted(written)} and stores {len(stores)} times")].append(c)
        if r.cls in ("EX", "EXW", "EXP") and len(stores) == 2:
            # (m) <-> (n): what is stored to is exactly what was loaded from - the two cells trade contents, no third cell is touched
            st_addrs = sorted({repr(t.args[1]) for t in stores})
            top_loads = []
            for st in c.il_terms:
                if st.ctor == "set_reg" and isinstance(st.args[2], Term) and st.args[2].ctor == "load":
                    top_loads.append(repr(st.args[2].args[1]))
                if st.ctor == "store" and isinstance(st.args[2], Term) and st.args[2].ctor == "load":
                    top_loads.append(repr(st.args[2].args[1]))
            if sorted(set(top_loads)) != st_addrs:
                groups[("C04.4/exchange-pair", c.opcode, "the two cells stored to are not the two cells loaded from")].append(c)
        if len(stores) == 1 and ops and r.cls not in COUNTED and r.cls not in ("PUSHU", "PUSHS", "IR", "CALL", "EX"):
            o = ops[0]
            addr = stores[0].args[1]
            if o["kind"] == "imem":
                m = ilfacts.imem_address(addr)
                from .c03 import _nname
                if m is None or (m[0], _nname(m[1])) != (o["mode"], o["n"]):
                    groups[("C04.4/store-dest", c.opcode, f"single store goes to {m and (m[0], _nname(m[1]))}, destination operand is ({o['mode']}, {o['n']})")].append(c)
            elif o["kind"] == "reg" and o["reg"] != "IMR":   # IMR is the memory-mapped mask register at 0xFB
                groups[("C04.4/store-dest", c.opcode, f"destination is register {o['reg']} but the IL stores to memory")].append(c)
    for (rule, op, what), cs in sorted(groups.items(), key=lambda kv: (kv[0][0], kv[0][1])):
        r = rows[op]
        ctx.violation(rule, key_of(isa.INSTR_PY, f"opcode 0x{op:02X} {r.cls}", what), f"opcode 0x{op:02X} ({r.name}): {what} ({len(cs)} cases); e.g. `{''.join(t for _k, t in cs[0].tokens)}`", f"{isa.OPTABLE}:{r.ln}", il=cs[0].il[:6])
    ctx.instance("C04.4/frame", "accepted cases: registers written subset of destination/side-effect set; compare/test write nothing; single store hits the destination", n, 7000)


def loops(ctx: Ctx, py: PyProgram, rows: dict, cases: list) -> None:
    """Counted classes call lift_loop; nobody else writes I except as destination."""
    mod = py.module(isa.INSTR_PY)
    n = 0
    for cls_name in sorted(COUNTED):
        c = py.need_cls(mod, cls_name)
        n += 1
        uses = False
        seen = set()
        stack = [c.find_method("lift")]
        while stack:
            item = stack.pop()
            if item is None:
                continue
            owner, fn = item
            if id(fn) in seen:
                continue
            seen.add(id(fn))
            for w in ast.walk(fn):
                if isinstance(w, ast.With) and any("lift_loop" in unparse(i.context_expr) for i in w.items):
                    uses = True
                if isinstance(w, ast.Call):
                    nm = unparse(w.func)
                    if nm.startswith("self."):
                        stack.append(c.find_method(nm[5:]))
                    elif nm in ("lift_multi_byte",):
                        stack.append((None, py.func(isa.INSTR_PY, nm)))
        if not uses:
            ctx.violation("C04.5/lift-loop", key_of(isa.INSTR_PY, cls_name, "lift_loop"), f"counted instruction {cls_name} does not build its loop through lift_loop", c.where)
    # IL level: I written only in counted classes or as destination (frame rule covers destination); loop shape: decrement by 1 and compare with 0
    for c in cases:
        r = rows[c.opcode]
        if r.cls in COUNTED and c.selector in (None, 0x04, 0x24, 0x84):
            n += 1
            dec = any(t.ctor == "set_reg" and t.args[1] == "I" and isinstance(t.args[2], Term) and t.args[2].ctor == "sub" and ilfacts.value_of(t.args[2].args[2]) == 1 for st in c.il_terms for t in ilfacts.walk(st))
            lb = _loop_body(c.il_terms)
            # the loop is entered through a test on I placed before the loop label (I = 0 moves nothing)
            guarded = lb is not None and any(
                isinstance(st, Term) and st.ctor == "if_expr" and any(x.ctor == "reg" and repr(x.args[1]) == "'I'" for x in ilfacts.walk(st.args[0]))
                for st in c.il_terms[:lb[0]])
            if not dec or lb is None or not guarded:
                ctx.violation("C04.5/lift-loop", key_of(isa.INSTR_PY, f"opcode 0x{c.opcode:02X} {r.cls}", "loop shape"), f"{r.cls}: loop does not (test I==0, body, I-=1, test I==0)", f"{isa.OPTABLE}:{r.ln}", il=c.il[:6])
    ctx.instance("C04.5/lift-loop", "counted classes use lift_loop; IL loop shape test/decrement/test", n, 20)


# ---------------------------------------------------------------------------
class _Mem:
    def __init__(self) -> None:
        self.writes: dict[int, BitVec] = {}
        self.reads: list[int] = []

    def read_byte(self, addr: Any, *a: Any, **k: Any) -> Any:
        addr = int(addr)
        self.reads.append(addr)
        if addr in self.writes:
            return self.writes[addr]
        return BitVec.sym(f"m{addr:06X}", 8)

    def write_byte(self, addr: Any, value: Any, *a: Any, **k: Any) -> None:
        self.writes[int(addr)] = BitVec.lift(value) & 0xFF


class _Regs:
    def __init__(self) -> None:
        self.sets: dict[str, Any] = {}

    def set_by_name(self, name: str, value: Any) -> None:
        self.sets[name] = value


class _State:
    halted = None


class _RsLow(RsInterp):
    def __init__(self, prog: RustProgram):
        super().__init__(prog, isa.EVAL_RS)
        self.mem = _Mem()
        self.state_calls: list[tuple] = []

    def call_hook(self, path: str, args: list, env: dict, e: dict) -> Any:
        last = path.split("::")[-1]
        if last == "store_traced":
            self.mem.write_byte(args[1], args[3])
            return None
        if last == "mask_for":
            return RsInterp(self.prog, isa.STATE_RS).call("mask_for", [args[0]])
        return NotImplemented

    def mcall_hook(self, recv: Any, m: str, args: list, env: dict, e: dict) -> Any:
        if recv == "BUS":
            if m == "load":
                return self.mem.read_byte(args[0])
            if m == "store":
                self.mem.write_byte(args[0], args[2])
                return None
        if recv == "STATE":
            self.state_calls.append((m, tuple(args)))
            if m == "pc":
                return BitVec.sym("pc", 20)
            return None
        return NotImplemented


def intrinsics(ctx: Ctx, py: PyProgram, rs: RustProgram) -> None:
    rel = "sc62015/pysc62015/intrinsics.py"
    mod = py.module(rel)
    n = 0
    pairs = [("eval_intrinsic_halt", "enter_low_power_state", ("sym", "PowerState::Halted")),
             ("eval_intrinsic_off", "enter_low_power_state", ("sym", "PowerState::Off")),
             ("eval_intrinsic_reset", "power_on_reset", None)]
    for pyfn, rsfn, pstate in pairs:
        mem, regs, st = _Mem(), _Regs(), _State()
        ev = AbsEval(py, mod, {}, [500000])
        value_branch = None
        try:
            ev.call(ev.name(pyfn), [None, None, regs, mem, st, None, None], {})
        except (Raised,) as e:
            raise AnalysisError(f"{pyfn} raised {e.cls_name} under abstract execution")
        except Unknown as e:
            value_branch = str(e)
        it = _RsLow(rs)
        args = ["BUS", "STATE"] + ([pstate] if pstate is not None else [])
        try:
            it.call(rsfn, args)
        except RsNotConst as e:
            raise AnalysisError(f"{rsfn} left the foldable fragment: {e}")
        if value_branch is not None:
            # the Rust sibling folded completely (its effect is the same for every machine state) while the Python intrinsic takes a
            # branch on a register/memory value: the two cannot agree for both outcomes of that branch
            n += 1 + len([a for a in it.mem.writes if a >= 0x100000])
            ctx.violation("C04.6/intrinsic-effects", key_of(rel, pyfn, "effect depends on a run-time value"),
                          f"{pyfn}: {value_branch} - the documented effect and the Rust sibling {rsfn} are unconditional, the Python intrinsic's effect depends on that value", rel)
            continue
        base = 0x100000
        pyw = {a: v for a, v in mem.writes.items() if a >= base}
        rsw = {a: v for a, v in it.mem.writes.items() if a >= base}
        for a in sorted(set(pyw) | set(rsw)):
            n += 1
            pv, rv = pyw.get(a), rsw.get(a)
            ps = [show_bit(b) for b in pv.bits[:8]] if pv is not None else None
            rsb = [show_bit(b) for b in rv.bits[:8]] if rv is not None else None
            if ps != rsb:
                ctx.violation("C04.6/intrinsic-effects", key_of(rel, pyfn, f"IMEM 0x{a - base:02X}"),
                              f"{pyfn} vs Rust {rsfn}: internal register 0x{a - base:02X} becomes {ps} in Python and {rsb} in Rust", f"{rel}", python=ps, rust=rsb)
        # halted / power state
        n += 1
        rs_power = [c for c in it.state_calls if c[0] in ("set_power_state", "set_halted")]
        if pyfn != "eval_intrinsic_reset":
            if st.halted is not True or not rs_power:
                ctx.violation("C04.6/intrinsic-effects", key_of(rel, pyfn, "halted"), f"{pyfn}: Python halted={st.halted}, Rust power calls {rs_power}", rel)
        ctx.sample({"intrinsic": pyfn, "python_writes": {hex(a - base): [show_bit(b) for b in v.bits[:8]] for a, v in pyw.items()}})
    ctx.instance("C04.6/intrinsic-effects", "HALT/OFF/RESET: bit provenance of every internal register byte written, Python vs Rust", n, 11)
    # the same writes against the README's "System Initialization and Data Retainment" table (the documentation of record)
    tab = mdfacts.table_under(mdfacts.tables(), "Data Retainment")
    row = next((r_ for r_ in tab.rows if r_ and "internal memory" in r_[0].lower()), None)
    ctx.need(row is not None, "README retainment table: 'Internal memory' row not found")
    nd = 0
    for col, pyfn in ((tab.col("HALT"), "eval_intrinsic_halt"), (tab.col("OFF"), "eval_intrinsic_off"), (tab.col("RESET"), "eval_intrinsic_reset")):
        want: dict[int, list[int]] = {}      # internal offset -> [clear mask, set mask]
        for sent in re.split(r"<br>|\.\s", row[col]):
            m_kind = re.search(r"(are|is)\s+(all\s+)?(reset|set)\b", sent)
            if not m_kind:
                continue
            kind = m_kind.group(3)
            for m_ in re.finditer(r"([A-Z]{2,4})\s*\(([0-9A-F]{2})H\)(?:\s*bits?\s*([0-9][0-9 toand/,]*))?", sent[:m_kind.start()]):
                off = int(m_.group(2), 16)
                bits = m_.group(3)
                mask = 0xFF
                if bits:
                    mask = 0
                    for part in re.split(r"/|,|and", bits):
                        part = part.strip()
                        if not part:
                            continue
                        rng = re.match(r"(\d)\s*to\s*(\d)", part)
                        if rng:
                            for b_ in range(int(rng.group(1)), int(rng.group(2)) + 1):
                                mask |= 1 << b_
                        elif part.isdigit():
                            mask |= 1 << int(part)
                want.setdefault(off, [0, 0])[0 if kind == "reset" else 1] |= mask
        ctx.need(len(want) >= 2, f"README retainment cell for {pyfn} not understood: {row[col][:80]}")
        mem, regs_, st_ = _Mem(), _Regs(), _State()
        ev = AbsEval(py, mod, {}, [500000])
        try:
            ev.call(ev.name(pyfn), [None, None, regs_, mem, st_, None, None], {})
        except (Raised, Unknown):
            continue        # reported above
        base = 0x100000
        got = {a - base: v for a, v in mem.writes.items() if a >= base}
        for off in sorted(set(want) | set(got)):
            nd += 1
            clr, setm = want.get(off, [0, 0])
            v = got.get(off)
            for b_ in range(8):
                doc = "0" if (clr >> b_) & 1 else "1" if (setm >> b_) & 1 else "retained"
                bit = v.bits[b_] if v is not None else None
                act = "retained" if v is None or (isinstance(bit, tuple) and len(bit) == 3 and bit[1] == b_ and not bit[2]) else ("0" if bit == 0 else "1" if bit == 1 else "other")
                if doc != act:
                    ctx.violation("C04.6/intrinsic-doc", key_of(rel, pyfn, f"IMEM 0x{off:02X} bit {b_}: README says {doc}"),
                                  f"{pyfn}: internal register 0x{off:02X} bit {b_} is {act} by the implementation, the README's HALT/OFF/RESET table says {doc}", f"{rel} vs {mdfacts.README}:{tab.line}")
    ctx.instance("C04.6/intrinsic-doc", "HALT/OFF/RESET internal-register bits: README retainment table vs the Python intrinsics (bit provenance)", nd, 8)


# ---------------------------------------------------------------------------
# documented access ranges `(m..m+k)` / `[x..x+k]` vs the widths the IL moves and compares

_RANGE = re.compile(r"\.\.\s*(?:[^\s\]\)]*?)\+\s*(\d)")


def _doc_width(fn_text: str) -> int | None:
    ks = {int(k) for k in _RANGE.findall(fn_text)}
    if len(ks) != 1:
        return None
    return ks.pop() + 1


def _data_accesses(il: list) -> list[tuple[str, int, Any]]:
    """(load|store, width, term) outside address computations."""
    out: list[tuple[str, int, Any]] = []

    def rec(x: Any, in_addr: bool) -> None:
        if isinstance(x, Term):
            if x.ctor in ("load", "store") and not in_addr:
                out.append((x.ctor, x.args[0], x))
            for i, a in enumerate(x.args):
                rec(a, in_addr or (x.ctor in ("load", "store") and i == 1))
        elif isinstance(x, (list, tuple)):
            for a in x:
                rec(a, in_addr)
    rec(il, False)
    return out


def _eff_bits(t: Any, temps: dict) -> int | None:
    """Number of low bits that can be non-zero in an IL value (loads/registers count as full width)."""
    from ..bits import BitVec
    if isinstance(t, Term):
        c = t.ctor
        if c in ("const", "const_pointer"):
            v = ilfacts.value_of(t)
            if isinstance(v, int):
                return v.bit_length()
            return None
        if c == "load":
            return 8 * t.args[0]
        if c == "reg":
            key = repr(t.args[1])
            if key in temps:
                return temps[key]
            return 8 * t.args[0]
        if c == "and_expr":
            a, b = _eff_bits(t.args[1], temps), _eff_bits(t.args[2], temps)
            return None if a is None or b is None else min(a, b)
        if c in ("or_expr", "xor_expr", "add", "sub"):
            a, b = _eff_bits(t.args[1], temps), _eff_bits(t.args[2], temps)
            return None if a is None or b is None else max(a, b)
        if c in ("zero_extend", "low_part"):
            a = _eff_bits(t.args[1], temps)
            return None if a is None else min(a, 8 * t.args[0])
    return None


def access_widths(ctx: Ctx, rows: dict, docs: list, cases: list) -> None:
    by_op: dict[int, list] = collections.defaultdict(list)
    for c in cases:
        by_op[c.opcode].append(c)
    n = 0
    groups: dict[tuple, list] = collections.defaultdict(list)
    for d in docs:
        w = _doc_width(d.function)
        if w is None:
            continue
        for op in sorted(d.opcodes):
            r = rows[op]
            if r.cls in ("MVL", "MVLD", "EXL"):
                continue      # counted block transfers move one byte per iteration
            for c in by_op.get(op, []):
                n += 1
                acc = _data_accesses(c.il_terms)
                widths = sorted({wd for _k, wd, _t in acc})
                if widths and widths != [w]:
                    bad = [f"{k}({wd})" for k, wd, _t in acc if wd != w]
                    groups[("C04.7/access-width", op, d.mnemonic, f"README `{d.function.strip()}` moves {w}-byte operands but the IL has {', '.join(sorted(set(bad)))}")].append(c)
                # flag-setting arithmetic: every memory operand takes part with all documented bits
                temps: dict[str, int] = {}
                for st in c.il_terms:
                    if isinstance(st, Term) and st.ctor == "set_reg" and "TEMP" in repr(st.args[1]):
                        b = _eff_bits(st.args[2], temps)
                        if b is not None:
                            temps[repr(st.args[1])] = b
                for st in c.il_terms:
                    for t in ilfacts.walk(st):
                        if t.ctor in ("sub", "add") and len(t.args) >= 4 and t.args[3] not in (None, "", 0):
                            for operand in t.args[1:3]:
                                if any(x.ctor == "load" for x in ilfacts.walk(operand)):
                                    b = _eff_bits(operand, temps)
                                    if b is not None and b < 8 * w:
                                        groups[("C04.7/operand-bits", op, d.mnemonic, f"README `{d.function.strip()}` compares {8 * w} bits but a memory operand enters the flag-setting {t.ctor} with only {b} significant bits")].append(c)
    for (rule, op, mn, what), cs in sorted(groups.items(), key=lambda kv: (kv[0][0], kv[0][1])):
        r = rows[op]
        ctx.violation(rule, key_of(isa.INSTR_PY, f"opcode 0x{op:02X} {r.cls}", f"{mn.strip()}: {what.split(' but ')[0]}"),
                      f"opcode 0x{op:02X} `{mn.strip()}`: {what} ({len(cs)} cases)", f"{isa.OPTABLE}:{r.ln}", il=cs[0].il[:6])
    ctx.instance("C04.7/access-width", "encodings of README rows with a documented operand range (m..m+k): IL data access widths and compared bits", n, 150)


def flag_pack(ctx: Ctx, rows: dict, cases: list) -> None:
    """F is the byte C | Z<<1: instructions that stack F pack exactly that; instructions that unstack it restore C from bit 0 and Z from bit 1 only."""
    from ..bits import BitVec

    def ev(t: Any, env: dict) -> Any:
        if isinstance(t, Term):
            c = t.ctor
            if c == "const":
                return BitVec.const(ilfacts.value_of(t))
            if c == "flag":
                return env.get("flag:" + repr(t.args[0]))
            if c == "reg":
                return env.get("reg:" + repr(t.args[1]))
            if c in ("and_expr", "or_expr", "xor_expr"):
                a, b = ev(t.args[1], env), ev(t.args[2], env)
                if a is None or b is None:
                    return None
                return {"and_expr": a & b, "or_expr": a | b, "xor_expr": a ^ b}[c]
            if c in ("shift_left", "logical_shift_right"):
                a, b = ev(t.args[1], env), ev(t.args[2], env)
                if a is None or b is None or not b.is_const():
                    return None
                return (a << b.value()) if c == "shift_left" else (a >> b.value())
            if c in ("pop", "load"):
                return env.get("src")
        return None
    n_pack = n_unpack = 0
    cbit, zbit = BitVec.sym("C", 1), BitVec.sym("Z", 1)
    want_pack = (cbit | (zbit << 1)).bits[:8]
    for c in cases:
        r = rows[c.opcode]
        il = c.il_terms
        # pack: a pushed/stored value built from both flags
        for st in il:
            if isinstance(st, Term) and st.ctor in ("push", "store"):
                val = st.args[1] if st.ctor == "push" else st.args[2]
                flags = {repr(t.args[0]) for t in ilfacts.walk(val) if t.ctor == "flag"}
                if {"'C'", "'Z'"} <= flags:
                    n_pack += 1
                    got = ev(val, {"flag:'C'": cbit, "flag:'Z'": zbit})
                    if got is None or list(got.bits[:8]) != list(want_pack):
                        ctx.violation("C04.8/flag-pack", key_of(isa.OPCODES_PY, "RegF.lift", f"{r.cls} stacks F"), f"opcode 0x{c.opcode:02X} ({c.name}) stacks F as {c.il[il.index(st)][:90]}, not as C | Z<<1", f"{isa.OPTABLE}:{r.ln}")
        # unpack: set_flag from a popped/loaded byte held in a temp (POPU F / POPS F / RETI)
        unstacks_f = r.cls == "RETI" or (r.cls.startswith("POP") and r.ops and r.ops[0].ctor == "RegF")
        env: dict = {}
        for st in (il if unstacks_f else []):
            if not isinstance(st, Term):
                continue
            if st.ctor == "set_reg" and isinstance(st.args[2], Term) and st.args[2].ctor in ("pop", "load") and st.args[0] == 1:
                env["reg:" + repr(st.args[1])] = BitVec.sym("f", 8)
            if st.ctor == "set_flag" and env:
                uses = [t for t in ilfacts.walk(st.args[1]) if t.ctor == "reg" and "reg:" + repr(t.args[1]) in env]
                if not uses:
                    continue
                n_unpack += 1
                got = ev(st.args[1], env)
                flag = repr(st.args[0]).strip("'")
                bit = {"C": 0, "Z": 1}.get(flag)
                if got is None or bit is None:
                    raise AnalysisError(f"opcode 0x{c.opcode:02X}: flag restore expression outside the evaluable fragment: {c.il}")
                live = {b for b in got.bits[:8] if b != 0}
                if live != {("f", bit, False)}:
                    from ..bits import show_bit
                    ctx.violation("C04.8/flag-pack", key_of(isa.OPCODES_PY, "RegF.lift_assign", f"{flag} restored from other bits"),
                                  f"opcode 0x{c.opcode:02X} ({c.name}) restores {flag} from [{' '.join(show_bit(b) for b in got.bits[:8])}] of the stacked byte; only bit {bit} may decide it "
                                  f"(a stacked F with other bits set, e.g. 0x04, changes {flag})", f"{isa.OPTABLE}:{r.ln}")
    ctx.instance("C04.8/flag-pack", "instructions stacking F (pack == C | Z<<1) and unstacking F (C from bit 0, Z from bit 1 only)", n_pack + n_unpack, 9)


def decimal_adjust(ctx: Ctx, rows: dict, cases: list, rule: str = "C04.9/decimal-adjust") -> None:
    """Decimal correction: `if X > 9 then T := X + 6 else T := X` must test, adjust and pass through the *same* digit sum X."""
    n = 0
    for c in cases:
        il = c.il_terms
        r = rows[c.opcode]
        for i, st in enumerate(il):
            if not (isinstance(st, Term) and st.ctor == "if_expr" and isinstance(st.args[0], Term) and st.args[0].ctor == "compare_unsigned_greater_than"):
                continue
            cond = st.args[0]
            if ilfacts.value_of(cond.args[2]) != 9:
                continue
            tested = repr(cond.args[1])
            lt, lf = repr(st.args[1]), repr(st.args[2])

            def first_set(label: str) -> Any:
                for j, x in enumerate(il):
                    if isinstance(x, Term) and x.ctor == "LABEL" and repr(x.args[0]) == label:
                        for y in il[j + 1:j + 3]:
                            if isinstance(y, Term) and y.ctor == "set_reg":
                                return y
                return None
            a, b = first_set(lt), first_set(lf)
            if a is None or b is None or repr(a.args[1]) != repr(b.args[1]):
                continue
            n += 1
            # the low-digit correction is decided on the digit sum *including* the carry from the byte below (README: decimal add of
            # the whole multi-byte operand; the Rust bcd_add_byte adds the carry before it compares): 9 + carry must be corrected
            tt = cond.args[1]
            if isinstance(tt, Term) and any(x.ctor == "and_expr" and ilfacts.value_of(x.args[2]) == 15 for x in ilfacts.walk(tt)) and not any(x.ctor == "logical_shift_right" for x in ilfacts.walk(tt)) \
                    and any(x.ctor == "add" for x in ilfacts.walk(tt)) and not any(x.ctor == "flag" for x in ilfacts.walk(tt)):
                ctx.violation(rule, key_of(isa.INSTR_PY, f"opcode 0x{c.opcode:02X} {r.cls}", "low-digit correction decided without the incoming carry"),
                              f"opcode 0x{c.opcode:02X} ({c.name}): the low-digit decimal correction tests `{tested[:90]}` > 9, which leaves out the carry from the previous byte: digits summing to 9 with a carry in give the non-decimal digit A (0999+1 -> 0A00)",
                              f"{isa.OPTABLE}:{r.ln}")
            adj = a.args[2]
            if not (isinstance(adj, Term) and adj.ctor == "add" and ilfacts.value_of(adj.args[2]) == 6):
                continue
            adjusted, passed = repr(adj.args[1]), repr(b.args[2])
            if not (tested == adjusted == passed):
                ctx.violation(rule, key_of(isa.INSTR_PY, f"opcode 0x{c.opcode:02X} {r.cls}", "digit sum tested != digit sum adjusted"),
                              f"opcode 0x{c.opcode:02X} ({c.name}): the decimal correction tests `{tested[:90]}` > 9 but adds 6 to `{adjusted[:90]}`: a digit sum of exactly 9 plus an incoming carry is left uncorrected (or a sum below 10 is corrected)",
                              f"{isa.OPTABLE}:{r.ln}")
    ctx.instance(rule, "decimal-correction diamonds (test > 9 / +6 / pass through) using one and the same digit sum", n, 4)


def _loop_body(il: list) -> tuple[int, int] | None:
    """(first, last) statement indices of the counted loop body: from the statement after the label that a later
    conditional branch jumps back to, up to that branch (the back edge).  Found by shape, not by how the
    branch condition is spelled."""
    labels = {repr(st.args[0]): i for i, st in enumerate(il) if isinstance(st, Term) and st.ctor == "LABEL"}
    best = None
    for j, st in enumerate(il):
        if not (isinstance(st, Term) and st.ctor == "if_expr"):
            continue
        for tgt in st.args[1:3]:
            i = labels.get(repr(tgt))
            if i is not None and i < j and (best is None or j - i > best[1] - best[0]):
                best = (i + 1, j)
    return best


def counted_bodies(ctx: Ctx, rows: dict, cases: list, prefix: str = "C04.10") -> None:
    """Inside the loop of a counted instruction (README: `Loop I times: (m++) ...`):
       L1 every data access goes through an address that changes in the loop body (otherwise the same cell is processed I times)
       L2 an address temporary is stepped by exactly one byte; the only wrap masks are 0xFF (internal, rebased on 0x100000) and 0xFFFFF
       L3 a register rendered with `++` / `--` is written inside the loop body (once per byte), not only before or after it"""
    n = 0
    groups: dict[tuple, list] = collections.defaultdict(list)
    for c in cases:
        il = c.il_terms
        lb = _loop_body(il)
        if lb is None:
            continue
        r = rows[c.opcode]
        body = il[lb[0]:lb[1]]
        written = set()
        for st in body:
            for t in ilfacts.walk(st):
                if t.ctor == "set_reg":
                    written.add(repr(t.args[1]))
        # L1
        for kind, _w, t in _data_accesses(body):
            n += 1
            addr = t.args[1]
            regs = {repr(x.args[1]) for x in ilfacts.walk(addr) if x.ctor == "reg"} if isinstance(addr, Term) else set()
            if not (regs & written):
                groups[(prefix + "/loop-invariant-address", c.opcode, f"{kind} at a fixed address inside the I-loop")].append(c)
        # L2
        for st in body:
            if not (isinstance(st, Term) and st.ctor == "set_reg" and "TEMP" in repr(st.args[1]) and st.args[0] == 3):
                continue
            me = repr(st.args[1])
            val = st.args[2]
            if not any(x.ctor == "reg" and repr(x.args[1]) == me for x in ilfacts.walk(val)):
                continue          # not a self-update
            n += 1
            consts = sorted({ilfacts.value_of(x) for x in ilfacts.walk(val) if x.ctor in ("const", "const_pointer") and isinstance(ilfacts.value_of(x), int)})
            masks = [m for m in consts if m not in (1, 0x100000)]
            ok = 1 in consts and all(m in (0xFF, 0xFFFFF) for m in masks) and ((0xFF in masks) == (0x100000 in consts))
            if not ok:
                groups[(prefix + "/loop-step", c.opcode, f"address temporary stepped with constants {[hex(m) for m in consts]} (expected +-1 with wrap 0xFF@0x100000 or 0xFFFFF)")].append(c)
        # L3
        toks = c.tokens
        for i, (k, t) in enumerate(toks):
            if k == "TText" and t in ("++", "--"):
                reg = None
                if t == "++" and i > 0 and toks[i - 1][0] == "TReg":
                    reg = toks[i - 1][1]
                if t == "--" and i + 1 < len(toks) and toks[i + 1][0] == "TReg":
                    reg = toks[i + 1][1]
                if reg is None:
                    continue
                n += 1
                if f"'{reg}'" not in written:
                    anywhere = any(t2.ctor == "set_reg" and repr(t2.args[1]) == f"'{reg}'" for st in il for t2 in ilfacts.walk(st))
                    groups[(prefix + "/loop-autoinc", c.opcode, f"[{reg}{t}] is not updated inside the loop body ({'only outside it' if anywhere else 'never written'}): {reg} ends at most one step away instead of I steps")].append(c)
        # L4: the byte count I is unsigned: no signed comparison may involve it
        for st in il:
            for t in ilfacts.walk(st):
                if t.ctor.startswith("compare_signed") and any(x.ctor == "reg" and repr(x.args[1]) == "'I'" for x in ilfacts.walk(t)):
                    n += 1
                    groups[(prefix + "/loop-count-signed", c.opcode, f"{t.ctor} on the byte count I")].append(c)
    for (rule, op, what), cs in sorted(groups.items(), key=lambda kv: (kv[0][0], kv[0][1])):
        r = rows[op]
        ctx.violation(rule, key_of(isa.INSTR_PY, f"opcode 0x{op:02X} {r.cls}", what.split(" (")[0]),
                      f"opcode 0x{op:02X} ({r.name}): {what} ({len(cs)} cases); text `{''.join(t for _k, t in cs[0].tokens)}`", f"{isa.OPTABLE}:{r.ln}", il=cs[0].il[:8])
    ctx.instance(prefix + "/counted-bodies", "data accesses / address steps / auto-modify registers inside I-counted loops", n, 120)


def carry_chain(ctx: Ctx, rows: dict, cases: list) -> None:
    """With-carry arithmetic: a flag-setting add/sub of width w must not take `add(w, x, flag C)` as an operand - that inner sum wraps at
    the same width and its carry is lost (x = all ones, C = 1 gives 0 and no carry)."""
    n = 0
    groups: dict[tuple, list] = collections.defaultdict(list)
    for c in cases:
        for st in c.il_terms:
            for t in ilfacts.walk(st):
                if t.ctor in ("add", "sub") and len(t.args) >= 4 and t.args[3] not in (None, "", 0):
                    n += 1
                    w = t.args[0]
                    for pos, operand in enumerate(t.args[1:3]):
                        if isinstance(operand, Term) and operand.ctor == "add" and operand.args[0] == w and any(x.ctor == "flag" for x in ilfacts.walk(operand)):
                            groups[(rows[c.opcode].cls, t.ctor, pos)].append(c)
    for (cls, op, pos), cs in sorted(groups.items()):
        ops = sorted({c.opcode for c in cs})
        r = rows[ops[0]]
        which = "operand" if pos == 1 else "destination"
        ctx.violation("C04.11/carry-chain", key_of(isa.INSTR_PY, cls, f"{op} of ({which} + C) at the operand width"),
                      f"{cls} (opcodes {[hex(o) for o in ops[:8]]}): the flag-setting {op} takes `{which} + C` computed at the same width as its {'second' if pos == 1 else 'first'} input; "
                      f"with operand = all ones and C = 1 that sum wraps to 0 and the carry/borrow out is lost", f"{isa.OPTABLE}:{r.ln}", il=cs[0].il[:3])
    ctx.instance("C04.11/carry-chain", "flag-setting add/sub terms inspected for a same-width `x + C` operand", n, 150)


def _entry_form(il: list) -> tuple[dict, dict] | None:
    """Straight-line IL rewritten over the register values at instruction entry: every register read is replaced by the
    expression last assigned to it (or left as the entry value).  Returns (final register expressions, flag expressions);
    None when the IL branches."""
    env: dict[str, Any] = {}
    flags: dict[str, Any] = {}

    def sub(t: Any) -> Any:
        if isinstance(t, Term):
            if t.ctor == "reg":
                k = repr(t.args[1])
                return env.get(k, Term("entry", (t.args[1],), {}))
            return Term(t.ctor, tuple(sub(a) for a in t.args), dict(t.kwargs))
        return t
    for st in il:
        if not isinstance(st, Term):
            continue
        if st.ctor in ("LABEL", "if_expr", "goto", "jump", "call", "ret"):
            return None
        if st.ctor == "set_reg":
            env[repr(st.args[1])] = sub(st.args[2])
        elif st.ctor == "set_flag":
            flags[str(st.args[0])] = sub(st.args[1])
    return env, flags


def _strip_mask(t: Any) -> tuple[Any, int | None]:
    """and_expr(w, X, const m) [nested, same m] -> (X, m)"""
    m = None
    while isinstance(t, Term) and t.ctor == "and_expr" and isinstance(ilfacts.value_of(t.args[2]), int):
        m = ilfacts.value_of(t.args[2])
        t = t.args[1]
    return t, m


def explicit_carry(ctx: Ctx, rows: dict, cases: list) -> None:
    """Where an add/subtract computes C by an explicit comparison (the 20-bit register pairs): with the destination
    D = (A - B) & m, C must be the borrow of the *entry* operands, B >u A (or A <u B); with D = (A + B) & m, C must be
    the carry out of the masked sum, (A + B) >u m (or D <u A / D <u B).  Anything comparing against a value that was
    already overwritten computes the flag of a different subtraction."""
    n = 0
    groups: dict[tuple, list] = collections.defaultdict(list)
    for c in cases:
        r = rows[c.opcode]
        if r.cls not in ("ADD", "SUB", "ADC", "SBC"):
            continue
        if not any(isinstance(t, Term) and t.ctor == "set_flag" and str(t.args[0]) == "C" for t in c.il_terms):
            continue
        ef = _entry_form(c.il_terms)
        ctx.need(ef is not None, f"opcode 0x{c.opcode:02X}: explicit carry in branching IL is outside the evaluable fragment")
        env, flags = ef
        dests = [v for k, v in env.items() if "TEMP" not in k]
        ctx.need(len(dests) == 1, f"opcode 0x{c.opcode:02X}: explicit-carry arithmetic writes {len(dests)} architectural registers")
        core, m = _strip_mask(dests[0])
        ctx.need(isinstance(core, Term) and core.ctor in ("add", "sub") and m is not None,
                 f"opcode 0x{c.opcode:02X}: destination of explicit-carry arithmetic is not a masked add/sub: {repr(dests[0])[:120]}")
        a, b = core.args[1], core.args[2]
        cexp = flags["C"]
        n += 1
        ok = False
        if isinstance(cexp, Term) and cexp.ctor in ("compare_unsigned_greater_than", "compare_unsigned_less_than"):
            x, y = cexp.args[1], cexp.args[2]
            if cexp.ctor == "compare_unsigned_less_than":
                x, y = y, x          # now: x >u y
            if core.ctor == "sub":
                ok = (x == b and y == a)
            else:
                ok = (x == core and ilfacts.value_of(y) == m) or (y == dests[0] and x in (a, b)) or (_strip_mask(y)[0] == core and _strip_mask(y)[1] == m and x in (a, b))
        if not ok:
            want = "B >u A over the entry operands" if core.ctor == "sub" else "(A + B) >u mask"
            groups[(c.opcode, f"C is not {want}")].append((c, repr(cexp)))
    for (op, what), cs in sorted(groups.items()):
        r = rows[op]
        ctx.violation("C04.12/explicit-carry", key_of(isa.INSTR_PY, f"opcode 0x{op:02X} {r.cls}", what),
                      f"opcode 0x{op:02X} ({r.name}): {what}: over the values at instruction entry C is `{cs[0][1][:260]}` ({len(cs)} cases)",
                      f"{isa.OPTABLE}:{r.ln}", il=cs[0][0].il[:8])
    ctx.instance("C04.12/explicit-carry", "add/subtract encodings computing C by explicit comparison: borrow/carry of the entry operands", n, 100)


def zero_accumulator(ctx: Ctx, rows: dict, cases: list) -> None:
    """Counted instructions whose Z is `accumulator == 0` after the loop (README: Z set when the whole multi-byte *result* is zero):
    inside the loop body the accumulator is OR-ed with a term W that stands for the byte *stored* in that iteration - either the
    stored term itself evaluated in the same state (no register it reads is written between the two statements), or a term evaluated
    after the store that re-loads the stored cell before the address moves.  A W taken from the operands before the operation
    (the loaded byte) gives Z of the *inputs*."""
    n = 0
    groups: dict[tuple, list] = collections.defaultdict(list)
    for c in cases:
        il = c.il_terms
        lb = _loop_body(il)
        if lb is None:
            continue
        accs = set()
        for st in il[lb[1]:]:
            if isinstance(st, Term) and st.ctor == "set_flag" and repr(st.args[0]) == "'Z'":
                v = st.args[1]
                if isinstance(v, Term) and v.ctor == "compare_equal" and isinstance(v.args[1], Term) and v.args[1].ctor == "reg" and "TEMP" in repr(v.args[1].args[1]) and ilfacts.value_of(v.args[2]) == 0:
                    accs.add(repr(v.args[1].args[1]))
        if not accs:
            continue
        body = list(enumerate(il[lb[0]:lb[1]]))
        stores = [(i, st) for i, st in body if isinstance(st, Term) and st.ctor == "store"]

        def written_between(a: int, b: int, regs: set) -> bool:
            lo, hi = (a, b) if a < b else (b, a)
            return any(isinstance(st, Term) and st.ctor == "set_reg" and repr(st.args[1]) in regs for i, st in body if lo < i < hi)

        for acc in sorted(accs):
            n += 1
            ups = [(i, st) for i, st in body if isinstance(st, Term) and st.ctor == "set_reg" and repr(st.args[1]) == acc]
            if not ups:
                groups[("C04.14/zero-accumulator", c.opcode, "Z is taken from an accumulator the loop body never updates")].append(c)
                continue
            for i, st in ups:
                v = st.args[2]
                ws = [a for a in v.args[1:] if not (isinstance(a, Term) and a.ctor == "reg" and repr(a.args[1]) == acc)] if isinstance(v, Term) and v.ctor == "or_expr" else []
                if len(ws) != 1:
                    groups[("C04.14/zero-accumulator", c.opcode, "the Z accumulator is not updated as `acc | <stored byte>`")].append(c)
                    continue
                w = ws[0]
                wregs = {repr(x.args[1]) for x in ilfacts.walk(w) if x.ctor == "reg"} if isinstance(w, Term) else set()
                ok = False
                for j, s_ in stores:
                    addr, val = s_.args[1], s_.args[2]
                    if repr(val) == repr(w) and not written_between(i, j, wregs) and not (i > j and any(x.ctor == "load" for x in ilfacts.walk(w))):
                        ok = True
                    aregs = {repr(x.args[1]) for x in ilfacts.walk(addr) if x.ctor == "reg"} if isinstance(addr, Term) else set()
                    if i > j and isinstance(w, Term) and any(x.ctor == "load" and repr(x.args[1]) == repr(addr) for x in ilfacts.walk(w)) and not written_between(j, i, aregs):
                        ok = True
                if not ok:
                    groups[("C04.14/zero-accumulator", c.opcode, "the Z accumulator collects a term that is not the byte stored in that iteration (Z would describe the operands, not the result)")].append(c)
    for (rule, op, what), cs in sorted(groups.items(), key=lambda kv: (kv[0][0], kv[0][1])):
        r = rows[op]
        ctx.violation(rule, key_of(isa.INSTR_PY, f"opcode 0x{op:02X} {r.cls}", what.split(" (")[0]),
                      f"opcode 0x{op:02X} ({r.name}): {what} ({len(cs)} cases)", f"{isa.OPTABLE}:{r.ln}", il=cs[0].il[:12])
    ctx.instance("C04.14/zero-accumulator", "counted encodings whose Z is an accumulator test: the accumulator collects the stored byte of each iteration", n, 8)
