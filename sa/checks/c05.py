"""C05 - branch metadata given to Binary Ninja matches where execution actually goes.

Decides, per control-flow encoding (abstract sweep: operand bytes symbolic, selector enumerated, prefixes included):
  1 ANALYZE<->LIFT  the branch list added by analyze() corresponds to the jump/call/ret constructs of the lifted IL: same kind,
                    a constant target is reported iff the IL target is a constant, and the two target formulas are the same
                    bit-vector / linear expression (page rule `value | addr & 0xFF0000`, relative `addr + len +- n`); the false branch
                    is addr + length; a near call pushes addr + length
  2 EXHAUSTIVE      every instruction whose IL contains a jump/call/ret reports at least one branch (software interrupt exempt);
                    every instruction without one reports none
  3 SEQ-PAIR        CALL pushes 2 <-> RET pops 2 and merges the *current* page; CALLF <-> RETF 3 bytes; Rust arms use the same widths
  4 SIBLING         Rust JpAbs/Call/Ret/JpRel target formulas equal the Python ones (bit-vector comparison of the folded expressions)
  5 WHO-MAY         PC is set to address + length before IL evaluation on both emulator paths
  6 PAGE-EDGE       clauses 1 and 4 again for an instruction straddling a 64 KiB page boundary
  7 IRQ-FRAME       IR pushes PC3,F1,IMR1 as they were before the instruction (no pushed value is read after being overwritten); RETI mirrors
  8 MEMO            get_instruction_info is not memoised under a key without the address
"""
from __future__ import annotations

import ast
import collections
from typing import Any

from .. import ilfacts, isa
from ..bits import BitVec, Lin
from ..core import REPO, AnalysisError, Ctx
from ..isa_abs import ASSUMPTIONS
from ..isa_sweep import ADDR, sweep
from ..pyfacts import PyProgram, Term, attr_chain, unparse
from ..rsfacts import NotConst as RsNotConst
from ..rsfacts import RsInterp, RustProgram, expr_text, walk
from ..rules import key_of

LEVEL = "other"
EXPLANATION = (
    "For every accepted encoding produced by the abstract sweep the branch metadata (analyze) and the lifted IL (lift) of the same decoded "
    "instruction object are compared: kinds, constness and target formulas as bit-provenance vectors / linear expressions over the symbolic "
    "operand bytes. The Rust control-flow arms are folded with the same symbolic inputs and compared. Call/return frame widths are paired."
)
TRUSTED = ["CPython ast / syn", "sa/absint.py + sa/bits.py", *ASSUMPTIONS]
CLAIM = ("Decides for all branch/call/return encodings (targets symbolic) that the static branch facts and the lifted control transfer denote the same target formula and kind, "
         "that nothing that can transfer control reports no branch, and that call/return frames pair up in both cores.")
NOTE = "One concrete instruction address is used (0x12345); the target formulas are linear/bitwise in the address, so agreement of the formulas is what is decided, not every address value."
TECHNIQUE = "abstract-interpretation comparison of analyze() vs lift() target formulas + Rust arm folding + frame pairing"


def run(ctx: Ctx) -> None:
    py = PyProgram()
    rs = RustProgram()
    for f in (isa.OPTABLE, isa.OPCODES_PY, isa.INSTR_PY, isa.EMU_PY):
        ctx.file_used(REPO / f)
    ctx.file_used(REPO / rs.file_for(isa.EVAL_RS))
    for a in ASSUMPTIONS:
        ctx.assume(a)
    base, pre, _u = sweep(stages=("analyze", "lift"), with_prefixes="reps")
    rows = isa.py_rows(py)
    analyze_vs_lift(ctx, rows, [c for c in base + pre if c.status == "ok" and not c.analyze_exc and not c.lift_exc])
    frames(ctx, rows, base, rs)
    rust_formulas(ctx, py, rs, rows, base)
    # the same comparisons at an address whose instruction straddles a 64 KiB page boundary (page rules, wrap-around)
    from ..isa_sweep import Sweeper
    sw = Sweeper()
    edge = []
    for op, r in sorted(rows.items()):
        if r.cls in ("JP_Abs", "JP_Rel", "CALL", "RET", "RETF", "RETI"):
            for sel in ([None] if not any(c.opcode == op and c.selector is not None for c in base) else [c.selector for c in base if c.opcode == op and c.status == "ok"][:4]):
                c = sw.run_case(None, op, sel, ("analyze", "lift"), addr=EDGE_ADDR)
                if c.status == "ok" and not c.analyze_exc and not c.lift_exc:
                    edge.append(c)
    analyze_vs_lift(ctx, rows, edge, addr=EDGE_ADDR, tag="@page-edge")
    rust_formulas(ctx, py, rs, rows, edge, addr=EDGE_ADDR, tag="@page-edge")
    pc_update(ctx, py)
    from ..memo import memo_findings
    fn = py.func(isa.ARCH_PY, "SC62015.get_instruction_info")
    ctx.file_used(REPO / isa.ARCH_PY)
    for ln, what in memo_findings(py.module(isa.ARCH_PY), fn, ("data", "addr")):
        ctx.violation("C05.6/memo", key_of(isa.ARCH_PY, "SC62015.get_instruction_info", "branch info remembered across calls"), what + " - branch targets depend on the address", f"{isa.ARCH_PY}:{ln}")
    ctx.instance("C05.6/memo", "get_instruction_info computes branch info from (data, addr) of this call only", 1, 1)


def _has_cond(il: list, idx: int) -> Term | None:
    """The if_expr guarding statement idx (the jump), if any: pattern if_expr(c, Lt, Lf); LABEL Lt; jump; LABEL Lf."""
    for st in il[:idx]:
        if isinstance(st, Term) and st.ctor == "if_expr":
            return st
    return None


EDGE_ADDR = 0x2FFFE


def analyze_vs_lift(ctx: Ctx, rows: dict, cases: list, addr: int = ADDR, tag: str = "") -> None:
    ADDR = addr  # noqa: N806 - shadows the module constant for the comparisons below
    n = 0
    groups: dict[tuple, list] = collections.defaultdict(list)
    ctrl_ops = set()
    for c in cases:
        il = c.il_terms
        tr = ilfacts.transfers(il)
        br = c.branches
        n += 1
        r = rows[c.opcode]
        is_ir = r.cls == "IR"
        is_reset = r.cls == "RESET"
        if not tr:
            if is_reset:
                if [k for k, _t in br] != ["UnresolvedBranch"]:
                    groups[("C05.2/reports-branch", c.opcode, f"RESET reports {br}")].append(c)
                continue
            if br:
                groups[("C05.2/no-branch", c.opcode, f"IL has no jump/call/ret but analyze reports {[k for k, _t in br]}")].append(c)
            continue
        ctrl_ops.add(c.opcode)
        if is_ir:
            # software interrupt: counts as a call that returns to address+length; its destination is read from the vector, so a
            # constant destination may not be claimed for it
            kind_, target_, _idx = tr[-1]
            if ilfacts.value_of(target_) is None:
                consts = [(k, t) for k, t in br if t is not None]
                if consts:
                    groups[("C05.1/const-target", c.opcode, f"IL transfers control through {_term(target_)} (the interrupt vector's contents) but analyze reports {consts[0][0]} to the constant {_s(consts[0][1])}")].append(c)
            continue
        if not br:
            groups[("C05.2/reports-branch", c.opcode, f"IL transfers control ({[k for k, _t, _i in tr]}) but analyze reports no branch")].append(c)
            continue
        kind, target, idx = tr[-1]
        kinds = [k for k, _t in br]
        tv = ilfacts.value_of(target)
        if kind == "ret":
            if kinds != ["FunctionReturn"]:
                groups[("C05.1/kind", c.opcode, f"IL returns but analyze reports {kinds}")].append(c)
            continue
        if kind == "call":
            if kinds != ["CallDestination"]:
                groups[("C05.1/kind", c.opcode, f"IL calls but analyze reports {kinds}")].append(c)
            elif not ilfacts.same_value(tv, _bv(br[0][1])):
                groups[("C05.1/target", c.opcode, f"call target: IL {_s(tv)} vs analyze {_s(br[0][1])}")].append(c)
            continue
        # jump
        pushes = [st for st in il[:idx] if isinstance(st, Term) and st.ctor == "push"]
        cond = _has_cond(il, idx)
        if pushes and not cond:
            # near call: push return address then jump
            if kinds != ["CallDestination"]:
                groups[("C05.1/kind", c.opcode, f"IL push+jump (near call) but analyze reports {kinds}")].append(c)
            else:
                if not ilfacts.same_value(tv, _bv(br[0][1])):
                    groups[("C05.1/target", c.opcode, f"near call target: IL {_s(tv)} vs analyze {_s(br[0][1])}")].append(c)
                rv = ilfacts.value_of(pushes[-1].args[1])
                if not ilfacts.same_value(rv, ADDR + c.length):
                    groups[("C05.1/return-address", c.opcode, f"near call pushes {_s(rv)}, expected address+length {ADDR + c.length:#x}")].append(c)
                if pushes[-1].args[0] != 2:
                    groups[("C05.3/frame", c.opcode, f"near call pushes {pushes[-1].args[0]} bytes")].append(c)
            continue
        if cond is None:
            want_kind = "UnconditionalBranch"
            if tv is None:
                # indirect: analyze must not claim a constant target
                consts = [(k, t) for k, t in br if t is not None]
                if consts:
                    groups[("C05.1/const-target", c.opcode, f"IL jumps through {_term(target)} (not a constant) but analyze reports {consts[0][0]} to the constant {_s(consts[0][1])}")].append(c)
                elif not kinds:
                    groups[("C05.2/reports-branch", c.opcode, "indirect jump reports no branch")].append(c)
                continue
            if kinds != [want_kind]:
                groups[("C05.1/kind", c.opcode, f"unconditional jump but analyze reports {kinds}")].append(c)
            elif not ilfacts.same_value(tv, _bv(br[0][1])):
                groups[("C05.1/target", c.opcode, f"jump target: IL {_s(tv)} vs analyze {_s(br[0][1])}")].append(c)
            continue
        # conditional
        d = dict(br)
        if set(kinds) != {"TrueBranch", "FalseBranch"}:
            if tv is None and set(kinds) == {"FalseBranch"}:
                groups[("C05.2/reports-branch", c.opcode, "conditional indirect jump reports only the false branch")].append(c)
            else:
                groups[("C05.1/kind", c.opcode, f"conditional jump but analyze reports {kinds}")].append(c)
            continue
        if not ilfacts.same_value(tv, _bv(d["TrueBranch"])):
            groups[("C05.1/target", c.opcode, f"taken target: IL {_s(tv)} vs analyze {_s(d['TrueBranch'])}")].append(c)
        if not ilfacts.same_value(d["FalseBranch"], ADDR + c.length):
            groups[("C05.1/fallthrough", c.opcode, f"false branch {_s(d['FalseBranch'])} != address+length {ADDR + c.length:#x}")].append(c)
        # condition flag/polarity vs the row's cond
        cnd = cond.args[0]
        ctxt = repr(cnd)
        rc = r.cond or ""
        flag = "Z" if "Z" in rc else "C"
        val = 0 if "N" in rc else 1
        if not (cnd.ctor == "compare_equal" and repr(cnd.args[1]) == f"flag('{flag}')" and ilfacts.value_of(cnd.args[2]) == val):
            groups[("C05.1/condition", c.opcode, f"condition {rc}: IL tests {ctxt}")].append(c)
        # the IL layout: true label directly before the jump, false label after it
        if not (isinstance(il[idx - 1], Term) and il[idx - 1].ctor == "LABEL" and repr(il[idx - 1].args[0]) == repr(cond.args[1])
                and idx + 1 < len(il) and il[idx + 1].ctor == "LABEL" and repr(il[idx + 1].args[0]) == repr(cond.args[2])):
            groups[("C05.1/condition", c.opcode, "taken/false labels are not placed around the jump")].append(c)
    for (rule, op, what), cs in sorted(groups.items(), key=lambda kv: (kv[0][0], kv[0][1])):
        r = rows[op]
        stable = what.split(":")[0] if rule.endswith("/target") else ("indirect jump reported with a constant target" if rule.endswith("const-target") else what)
        ctx.violation(rule, key_of(isa.INSTR_PY, f"opcode 0x{op:02X} {r.cls}", stable),
                      f"opcode 0x{op:02X} ({r.name}): {what} ({len(cs)} cases)", f"{isa.OPTABLE}:{r.ln}")
    if tag:
        ctx.instance("C05.1-2/analyze-vs-lift" + tag, f"control-flow encodings re-run at address {addr:#x} (instruction straddles a page boundary)", n, 20)
        return
    ctx.instance("C05.1-2/analyze-vs-lift", "accepted cases: branch kinds/targets vs IL transfers (incl. prefixed forms)", n, 7000)
    ctx.instance("C05.2/control-rows", "opcodes whose IL transfers control", len(ctrl_ops), 24)
    for c in cases:
        if c.pre is None and c.opcode in (0x02, 0x14, 0x19, 0x04) and c.selector is None:
            ctx.sample({"opcode": hex(c.opcode), "name": c.name, "branches": [(k, _s(t)) for k, t in c.branches], "il": c.il})


def _bv(t: Any) -> Any:
    return t


def _s(v: Any) -> str:
    if isinstance(v, BitVec):
        from ..isa_sweep import bits_str
        return bits_str(v, 24)
    return repr(v) if not isinstance(v, int) else hex(v)


def _term(t: Any) -> str:
    from ..isa_sweep import il_str
    return il_str(t)[:80]


# ---------------------------------------------------------------------------
def stale_pushes(il: list) -> list[str]:
    """pushes whose value reads a register / flag / memory cell that an earlier statement of the same instruction already wrote"""
    out = []
    for i, st in enumerate(il):
        if not (isinstance(st, Term) and st.ctor == "push"):
            continue
        reads = {repr(t.args[1]) for t in ilfacts.walk(st.args[1]) if t.ctor == "load"} | {repr(t.args[1]) for t in ilfacts.walk(st.args[1]) if t.ctor == "reg"} | {repr(t.args[0]) for t in ilfacts.walk(st.args[1]) if t.ctor == "flag"}
        for j, prev in enumerate(il[:i]):
            if not isinstance(prev, Term):
                continue
            wrote = repr(prev.args[1]) if prev.ctor == "store" else repr(prev.args[1]) if prev.ctor == "set_reg" else repr(prev.args[0]) if prev.ctor == "set_flag" else None
            if wrote is not None and wrote in reads:
                out.append(f"IR pushes {_term(st.args[1])} after statement {j} of the same instruction already wrote {wrote}: the frame holds the new value, RETI cannot restore the old one")
    return out


def frames(ctx: Ctx, rows: dict, base: list, rs: RustProgram) -> None:
    by = {c.opcode: c for c in base if c.selector is None and c.status == "ok"}
    n = 0

    def pops(il: list) -> list[int]:
        return [t.args[0] for st in il for t in ilfacts.walk(st) if t.ctor == "pop"]
    near, far, ret, retf = by[0x04], by[0x05], by[0x06], by[0x07]
    n += 4
    push_near = [st.args[0] for st in near.il_terms if isinstance(st, Term) and st.ctor == "push"]
    if push_near != [2] or pops(ret.il_terms) != [2]:
        ctx.violation("C05.3/frame", "CALL/RET widths", f"CALL pushes {push_near}, RET pops {pops(ret.il_terms)}", isa.INSTR_PY)
    if [t.ctor for t in far.il_terms] != ["call"] or pops(retf.il_terms) != [3]:
        ctx.violation("C05.3/frame", "CALLF/RETF widths", f"CALLF IL {[t.ctor for t in far.il_terms]}, RETF pops {pops(retf.il_terms)}", isa.INSTR_PY)
    # RET merges the *current* page: or_expr(pop(2), and_expr(reg PC, 0xFF0000))
    tgt = ret.il_terms[-1].args[0]
    ok = isinstance(tgt, Term) and tgt.ctor == "or_expr" and any(isinstance(a, Term) and a.ctor == "and_expr" and repr(a.args[1]) == "reg(3, 'PC')" and ilfacts.value_of(a.args[2]) == 0xFF0000 for a in tgt.args)
    if not ok:
        ctx.violation("C05.3/ret-page", "RET target", f"RET target {_term(tgt)} does not merge the current page", isa.INSTR_PY)
    # RETF resumes at the popped 3-byte address itself: no page of the *callee* may be merged into it
    n += 1
    ftgt = retf.il_terms[-1].args[0] if retf.il_terms and isinstance(retf.il_terms[-1], Term) and retf.il_terms[-1].ctor == "ret" else None
    if ftgt is None or any(t.ctor == "reg" for t in ilfacts.walk(ftgt)) or not any(t.ctor == "pop" and t.args[0] == 3 for t in ilfacts.walk(ftgt)):
        ctx.violation("C05.3/retf-target", "RETF target", f"RETF returns to {_term(ftgt) if ftgt is not None else 'nothing'}: a far return must resume at the popped 20-bit address, not at one merged with the current page", isa.INSTR_PY)
    # Rust arms
    ev = rs.evaluator(isa.EVAL_RS)
    for kind, fnname, want in (("Ret", "pop_stack", [16]), ("RetF", "pop_stack", [24])):
        arm = isa.rs_arm_for(rs, kind)
        n += 1
        got = [ev.eval(c["args"][3]) for c in walk(arm["body"]) if c.get("k") == "call" and expr_text(c["f"]).endswith(fnname)]
        if got != want:
            ctx.violation("C05.3/frame", f"rust {kind} pops", f"Rust {kind} pops {got} bits, expected {want}", f"{rs.file_for(isa.EVAL_RS)}:{arm['ln']}")
    arm = isa.rs_arm_for(rs, "Call")
    n += 1
    widths = []
    for bits, op_ in ((16, 0x04), (24, 0x05)):
        # the arm is interpreted up to set_pc; the width it pushed the return address with is read off the push it performed
        _tgt, log_ = _arm_target(rs, "Call", op_, {"imm": ("some", (BitVec.sym("t", 24), bits)), "mem": None, "mem2": None, "reg3": None, "len": 3 if bits == 16 else 4}, ADDR)
        pushes_ = [a_ for m_, a_ in log_ if m_ == "push_stack"]
        widths.append(int(pushes_[0][2]) if len(pushes_) == 1 else None)
    if widths != [16, 24]:
        ctx.violation("C05.3/frame", "rust Call push widths", f"Rust CALL pushes {widths} bits for 16/20-bit targets", f"{rs.file_for(isa.EVAL_RS)}:{arm['ln']}")
    # software interrupt frame: IR pushes PC(3), F(1), IMR(1) as they were *before* the instruction; RETI pops them back in reverse
    ir = next((c for c in base if rows[c.opcode].cls == "IR" and c.status == "ok"), None)
    reti = next((c for c in base if rows[c.opcode].cls == "RETI" and c.status == "ok"), None)
    if ir is None or reti is None:
        raise AnalysisError("IR / RETI rows not found")
    pushes = [(i, st) for i, st in enumerate(ir.il_terms) if isinstance(st, Term) and st.ctor == "push"]
    n += 1
    if [st.args[0] for _i, st in pushes] != [3, 1, 1] or pops(reti.il_terms) != [1, 1, 3]:
        ctx.violation("C05.3/irq-frame", "IR/RETI widths", f"IR pushes {[st.args[0] for _i, st in pushes]} bytes, RETI pops {pops(reti.il_terms)}; expected 3,1,1 and 1,1,3", isa.INSTR_PY)
    for i, st in pushes:
        n += 1
    for what in stale_pushes(ir.il_terms):
        ctx.violation("C05.3/irq-frame", key_of(isa.INSTR_PY, "IR.lift", "pushed value read after it was overwritten"), what, isa.INSTR_PY)
    # correspondence of the saved items: third push loads the cell RETI's first pop stores to; second push packs C/Z, RETI's second pop unpacks them
    n += 1
    st_imr = [repr(t.args[1]) for st in reti.il_terms[:1] for t in [st] if isinstance(st, Term) and st.ctor == "store" and any(x.ctor == "pop" for x in ilfacts.walk(st.args[2]))]
    ld_imr = [repr(t.args[1]) for t in ilfacts.walk(pushes[2][1].args[1]) if t.ctor == "load"] if len(pushes) == 3 else []
    if not st_imr or st_imr != ld_imr:
        ctx.violation("C05.3/irq-frame", "IR/RETI IMR slot", f"IR's third push reads {ld_imr}, RETI's first pop is stored to {st_imr}", isa.INSTR_PY)
    ctx.instance("C05.3/frames", "CALL/RET 2 bytes, CALLF/RETF 3 bytes, RET merges the current page; Rust arm widths; IR/RETI frame order, widths and old-value capture; RETF target", n, 13)


class _StopAtSetPc(Exception):
    def __init__(self, v: Any):
        self.v = v


class _AddrLin(Lin):
    """A linear address expression on which masking with the 20-bit address mask is the identity (wrap-around is not modelled on
    either side of the comparison)."""

    def __and__(self, o: Any) -> Any:
        if isinstance(o, int) and o == 0xFFFFF:
            return self
        return Lin.__and__(self, o)
    __rand__ = __and__

    def __add__(self, o: Any) -> "Lin":
        r = Lin.__add__(self, o)
        return _AddrLin(r.c, r.terms)
    __radd__ = __add__


_STATE = ("host", "state")
_BUS = ("host", "bus")


class _ArmInterp(RsInterp):
    """Runs one `InstrKind` arm of LlamaExecutor::execute_with up to its first `state.set_pc(..)`: the decoded operands are supplied
    symbolically, the machine state is a host stand-in.  No local of the arm is referred to by name."""

    def __init__(self, rs: RustProgram, decoded: dict, pc: int):
        super().__init__(rs, isa.EVAL_RS)
        self.decoded, self.pc, self.log = decoded, pc, []

    def mcall_hook(self, recv: Any, m: str, args: list, env: dict, e: dict) -> Any:
        if recv == _STATE:
            if m == "pc":
                return self.pc
            if m == "set_pc":
                raise _StopAtSetPc(args[0])
            if m == "get_reg":
                return BitVec.sym("reg", 24)
            self.log.append((m, args))
            return None
        if m == "decode_with_prefix":
            return ("okv", self.decoded)
        if recv == _BUS and m == "load":
            return BitVec.sym("mem", 24)
        if m in ("wrapping_add", "wrapping_add_signed") and not (isinstance(recv, int) and isinstance(args[0], int)):
            r = Lin.of(recv) + args[0]
            return _AddrLin(r.c, r.terms)
        return NotImplemented

    def call_hook(self, path: str, args: list, env: dict, e: dict) -> Any:
        last = path.split("::")[-1]
        if last == "cond_pass":
            return True
        if last == "mask_for":
            return 0xFFFFF
        if last == "pop_stack":
            return BitVec.sym("ret", int(args[3]))
        if last == "push_stack":
            self.log.append(("push_stack", args[2:]))
            return None
        if last == "reg_name_for_trace":
            return "r"
        return NotImplemented


def _arm_target(rs: RustProgram, kind: str, opcode: int, decoded: dict, pc: int) -> tuple[Any, list]:
    arm = isa.rs_arm_for(rs, kind)
    it = _ArmInterp(rs, decoded, pc)
    env = {"self": "SELF", "state": _STATE, "bus": _BUS, "entry": {"opcode": opcode, "cond": None, "kind": ("sym", "InstrKind::" + kind)}, "pre": None, "pc_override": None, "prefix_len": 0}
    try:
        it.ev(arm["body"], env)
    except _StopAtSetPc as st:
        return st.v, it.log
    except RsNotConst as e:
        raise AnalysisError(f"execute_with::{kind} (opcode {opcode:#04x}) left the foldable fragment before set_pc: {e}")
    raise AnalysisError(f"execute_with::{kind} (opcode {opcode:#04x}) does not reach state.set_pc")


def rust_formulas(ctx: Ctx, py: PyProgram, rs: RustProgram, rows: dict, base: list, addr: int = ADDR, tag: str = "", prefix_len: int = 0) -> None:
    """prefix_len: PRE bytes in front of the opcode; the Rust decoder adds them to decoded.len (decode_with_prefix), the cases' `n` does not count them"""
    ADDR = addr  # noqa: N806
    rel = rs.file_for(isa.EVAL_RS)
    by = {c.opcode: c for c in base if c.selector is None and c.status == "ok"}
    n = 0
    val16 = BitVec.sym("in0", 8) | (BitVec.sym("in1", 8) << 8)
    val20 = val16 | ((BitVec.sym("in2", 8) & 0x0F) << 16)
    val24 = val16 | (BitVec.sym("in2", 8) << 16)
    arms_ln = {k: isa.rs_arm_for(rs, k)["ln"] for k in ("JpAbs", "Call", "Ret", "JpRel")}

    def norm(v: Any) -> Lin:
        # const + symbolic parts: a bit vector whose constant and symbolic bits do not overlap is their sum
        l_ = Lin.of(v)
        c = l_.c
        terms = []
        for k, bv in l_.terms:
            cpart = sum((b << i) for i, b in enumerate(bv.bits) if b in (0, 1))
            sym = BitVec([b if b not in (0, 1) else 0 for b in bv.bits])
            c += k * cpart
            if not sym.is_const():
                terms.append((k, sym))
        return Lin(c, tuple(terms))

    def same(got: Any, want: Any) -> bool:
        if isinstance(want, Lin) or isinstance(got, Lin):
            try:
                return norm(got) == norm(want)
            except TypeError:
                return False
        return ilfacts.same_value(BitVec.lift(got) & 0xFFFFF, want)
    # JP mn / JPF lmn, CALL mn / CALLF lmn: the value the arm hands to set_pc, with the operand bytes symbolic
    for kind, op, bits, val, ln_ in (("JpAbs", 0x02, 16, val16, 3), ("JpAbs", 0x03, 20, val20, 4), ("Call", 0x04, 16, val16, 3), ("Call", 0x05, 24, val24, 4)):
        n += 1
        got, _log = _arm_target(rs, kind, op, {"imm": ("some", (val, bits)), "mem": None, "mem2": None, "reg3": None, "len": ln_ + prefix_len}, ADDR)
        want = by[op].branches[0][1]
        if not same(got, want):
            ctx.violation("C05.4/rust-target", key_of(rel, f"execute_with::{kind}", f"dest bits={bits}"), f"Rust {'JP' if kind == 'JpAbs' else 'CALL'} target for {bits}-bit operands is {_s(BitVec.lift(got)) if not isinstance(got, Lin) else got}, Python reports {_s(want)}", f"{rel}:{arms_ln[kind]}")
    # RET: low 16 bits popped, page of the executing instruction
    n += 1
    got, _log = _arm_target(rs, "Ret", 0x06, {"imm": None, "mem": None, "mem2": None, "reg3": None, "len": 1 + prefix_len}, ADDR)
    want = (BitVec.sym("ret", 16) | BitVec.const(ADDR & 0xFF0000)) & 0xFFFFF
    if isinstance(got, Lin) or BitVec.lift(got).bits[:24] != want.bits[:24]:
        ctx.violation("C05.4/rust-target", key_of(rel, "execute_with::Ret", "dest"), f"Rust RET target {_s(BitVec.lift(got)) if not isinstance(got, Lin) else got} differs from low16(pop) | current page", f"{rel}:{arms_ln['Ret']}")
    # JR +n / JR -n for every relative-jump opcode: fall-through +- the operand byte
    for op, r in sorted(rows.items()):
        if r.cls != "JP_Rel" or op not in by or not by[op].branches:
            continue
        n += 1
        got, _log = _arm_target(rs, "JpRel", op, {"imm": ("some", (BitVec.sym("in0", 8), 8)), "mem": None, "mem2": None, "reg3": None, "len": by[op].n + prefix_len}, ADDR)
        taken = [t for k_, t in by[op].branches if "False" not in str(k_)]
        want = taken[0] if taken else by[op].branches[0][1]
        if not same(got, want):
            ctx.violation("C05.4/rust-target", key_of(rel, "execute_with::JpRel", f"opcode {op:#04x}"), f"Rust JR target for opcode {op:#04x} is {got!r}, Python reports {want!r}", f"{rel}:{arms_ln['JpRel']}")
    ctx.instance("C05.4/rust-formulas" + tag, f"Rust JP/CALL/RET/JR arms interpreted up to set_pc with symbolic operands vs Python targets (instruction at {addr:#x})", n, 8)


def pc_update(ctx: Ctx, py: PyProgram) -> None:
    fn = py.func(isa.EMU_PY, "Emulator._execute_instruction_impl")
    sets = [c for c in ast.walk(fn) if isinstance(c, ast.Call) and attr_chain(c.func) == "self.regs.set" and c.args and attr_chain(c.args[0]) == "RegisterName.PC"]
    forms = [unparse(c.args[1]) for c in sets]
    n = len(sets)
    from ..rules import py_defs, py_leaves
    d = py_defs(fn)

    def kind(v: ast.expr) -> str:
        # address + <decoded length> (length read from the analysed instruction info / decoded instruction), through locals and casts
        r = v
        hops = 0
        while isinstance(r, ast.Name) and r.id in d and len(d[r.id]) == 1 and isinstance(d[r.id][0], ast.AST) and hops < 4:
            r = d[r.id][0]
            hops += 1
        lv = py_leaves(v, d)
        if isinstance(r, ast.BinOp) and isinstance(r.op, ast.Add) and "<address>" in lv and any(x == ".length" or x.endswith(".length") for x in lv):
            return "next"
        if "<address>" in lv and lv <= {"<address>", "<param>", "PC_MASK"}:
            return "current"
        return "other"
    kinds = [kind(c.args[1]) for c in sets]
    if kinds.count("next") != 2 or "current" not in kinds or "other" in kinds:
        ctx.violation("C05.5/pc-update", key_of(isa.EMU_PY, "Emulator._execute_instruction_impl", "PC writes"), f"PC writes are {forms}; expected address+length on both the WAIT fast path and the normal path", f"{isa.EMU_PY}:{fn.lineno}")
    # the normal-path PC update precedes IL evaluation (the while loop over il.ils)
    loop = [w for w in ast.walk(fn) if (isinstance(w, ast.While) and any(isinstance(a, ast.Attribute) and a.attr == "ils" for a in ast.walk(w.test)))
            or (isinstance(w, ast.For) and any(isinstance(a, ast.Attribute) and a.attr == "ils" for a in ast.walk(w.iter)))]
    last = max((c.lineno for c in sets), default=0)
    if not loop or last > loop[0].lineno:
        ctx.violation("C05.5/pc-update", key_of(isa.EMU_PY, "Emulator._execute_instruction_impl", "order"), "PC is not advanced before the IL is evaluated", f"{isa.EMU_PY}:{fn.lineno}")
    # every exit of the step has advanced PC (and gone on to evaluate the IL): a return that is not dominated by an `address + length`
    # PC write leaves PC where it was while get_instruction_info reports address+length / the branch target (a "do nothing when
    # <some state>" early exit is such a path)
    from .. import cfg as _cfg
    g = _cfg.build_py(fn, "Emulator._execute_instruction_impl")
    nexts = [g.node_of(c) for c, k in zip(sets, kinds) if k == "next"]
    parent = {}
    for p_ in ast.walk(fn):
        for ch in ast.iter_child_nodes(p_):
            parent[id(ch)] = p_
    for r in [r for r in ast.walk(fn) if isinstance(r, ast.Return)]:
        anc = parent.get(id(r))
        while anc is not None and anc is not fn and not isinstance(anc, (ast.FunctionDef, ast.Lambda)):
            anc = parent.get(id(anc))
        if anc is not fn:
            continue            # return of a nested helper
        n += 1
        rn = g.node_of(r)
        if rn is None or not any(x is not None and g.dominates(x, rn) for x in nexts):
            ctx.violation("C05.5/pc-update", key_of(isa.EMU_PY, "Emulator._execute_instruction_impl", "exit without advancing PC"),
                          f"_execute_instruction_impl returns at line {r.lineno} on a path with no `PC := address + length`: the instruction is reported (fall-through, branch target) but not executed, so the PC reached differs from the metadata", f"{isa.EMU_PY}:{r.lineno}")
    ctx.instance("C05.5/pc-update", "PC := address+length before IL evaluation (normal + WAIT paths); every exit dominated by it", n, 4)
    fetch_decoder_fresh(ctx, py, "C05.6/fetch-window-fresh")


def fetch_decoder_fresh(ctx: Ctx, py: PyProgram, rule: str) -> None:
    """The byte source handed to decode() by the emulator's fetch is built for this fetch: a decoder object kept on `self` whose class
    remembers bytes (a written container) serves operand bytes read during an earlier step, so a patched jump target is executed with
    its old operands while the hooks, given the current bytes, report the new target."""
    from ..memo import written_containers
    from ..rules import py_defs
    fn = py.func(isa.EMU_PY, "Emulator.decode_instruction")
    calls = [c for c in ast.walk(fn) if isinstance(c, ast.Call) and unparse(c.func) == "decode" and c.args]
    if not calls:
        raise AnalysisError("Emulator.decode_instruction: decode() call not found")
    d = py_defs(fn)
    n = 0
    for c in calls:
        srcs, todo, seen = [], [c.args[0]], set()
        while todo:
            e = todo.pop()
            if isinstance(e, ast.Name) and e.id in d and e.id not in seen:
                seen.add(e.id)
                todo += [v for v in d[e.id] if isinstance(v, ast.AST)]
            elif isinstance(e, ast.IfExp):
                todo += [e.body, e.orelse]
            else:
                srcs.append(e)
        for e in srcs:
            n += 1
            ch = attr_chain(e) if isinstance(e, ast.Attribute) else None
            if ch and ch.startswith("self."):
                # which class is kept there?
                cls_names = set()
                emod = py.module(isa.EMU_PY)
                for a in ast.walk(emod.tree):
                    if isinstance(a, (ast.Assign, ast.AnnAssign)) and a.value is not None and any(attr_chain(t) == ch for t in (a.targets if isinstance(a, ast.Assign) else [a.target])):
                        for x in ast.walk(a.value):
                            if isinstance(x, ast.Call) and isinstance(x.func, ast.Name):
                                cls_names.add(x.func.id)
                stateful = []
                for cn in sorted(cls_names):
                    r0 = py.resolve_symbol(emod, cn)
                    if r0 is None:
                        raise AnalysisError(f"Emulator keeps a decoder of class {cn} on {ch}; the class is outside the repository, cannot tell whether it remembers bytes")
                    if isinstance(r0[1], ast.ClassDef) and written_containers(r0[0]):
                        stateful.append(cn)
                if stateful or not cls_names:
                    ctx.violation(rule, key_of(isa.EMU_PY, "Emulator.decode_instruction", "fetch decoder kept across steps"),
                                  f"decode() reads through `{ch}` ({', '.join(stateful) or 'unknown class'}), an object that outlives the step and remembers bytes it has read: an instruction whose operand bytes changed since is executed with the old operands", f"{isa.EMU_PY}:{c.lineno}")
    ctx.instance(rule, "byte sources handed to decode() by the emulator fetch: built per fetch, or stateless", n, 1)
