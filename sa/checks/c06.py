"""C06 - the Rust LLAMA core and the Python core agree on every instruction.

Decides (decode-level lockstep and structural parity; not equality of results for all states):
  1 LENGTH    for every encoding the Python decoder accepts (opcode x selector, abstract sweep) the Rust operand decoder
              (abstractly executed from its syntax tree with the same symbolic bytes) accepts it and consumes the same number of bytes
  2 PRE-SLOT  for every prefix x opcode x outcome class the Rust decoder applies the same addressing mode to the same operand byte
              as the Python renderer/lifter (the first/second choice of the prefix byte)
  3 TABLES    opcode tables agree through the generator's documented mapping (shared with C17)
  4 EXHAUSTIVE every instruction kind used by the Rust table has a dedicated arm in execute_with; every arm moves PC itself or through a
              helper that does
  5 SIBLING   stack frame widths of CALL/RET/RETF/IR/RETI and HALT/OFF/RESET register effects (shared with C05, C12, C04.6)
  6 FEATURES  INC/DEC effective width per register; carry-in / direction / BCD / subtract of ADCL/SBCL/DADL/DSBL; target formulas at a page edge
  7 FLAGS     per opcode the flags the Rust arm may write == the flags the Python IL writes (may-effect analysis of execute_with with the table row concrete)
Flags/results parity of the hand-written Rust evaluator with the Python lift for all operand values is declined (no sound static
argument in reach without compiling the crate)."""
from __future__ import annotations

import ast
import re
import collections
import multiprocessing as mp
import os
from typing import Any

from .. import cfg as cfgmod
from .. import isa
from ..core import REPO, AnalysisError, Ctx
from ..isa_abs import ASSUMPTIONS
from ..isa_sweep import sweep
from ..pyfacts import PyProgram, unparse
from ..rs_decode import RS_MODE, RsDecode
from ..rsfacts import NotConst as RsNotConst
from ..rsfacts import RustProgram, expr_text, walk
from ..rules import key_of
from .c03 import parse_operands

LEVEL = "other"
EXPLANATION = (
    "Both operand decoders are executed abstractly from source - Python through sa/absint.py, Rust (LlamaExecutor::decode_operands and its helpers) "
    "through the syntax-tree interpreter sa/rsfacts.py::RsInterp - on the same symbolic byte strings with the selector byte enumerated. Byte counts and the "
    "(addressing mode, operand byte) pairs of all internal-memory operands are compared for every accepted encoding and every prefix class. "
    "Structural parity rules cover the dispatch arms."
)
TRUSTED = ["syn / CPython parsers", "sa/absint.py and RsInterp semantics for the constructs used by the decoders", *ASSUMPTIONS]
CLAIM = ("Decides for the complete structural encoding space that both cores accept the same valid encodings with the same length (lockstep of instruction boundaries) and resolve prefix bytes to the "
         "same operand addressing modes; plus table/dispatch parity. Equality of computed results for all states is not claimed.")
NOTE = "The Rust crate cannot be compiled offline; its decoder is interpreted from the syntax tree. Result/flag parity for all operand values is out of reach."
TECHNIQUE = "twin abstract interpretation of the Python and Rust operand decoders over the full opcode x selector x prefix space"

_RS: tuple | None = None


def _rs_init() -> None:
    global _RS
    rs = RustProgram()
    table = rs.eval_const(isa.OPCODES_RS, "OPCODES")
    _RS = (rs, table, RsDecode(rs, table))


def _rs_job(job: tuple) -> tuple:
    global _RS
    if _RS is None:
        _rs_init()
    _rs, _t, dec = _RS
    opcode, selector, pre = job
    try:
        return (job, dec.decode(opcode, selector, pre))
    except RsNotConst as e:
        if selector is None:
            outs = []
            for s in range(256):
                try:
                    outs.append(dec.decode(opcode, s, pre))
                except RsNotConst as e2:
                    return (job, {"status": "unknown", "error": str(e2)})
            lens = {(o["status"], o.get("len")) for o in outs}
            if len(lens) == 1:
                return (job, outs[0])
            return (job, {"status": "split", "lens": sorted(lens, key=str), "imem": outs[0]["imem"]})
        return (job, {"status": "unknown", "error": str(e)})


def run(ctx: Ctx) -> None:
    py = PyProgram()
    rs = RustProgram()
    for f in (isa.OPTABLE, isa.OPCODES_PY, isa.INSTR_PY):
        ctx.file_used(REPO / f)
    for s in (isa.EVAL_RS, isa.OPCODES_RS):
        ctx.file_used(REPO / rs.file_for(s))
    for a in ASSUMPTIONS:
        ctx.assume(a)
    base, pre, _u = sweep(stages=("render",), with_prefixes="reps" if ctx.tier == "quick" else "all")
    rows = isa.py_rows(py)
    pre_modes = {op: (a.name, b.name) for (a, b), op in py.value(isa.OPCODES_PY, "_PRE_OPCODE_MATRIX").items()}
    py_to_rs = {v: k for k, v in RS_MODE.items()}
    ok_base = [c for c in base if c.status == "ok"]
    ok_pre = [c for c in pre if c.status == "ok" and not c.render_exc]
    jobs = [(c.opcode, c.selector, None) for c in ok_base]
    jobs += [(c.opcode, c.selector, (py_to_rs[pre_modes[c.pre][0]], py_to_rs[pre_modes[c.pre][1]])) for c in ok_pre]
    with mp.get_context("fork").Pool(min(16, os.cpu_count() or 4), initializer=_rs_init) as pool:
        results = dict(pool.map(_rs_job, jobs, chunksize=64))
    lengths(ctx, rows, ok_base, results)
    slots(ctx, rows, ok_pre, results, pre_modes, py_to_rs)
    dispatch(ctx, rs)
    feature_parity(ctx, py, rs, rows, ok_base)
    fetch_and_low_power(ctx, py, rs)
    pointer_destination_conflict(ctx, py, rs, rows)
    ir_frame(ctx, rs, rows, ok_base)
    exchange_store_order(ctx, rs, rows, ok_base)
    from .c01 import lookahead
    lookahead(ctx, py, rule="C06.9/lookahead-isolation", why="the Rust core decodes one instruction from the bytes at PC and never looks at what follows it, so the cores would disagree on length and effect")
    ctx.extra["exhaustive"] = True


def lengths(ctx: Ctx, rows: dict, cases: list, results: dict) -> None:
    groups: dict[tuple, list] = collections.defaultdict(list)
    n = 0
    for c in cases:
        r = results[(c.opcode, c.selector, None)]
        n += 1
        if r["status"] == "unknown":
            raise AnalysisError(f"Rust decode_operands left the interpretable fragment for opcode 0x{c.opcode:02X}: {r['error']}")
        if r["status"] == "err":
            groups[(c.opcode, f"Python accepts ({c.n} bytes) but the Rust decoder rejects: {r['error']}")].append(c)
        elif r["status"] == "split":
            groups[(c.opcode, f"Python consumes {c.n} bytes for every second byte, Rust varies: {r['lens']}")].append(c)
        elif r["len"] != c.n:
            groups[(c.opcode, f"Python consumes {c.n} bytes, Rust {r['len']}")].append(c)
    for (op, what), cs in sorted(groups.items()):
        r = rows[op]
        sels = sorted({c.selector for c in cs if c.selector is not None})
        ctx.violation("C06.1/length", key_of(rs_file(), f"decode_operands opcode 0x{op:02X}", what), f"opcode 0x{op:02X} ({r.name}): {what}; selectors {[hex(s) for s in sels[:8]]} ({len(cs)} cases)", f"{isa.OPTABLE}:{r.ln}")
    ctx.instance("C06.1/length", "Python-accepted (opcode, selector) encodings: Rust accepts and consumes the same number of bytes", n, 2900)
    for c in cases:
        if (c.opcode, c.selector) in ((0x90, 0x84), (0xF0, 0xC0), (0x0C, None)):
            ctx.sample({"opcode": hex(c.opcode), "selector": c.selector and hex(c.selector), "python_bytes": c.n, "rust": results[(c.opcode, c.selector, None)]})


def rs_file() -> str:
    return "sc62015/core/src/llama/eval.rs"


def slots(ctx: Ctx, rows: dict, cases: list, results: dict, pre_modes: dict, py_to_rs: dict) -> None:
    groups: dict[tuple, list] = collections.defaultdict(list)
    n = 0
    for c in cases:
        pm = (py_to_rs[pre_modes[c.pre][0]], py_to_rs[pre_modes[c.pre][1]])
        r = results[(c.opcode, c.selector, pm)]
        if r["status"] != "ok":
            if r["status"] == "unknown":
                raise AnalysisError(f"Rust decode_operands left the fragment for 0x{c.pre:02X} 0x{c.opcode:02X}: {r['error']}")
            continue
        ops = parse_operands(c.tokens)
        py_set = {(o["mode"], o["n"]) for o in ops if o["kind"] in ("imem", "emem_imem")}
        rs_set = set()
        for mode, raw in r["imem"]:
            m = RS_MODE[mode]
            rs_set.add((m, None if m in ("BP_PX", "BP_PY") else raw))
        if not py_set and not rs_set:
            continue
        n += 1
        if py_set != rs_set:
            groups[(c.opcode, f"Python {sorted(py_set - rs_set, key=str) or '-'} vs Rust {sorted(rs_set - py_set, key=str) or '-'}")].append(c)
        if r["len"] + 1 != c.length:
            groups[(c.opcode, f"prefixed length: Python {c.length}, Rust {r['len'] + 1}")].append(c)
    for (op, what), cs in sorted(groups.items()):
        r = rows[op]
        pres = sorted({c.pre for c in cs})
        ctx.violation("C06.2/pre-slot", key_of(rs_file(), f"decode_operands opcode 0x{op:02X}", what.split(" vs ")[0][:40] + " ..."),
                      f"opcode 0x{op:02X} ({r.name}): internal-memory operand modes differ under prefixes {[hex(p) for p in pres[:6]]}: {what} ({len(cs)} cases); text `{''.join(t for _k, t in cs[0].tokens)}`", f"{isa.OPTABLE}:{r.ln}")
    ctx.instance("C06.2/pre-slot", "prefixed encodings with internal-memory operands: (mode, operand byte) sets Python == Rust", n, 2200)
    for c in cases:
        if (c.pre, c.opcode) in ((0x25, 0xC8), (0x30, 0xDB)):
            pm = (py_to_rs[pre_modes[c.pre][0]], py_to_rs[pre_modes[c.pre][1]])
            ctx.sample({"prefix": hex(c.pre), "opcode": hex(c.opcode), "python_text": "".join(t for _k, t in c.tokens), "rust_imem": results[(c.opcode, c.selector, pm)]["imem"]})


def dispatch(ctx: Ctx, rs: RustProgram) -> None:
    rrows = isa.rs_rows(rs)
    used = {r.kind for r in rrows}
    arms = isa.rs_exec_arms(rs)
    covered = set()
    for a in arms:
        if a["guard"] is None:
            covered |= a["kinds"]
    n = 0
    for k in sorted(used):
        n += 1
        if k not in covered:
            ctx.violation("C06.4/dispatch", key_of(rs_file(), "execute_with", f"InstrKind::{k}"), f"InstrKind::{k} is used by the opcode table but has no unguarded arm in execute_with (falls to the wildcard)", rs_file())
    # every arm moves PC or delegates
    helpers_set_pc = set()
    for fn in rs.fns_in(isa.EVAL_RS):
        if fn.body is not None and any(n_.get("k") == "mcall" and n_["m"] == "set_pc" for n_ in walk(fn.body)):
            helpers_set_pc.add(fn.name)
    for a in arms:
        if a["wild"] and not a["kinds"]:
            continue
        n += 1
        body = a["body"]
        direct = any(n_.get("k") == "mcall" and n_["m"] == "set_pc" for n_ in walk(body))
        calls = {expr_text(n_["f"]).split("::")[-1] for n_ in walk(body) if n_.get("k") == "call"} | {n_["m"] for n_ in walk(body) if n_.get("k") == "mcall"}
        diverges = any(n_.get("k") == "macro" and n_.get("name") in ("unreachable", "panic") for n_ in walk(body))
        if not (direct or calls & helpers_set_pc or diverges):
            ctx.violation("C06.4/arm-sets-pc", key_of(rs_file(), "execute_with", f"arm {sorted(a['kinds'])}"), f"arm for {sorted(a['kinds'])} neither sets PC nor calls a helper that does", f"{rs_file()}:{a['ln']}")
    ctx.instance("C06.4/dispatch", "instruction kinds with a dedicated arm; arms that move PC (directly or via helper)", n, 80)


# ---------------------------------------------------------------------------
# sibling feature tables: facts both cores must agree on and that are visible in the shape of the code

def feature_parity(ctx: Ctx, py: PyProgram, rs: RustProgram, rows: dict, ok_base: list) -> None:
    import ast as _ast
    from ..pyfacts import unparse
    from ..rsfacts import RsInterp
    rel = rs_file()
    n = 0
    # (a) INC/DEC on a register: the effective operand width (result mask / Z test) per register
    it = RsInterp(rs, isa.EVAL_RS)
    reg_sizes = {str(k): v for k, v in py.value(isa.OPCODES_PY, "REG_SIZES").items()}
    from ..isa_sweep import sweep as _sweep
    lifted, _p, _u = _sweep(stages=("render", "lift"), with_prefixes="none")
    seen = set()
    for c in lifted:
        r = rows[c.opcode]
        if r.cls not in ("INC", "DEC") or c.status != "ok" or not r.ops or r.ops[0].ctor != "Reg3":
            continue
        regs = [t for k, t in c.tokens if k == "TReg"]
        if len(regs) != 1 or (r.cls, regs[0]) in seen:
            continue
        seen.add((r.cls, regs[0]))
        n += 1
        il = " ".join(c.il)
        py_bits = 20 if "1048575" in il else 8 * reg_sizes.get(regs[0], 0)
        try:
            rs_bits = it.call("LlamaExecutor::reg3_bits", [("sym", f"RegName::{regs[0]}")])
        except Exception as e:  # noqa: BLE001
            raise AnalysisError(f"reg3_bits({regs[0]}) left the foldable fragment: {e}")
        if py_bits != rs_bits:
            ctx.violation("C06.6/incdec-width", key_of(isa.INSTR_PY, f"{r.cls}.lift", f"register {regs[0]}"),
                          f"{r.cls} {regs[0]}: the Python lift computes result and Z over {py_bits} bits, the Rust core (reg3_bits) over {rs_bits} bits - e.g. {regs[0]} = 0xFFFFF wraps to 0 and sets Z in one core only",
                          f"{isa.OPTABLE}:{r.ln}")
    ctx.instance("C06.6/incdec-width", "INC/DEC r3: effective width per register, Python IL vs Rust reg3_bits", n, 16)
    # (b) multi-byte arithmetic: is the incoming carry used for the first byte; direction; BCD; subtract
    feats_py: dict[str, dict] = {}
    mod = py.module(isa.INSTR_PY)
    for cname in ("ADCL", "SBCL", "DADL", "DSBL"):
        c = py.cls(mod, cname)
        if c is None or "lift" not in c.methods:
            raise AnalysisError(f"{cname}.lift not found")
        calls = [x for x in _ast.walk(c.methods["lift"]) if isinstance(x, _ast.Call) and unparse(x.func) == "lift_multi_byte"]
        if len(calls) != 1:
            raise AnalysisError(f"{cname}.lift: expected one lift_multi_byte call")
        kw = {k.arg: unparse(k.value) for k in calls[0].keywords}
        feats_py[cname] = {"carry_in": kw.get("clear_carry", "False") != "True", "reverse": kw.get("reverse", "False") == "True", "bcd": kw.get("bcd", "False") == "True", "subtract": kw.get("subtract", "False") == "True"}
    feats_rs: dict[str, dict] = {}
    helper = rs.fn(isa.EVAL_RS, "LlamaExecutor::execute_multi_byte_binary")
    def _carry_lets(body: Any) -> list:
        # the running carry: the local whose value is finally stored into FC (identified by that store, not by its name)
        fc_args = [a_ for c_ in walk(body) if c_.get("k") in ("call", "mcall") and (c_.get("m") == "set_reg" or expr_text(c_.get("f", {})).endswith("set_reg")) and c_["args"] and "RegName::FC" in expr_text(c_["args"][0]) for a_ in c_["args"][1:]]
        names_ = {p_["p"] for a_ in fc_args for p_ in walk(a_) if p_.get("k") == "path"}
        return [x for x in walk(body) if x.get("k") == "let" and x["pat"].get("k") == "p_ident" and x["pat"].get("name") in names_ and x.get("init") is not None and x["pat"].get("mut")]
    hinit = _carry_lets(helper.body)
    if len(hinit) != 1:
        raise AnalysisError("execute_multi_byte_binary: `let mut carry = ..` not found")
    h_carry_in = any(x.get("k") == "mcall" and x["m"] == "get_reg" and x["args"] and expr_text(x["args"][0]).replace(" ", "") == "RegName::FC" for x in walk(hinit[0]["init"]))
    h_neg = any(x.get("k") == "unary" and x.get("op") == "-" for c in walk(helper.body) if c.get("k") == "call" and expr_text(c["f"]).endswith("advance_internal_addr_signed") for x in walk(c))
    for kind, cname, sub in (("Adc", "ADCL", False), ("Sbcl", "SBCL", True)):
        feats_rs[cname] = {"carry_in": h_carry_in, "reverse": h_neg, "bcd": False, "subtract": None}
    # subtract flag passed by the dispatch arms
    ex = rs.fn(isa.EVAL_RS, "LlamaExecutor::execute_with")
    for c in walk(ex.body):
        if c.get("k") == "mcall" and c["m"] == "execute_multi_byte_binary":
            pass
    for arm in isa.rs_exec_arms(rs):
        calls = [c for c in walk(arm["body"]) if c.get("k") == "mcall" and c["m"] == "execute_multi_byte_binary"]
        if calls and len(arm["kinds"]) == 1:
            kind = next(iter(arm["kinds"]))
            cname = {"Adc": "ADCL", "Sbcl": "SBCL"}.get(kind)
            if cname:
                feats_rs[cname]["subtract"] = expr_text(calls[0]["args"][-1]) == "true"
    darm = isa.rs_arm_for(rs, "Dadl")
    dinit = _carry_lets(darm["body"])
    if len(dinit) != 1 or dinit[0]["init"].get("k") != "match":
        raise AnalysisError("Dadl/Dsbl arm: `let mut carry = match entry.kind {..}` not found")
    d_neg = any(x.get("k") == "unary" and x.get("op") == "-" for c in walk(darm["body"]) if c.get("k") == "call" and expr_text(c["f"]).endswith("advance_internal_addr_signed") for x in walk(c))
    for a in dinit[0]["init"]["arms"]:
        pt = expr_text(a["pat"]) if a["pat"].get("k") != "p_path" else a["pat"].get("path", "")
        txt = expr_text(a["body"]).replace(" ", "")
        for kind, cname in (("Dadl", "DADL"), ("Dsbl", "DSBL")):
            if kind in str(a["pat"]):
                reads_fc = any(x.get("k") == "mcall" and x["m"] == "get_reg" and x["args"] and expr_text(x["args"][0]).replace(" ", "") == "RegName::FC" for x in walk(a["body"]))
                feats_rs[cname] = {"carry_in": reads_fc, "reverse": d_neg, "bcd": True, "subtract": kind == "Dsbl"}
    for cname in ("ADCL", "SBCL", "DADL", "DSBL"):
        if cname not in feats_rs:
            raise AnalysisError(f"Rust features of {cname} not recovered")
        for f in ("carry_in", "reverse", "bcd", "subtract"):
            n += 1
            if feats_rs[cname][f] is None:
                raise AnalysisError(f"Rust feature {f} of {cname} not recovered")
            if feats_py[cname][f] != feats_rs[cname][f]:
                what = {"carry_in": "uses the incoming carry for the first byte", "reverse": "walks the operands downwards", "bcd": "is decimal", "subtract": "subtracts"}[f]
                ctx.violation("C06.6/multibyte-feature", key_of(isa.INSTR_PY, f"{cname}.lift", f),
                              f"{cname}: Python {'' if feats_py[cname][f] else 'does not '}{what.replace('uses', 'use').replace('walks', 'walk').replace('is ', 'be ').replace('subtracts', 'subtract') if not feats_py[cname][f] else what}, "
                              f"the Rust core {'does' if feats_rs[cname][f] else 'does not'} ({f}: Python {feats_py[cname][f]}, Rust {feats_rs[cname][f]})", f"{isa.INSTR_PY}")
    ctx.extra["multibyte_features"] = {"python": feats_py, "rust": feats_rs}
    ctx.instance("C06.6/multibyte-feature", "ADCL/SBCL/DADL/DSBL: carry-in, direction, BCD, subtract - Python lift arguments vs Rust arms", 16, 16)
    # (b0) the Rust arms start every scratch value from a constant: no IL of the Python core may read a scratch register it has not
    #      written itself (rule shared with C07)
    from .c04 import decimal_adjust
    decimal_adjust(ctx, rows, lifted, rule="C06.6/decimal-adjust")
    from .c07 import il_temps, ret_page_rule
    ret_page_rule(ctx, rs, "C06.5/ret-page", ": CALL mn; <jump to another 64 KiB page>; RET returns to the CALL-site page on the Rust core and to the RET page on the Python core")
    il_temps(ctx, py, cases=lifted, rule="C06.12", why=" - the Rust core computes the same instruction from a fresh local, so the cores diverge after any instruction that left a value in that register", floors=(1500, 2500))
    # (b2) flags each core may write, per opcode: may-effect analysis of the Rust arm (table row concrete, conditions on it pruned)
    #      vs the flag write set of the Python IL over all selector values
    from .. import ilfacts
    from ..rs_effects import RsEffects
    re_ = RsEffects(rs)
    pyflags: dict[int, set] = collections.defaultdict(set)
    seen_ops = set()
    for c in lifted:
        if c.status == "ok" and not c.lift_exc:
            pyflags[c.opcode] |= set(ilfacts.flags_written(c.il_terms))
            seen_ops.add(c.opcode)
    nf = 0
    for op in sorted(seen_ops):
        r = rows[op]
        if r.cls in ("PRE", "UnknownInstruction"):
            continue
        nf += 1
        rf = re_.for_opcode(op).flags
        if rf != pyflags[op]:
            ctx.violation("C06.7/flag-signature", key_of(rs_file(), f"execute_with opcode 0x{op:02X} {r.name}", f"flags {sorted(rf)} vs {sorted(pyflags[op])}"),
                          f"opcode 0x{op:02X} ({r.name} {' '.join(o.ctor for o in r.ops)}): the Rust arm may write flags {sorted(rf) or 'none'}, the Python IL writes {sorted(pyflags[op]) or 'none'}", f"{isa.OPTABLE}:{r.ln}")
    # (b3) counted instructions: the Python IL loops on I  <=>  the Rust arm reads I
    from ..pyfacts import Term as _Term
    nl = 0
    pyloop: dict[int, bool] = collections.defaultdict(bool)
    for c in lifted:
        if c.status == "ok" and not c.lift_exc:
            pyloop[c.opcode] |= any(isinstance(st, _Term) and st.ctor == "if_expr" and "reg(2, 'I')" in repr(st.args[0]) for st in c.il_terms)
    for op in sorted(seen_ops):
        r = rows[op]
        if r.cls in ("PRE", "UnknownInstruction"):
            continue
        nl += 1
        reads_i = "I" in re_.for_opcode(op).reads
        if reads_i != pyloop[op]:
            ctx.violation("C06.8/counted-parity", key_of(rs_file(), f"execute_with opcode 0x{op:02X} {r.name}", "loop on I"),
                          f"opcode 0x{op:02X} ({r.name}): the Python lift {'loops on I' if pyloop[op] else 'does not loop on I'}, the Rust arm {'reads I' if reads_i else 'never reads I (single pass, I unchanged)'}", f"{isa.OPTABLE}:{r.ln}")
    ctx.instance("C06.8/counted-parity", "opcodes: Python IL loops on I <=> Rust arm reads I", nl, 230)
    # (b4) counted instructions with I = 0: the loop body does not run; the flags written outside it must be the same in both cores
    from .c04 import _loop_body
    nz = 0
    py_straight: dict[int, set] = collections.defaultdict(set)
    for c in lifted:
        if c.status == "ok" and not c.lift_exc and pyloop[c.opcode]:
            lb = _loop_body(c.il_terms)
            if lb is None:
                continue
            outside = [st for i, st in enumerate(c.il_terms) if not (lb[0] <= i < lb[1])]
            py_straight[c.opcode] |= set(ilfacts.flags_written(outside))
    for op in sorted(o for o in seen_ops if pyloop[o]):
        r = rows[op]
        nz += 1
        rf = re_.for_opcode(op, zero_trip=True).flags_straight
        if rf != py_straight[op]:
            ctx.violation("C06.8/zero-trip-flags", key_of(rs_file(), f"execute_with opcode 0x{op:02X} {r.name}", f"flags outside the loop {sorted(rf)} vs {sorted(py_straight[op])}"),
                          f"opcode 0x{op:02X} ({r.name}) with I = 0 (the loop body never runs): the Rust arm writes flags {sorted(rf) or 'none'} outside its loop, "
                          f"the Python IL writes {sorted(py_straight[op]) or 'none'} outside its loop - the cores leave different flags", f"{isa.OPTABLE}:{r.ln}")
    ctx.instance("C06.8/zero-trip-flags", "counted opcodes: flags written outside the byte loop (so also when I = 0), Rust arm vs Python IL", nz, 20)
    ctx.instance("C06.7/flag-signature", "opcodes: flags the Rust arm may write (pruned may-effect analysis, save/restore pairs excluded) == flags written by the Python IL", nf, 230)
    # (c) control-transfer target formulas at a page edge (shared with C05)
    from .c05 import EDGE_ADDR, rust_formulas
    from ..isa_sweep import Sweeper
    sw = Sweeper()
    cf_ops = [0x02, 0x03, 0x04, 0x05] + sorted(op for op, r_ in rows.items() if r_.cls == "JP_Rel")
    edge = [sw.run_case(None, op, None, ("analyze", "lift"), addr=EDGE_ADDR) for op in cf_ops]
    rust_formulas(ctx, py, rs, rows, edge, addr=EDGE_ADDR, tag="@page-edge")
    rust_formulas(ctx, py, rs, rows, [sw.run_case(None, op, None, ("analyze", "lift")) for op in cf_ops])
    # the same behind a PRE byte: both cores count the prefix into the instruction (PC stands on the PRE byte, the length includes it)
    pre_byte = min(py.value(isa.OPCODES_PY, "_PRE_OPCODE_MATRIX").values())
    rust_formulas(ctx, py, rs, rows, [sw.run_case(pre_byte, op, None, ("analyze", "lift")) for op in cf_ops], tag="+PRE", prefix_len=1)


# ---------------------------------------------------------------------------
def fetch_and_low_power(ctx: Ctx, py: PyProgram, rs: RustProgram) -> None:
    """Two shape clauses of lockstep.  (1) The Rust core fetches every byte of every instruction from the bus on every step; the Python
    fetch must not answer from a memo (self-modifying and freshly loaded code).  (2) HALT/OFF stop the core unconditionally in both
    cores: the state change is on every path through the shared helper."""
    from ..memo import memo_findings
    INTR = "sc62015/pysc62015/intrinsics.py"
    ctx.file_used(REPO / isa.EMU_PY)
    ctx.file_used(REPO / INTR)
    fn = py.func(isa.EMU_PY, "Emulator.decode_instruction")
    for ln, what in memo_findings(py.module(isa.EMU_PY), fn, ("address",), True):
        ctx.violation("C06.9/fetch-live", key_of(isa.EMU_PY, "Emulator.decode_instruction", "instruction remembered across steps"),
                      what + " - the Rust core decodes from the bus on every step, so the cores diverge once code bytes change", f"{isa.EMU_PY}:{ln}")
    n = 1

    def py_uncond(f: ast.FunctionDef, pred) -> tuple[bool, int]:
        hits = [i for i, st in enumerate(f.body) if pred(st)]
        if not hits:
            return False, f.lineno
        before = f.body[:hits[0]]
        early = [x for st in before for x in ast.walk(st) if isinstance(x, (ast.Return, ast.Raise))]
        return (not early), (early[0].lineno if early else f.body[hits[0]].lineno)
    lp = py.func(INTR, "_enter_low_power_state")
    ok, ln = py_uncond(lp, lambda st: isinstance(st, ast.Assign) and any(unparse(t) == "state.halted" for t in st.targets) and isinstance(st.value, ast.Constant) and st.value.value is True)
    n += 1
    if not ok:
        ctx.violation("C06.9/low-power-unconditional", key_of(INTR, "_enter_low_power_state", "halt on every path"),
                      "the Python HALT/OFF helper does not set state.halted = True on every path (an early exit or a condition precedes it); the Rust helper enter_low_power_state sets the power state unconditionally, so the cores disagree on whether the CPU is stopped", f"{INTR}:{ln}")
    callers = [q for q in ("eval_intrinsic_halt", "eval_intrinsic_off") if any(isinstance(c, ast.Call) and unparse(c.func) == "_enter_low_power_state" for c in ast.walk(py.func(INTR, q)))]
    n += 1
    if len(callers) != 2:
        ctx.violation("C06.9/low-power-unconditional", key_of(INTR, "eval_intrinsic_halt/off", "shared helper"), f"only {callers} go through _enter_low_power_state", INTR)
    rf = rs.fn(isa.EVAL_RS, "enter_low_power_state")
    top = rf.body["stmts"]
    idx = [i for i, st in enumerate(top) if st.get("k") in ("expr_stmt", "semi") and isinstance(st.get("e"), dict) and st["e"].get("k") == "mcall" and st["e"].get("m") == "set_power_state"]
    n += 1
    early = [x for st in (top[:idx[0]] if idx else top) for x in walk(st) if x.get("k") in ("return", "try")]
    if not idx or early:
        ctx.violation("C06.9/low-power-unconditional", key_of(rf.file, rf.qual, "power state on every path"), "the Rust HALT/OFF helper does not set the power state on every path", rf.where)
    ctx.instance("C06.9/lockstep-shape", "fetch not memoised; HALT/OFF state change unconditional in both cores", n, 4)


def pointer_destination_conflict(ctx: Ctx, py: PyProgram, rs: RustProgram, rows: dict) -> None:
    """`MV r3,[r3++]` / `MV r3,[--r3]` with the pointer register also the destination: one of the two writes to that register wins.
    The Python IL decides which (its last write); the Rust move helper must make the same choice, which shows as a register-identity
    guard around its pointer side effect."""
    from ..isa_sweep import Sweeper
    sw = Sweeper()
    n = 0
    verdicts = set()
    regidx = {"X": 4, "Y": 5, "U": 6, "S": 7}
    for op, r in sorted(rows.items()):
        if not (r.ops and len(r.ops) == 2 and r.ops[0].ctor in ("Reg", "Reg3") and r.ops[1].ctor == "EMemReg" and r.cls in ("MV", "MVW", "MVP")):
            continue
        for mode in (0x20, 0x30):
            for reg, idx in regidx.items():
                c = sw.run_case(None, op, mode | idx, ("render", "lift"))
                if c.status != "ok" or c.lift_exc:
                    continue
                dest = [t for k, t in c.tokens if k == "TReg"]
                if not dest or dest[0] != reg or sum(1 for k, t in c.tokens if k == "TReg" and t == reg) < 2:
                    continue
                n += 1
                sets = [s_ for s_ in c.il if s_.startswith(f"set_reg(3, '{reg}'") or s_.startswith(f"set_reg(2, '{reg}'") or s_.startswith(f"set_reg(1, '{reg}'")]
                if sets:
                    verdicts.add("loaded" if "load(" in sets[-1] else "stepped")
    ctx.need(n >= 2 and len(verdicts) == 1, f"Python IL of MV r3,[r3++] / [--r3] with equal registers not recovered ({n} cases, {verdicts})")
    py_final = next(iter(verdicts))
    fn = rs.fn(isa.EVAL_RS, "LlamaExecutor::execute_mv_generic")
    g = cfgmod.build_rs(fn.node, fn.qual)
    sites = [c_ for c_ in walk(fn.body) if c_.get("k") in ("call", "mcall") and (c_.get("m") == "apply_pointer_side_effect" or expr_text(c_.get("f", {})).endswith("apply_pointer_side_effect"))]
    ctx.need(bool(sites), "execute_mv_generic: apply_pointer_side_effect call not found")
    for c_ in sites:
        n += 1
        regarg = next((expr_text(a) for a in c_["args"] if a.get("k") == "path" and expr_text(a) not in ("state",)), None)
        gs = [x for x, _pol, _o in g.guards_of(g.node_of(c_)) if isinstance(x, dict)]
        identity = any(x.get("k") == "binary" and x["op"] in ("!=", "==") and regarg is not None and any(p_.get("k") == "path" and p_["p"] == regarg for p_ in walk(x)) for x in gs)
        rs_final = "loaded" if identity else "stepped"
        if rs_final != py_final:
            ctx.violation("C06.10/pointer-destination", key_of(fn.file, fn.qual, "pointer side effect when the pointer is the destination"),
                          f"`MV r3,[r3++]` / `MV r3,[--r3]` with one register as pointer and destination: the Python IL leaves the {py_final} value in it, the Rust helper applies the pointer update {'only when the registers differ' if identity else 'unconditionally, after the load'} - the register ends {rs_final} in Rust", f"{fn.file}:{c_['ln']}")
    ctx.instance("C06.10/pointer-destination", "MV r3,[r3++]/[--r3] with equal registers: which write wins, Python IL vs Rust move helper", n, 3)


def ir_frame(ctx: Ctx, rs: RustProgram, rows: dict, ok_base: list) -> None:
    """IR stacks PC, F and IMR as they were at entry, then clears IRM - in both cores.  Python: no pushed value is read after a
    statement of the same instruction wrote it.  Rust: every value handed to push_stack is computed before the arm first stores to
    memory or writes a register other than the stack pointer (statement order inside the arm)."""
    from .c05 import stale_pushes
    from ..isa_sweep import Sweeper
    from ..rsfacts import walk as rs_walk
    irs = [c for c in ok_base if rows[c.opcode].cls == "IR"]
    ctx.need(len(irs) == 1, "IR row not found")
    c = Sweeper().run_case(None, irs[0].opcode, None, ("lift",))
    ctx.need(not c.lift_exc and c.il_terms, "IR does not lift")
    n = 1
    for what in stale_pushes(c.il_terms):
        ctx.violation("C06.11/ir-frame", key_of(isa.INSTR_PY, "IR.lift", "pushed value read after it was overwritten"),
                      what + " - the Rust core stacks the values the registers had at entry", isa.INSTR_PY)
    arm = isa.rs_arm_for(rs, "Ir")
    body = arm["body"]
    stmts = body["stmts"] if body.get("k") == "block" else [body]
    first_write = None
    defs_at: dict[str, int] = {}
    npush = 0
    for i, st in enumerate(stmts):
        calls = [x for x in rs_walk(st) if x.get("k") in ("call", "mcall")]
        for x in calls:
            nm = expr_text(x["f"]).split("::")[-1] if x["k"] == "call" else x["m"]
            if nm in ("store_traced", "store") or (nm == "set_reg" and x["args"] and expr_text(x["args"][0]) not in ("RegName::S",)):
                if first_write is None:
                    first_write = i
        if st.get("k") == "let" and st.get("pat", {}).get("k") == "p_ident":
            defs_at[st["pat"]["name"]] = i
        for x in calls:
            if x["k"] == "call" and expr_text(x["f"]).split("::")[-1] == "push_stack":
                npush += 1
                used = {p["p"] for a in x["args"] for p in rs_walk(a) if p.get("k") == "path" and p["p"] in defs_at}
                late = [u for u in used if first_write is not None and defs_at[u] > first_write]
                if (first_write is not None and i > first_write and any(y.get("k") == "mcall" and y["m"] in ("load", "get_reg") for a in x["args"] for y in rs_walk(a))) or late:
                    ctx.violation("C06.11/ir-frame", key_of(rs_file(), "execute_with::Ir", "pushed value computed after the first write"),
                                  f"the Rust IR arm pushes `{expr_text(x['args'][3])[:60]}` computed after the arm already wrote machine state (statement {first_write}): the frame may hold a new value", f"{rs_file()}:{arm['ln']}")
    ctx.need(npush == 3, f"Rust IR arm performs {npush} pushes, expected 3")
    ctx.instance("C06.11/ir-frame", "IR: stacked PC/F/IMR are entry values in both cores (Python IL read-after-write; Rust statement order)", n + npush, 4)


def exchange_store_order(ctx: Ctx, rs: RustProgram, rows: dict, ok_base: list) -> None:
    """EX / EXW / EXP on two memory operands whose byte ranges overlap: the operand stored *last* wins the shared bytes.  Both cores must
    store in the same order.  Python: in the IL of the two-internal-memory forms the first store goes to the operand encoded first
    (its address carries the first operand byte).  Rust: in the exchange arm the first store_traced goes to `decoded.mem`, the
    second to `decoded.mem2`."""
    from ..isa_sweep import Sweeper
    from ..rsfacts import walk as rs_walk
    from ..pyfacts import Term as _T
    sw = Sweeper()
    n = 0
    py_first = set()
    for op, r in sorted(rows.items()):
        if r.cls not in ("EX", "EXW", "EXP") or len(r.ops) != 2 or not all(o.ctor.startswith("IMem") for o in r.ops):
            continue
        c = sw.run_case(None, op, None, ("lift",))
        if c.status != "ok" or c.lift_exc:
            continue
        stores = [st for st in c.il_terms if isinstance(st, _T) and st.ctor == "store"]
        if len(stores) != 2:
            continue
        n += 1
        first_syms = {b[0] for t in ilfacts_walk(stores[0].args[1]) for b in _bits_of(t)}
        py_first.add("op1" if "in0" in first_syms else "op2" if "in1" in first_syms else "?")
    ctx.need(n >= 2, f"two-internal-memory exchange rows not found ({n})")
    # Rust: order of the stores in the (mem, mem2) branch of the exchange arm
    arm = isa.rs_arm_for(rs, "Ex")
    rs_order = []
    for b in rs_walk(arm["body"]):
        if b.get("k") == "call" and expr_text(b["f"]).split("::")[-1] == "store_traced" and len(b["args"]) >= 2:
            a1 = expr_text(b["args"][1])
            rs_order.append(a1)
    binds = {}
    for b in rs_walk(arm["body"]):
        if b.get("k") == "let_cond" and b.get("pat", {}).get("k") == "p_tuple" and b["e"].get("k") == "tuple":
            pats = [(p_.get("elems") or [{}])[0].get("name") if p_.get("k") == "p_tstruct" else None for p_ in b["pat"]["elems"]]
            srcs = [expr_text(e_) for e_ in b["e"]["elems"]]
            for p_, s_ in zip(pats, srcs):
                if p_:
                    binds[p_] = s_
    # the decoded-operand record is identified by its fields (.mem = first memory operand, .mem2 = second), not by the local's name
    mem_stores = [binds.get(a.split(".")[0]).split(".")[-1] for a in rs_order if (binds.get(a.split(".")[0]) or "").split(".")[-1] in ("mem", "mem2")]
    ctx.need(len(mem_stores) >= 2, f"Rust exchange arm: the two memory stores were not recovered ({rs_order[:4]}, {binds})")
    rs_first = "op1" if mem_stores[0] == "mem" else "op2"
    if py_first != {rs_first}:
        ctx.violation("C06.13/exchange-store-order", key_of(isa.INSTR_PY, "ExchangeInstruction", "memory operands stored in another order than the Rust core"),
                      f"the Python IL of the memory-memory exchanges stores first to {sorted(py_first)}, the Rust arm first to {rs_first}: when the two operands overlap (EXW (10),(11)) the operand stored last wins the shared "
                      "bytes, so the cores end with different memory", isa.INSTR_PY)
    ctx.instance("C06.13/exchange-store-order", "memory-memory exchange rows: which operand is stored first, Python IL vs Rust arm", n + 1, 3)


def ilfacts_walk(t: Any):
    from .. import ilfacts
    return ilfacts.walk(t) if hasattr(t, "ctor") else []


def _bits_of(t: Any) -> list:
    out = []
    for a in getattr(t, "args", ()):
        bits = getattr(a, "bits", None)
        if bits is not None:
            out += [b for b in bits if isinstance(b, tuple)]
    return out
