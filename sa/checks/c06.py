"""C06 - the Rust LLAMA core and the Python core agree on every instruction.

Decides (decode-level lockstep and structural parity; not equality of results for all states):
  1 LENGTH    for every encoding the Python decoder accepts (opcode x selector, abstract sweep) the Rust operand decoder
              (abstractly executed from its syntax tree with the same symbolic bytes) accepts it and consumes the same number of bytes
  2 PRE-SLOT  for every prefix x opcode x outcome class the Rust decoder applies the same addressing mode to the same operand byte
              as the Python renderer/lifter (the first/second choice of the prefix byte)
  3 TABLES    opcode tables agree through the generator's documented mapping (shared with C17)
  4 EXHAUSTIVE every instruction kind used by the Rust table has a dedicated arm in execute_with; every arm moves PC itself or through a
              helper that does
  5 SIBLING   stack frame widths of CALL/RET/RETF/IR/RETI and HALT/OFF/RESET register effects (shared with C05, C12, C04.6)
Flags/results parity of the hand-written Rust evaluator with the Python lift for all operand values is declined (no sound static
argument in reach without compiling the crate)."""
from __future__ import annotations

import collections
import multiprocessing as mp
import os
from typing import Any

from .. import isa
from ..core import REPO, AnalysisError, Ctx
from ..isa_abs import ASSUMPTIONS
from ..isa_sweep import sweep
from ..pyfacts import PyProgram
from ..rs_decode import RS_MODE, RsDecode
from ..rsfacts import NotConst as RsNotConst
from ..rsfacts import RustProgram, expr_text, walk
from ..rules import key_of
from .c03 import parse_operands

LEVEL = "other"
EXPLANATION = (
    "Both operand decoders are executed abstractly from source - Python through sa/absint.py, Rust (LlamaExecutor::decode_operands and its helpers) "
    "through the syntax-tree interpreter sa/rsfacts.py::RsInterp - on the same symbolic byte strings with the selector byte enumerated. Byte counts and the "
    "(addressing mode, operand byte) pairs of all internal-memory operands are compared for every accepted encoding and every prefix class. "
    "Structural parity rules cover the dispatch arms."
)
TRUSTED = ["syn / CPython parsers", "sa/absint.py and RsInterp semantics for the constructs used by the decoders", *ASSUMPTIONS]
CLAIM = ("Decides for the complete structural encoding space that both cores accept the same valid encodings with the same length (lockstep of instruction boundaries) and resolve prefix bytes to the "
         "same operand addressing modes; plus table/dispatch parity. Equality of computed results for all states is not claimed.")
NOTE = "The Rust crate cannot be compiled offline; its decoder is interpreted from the syntax tree. Result/flag parity for all operand values is out of reach."
TECHNIQUE = "twin abstract interpretation of the Python and Rust operand decoders over the full opcode x selector x prefix space"

_RS: tuple | None = None


def _rs_init() -> None:
    global _RS
    rs = RustProgram()
    table = rs.eval_const(isa.OPCODES_RS, "OPCODES")
    _RS = (rs, table, RsDecode(rs, table))


def _rs_job(job: tuple) -> tuple:
    global _RS
    if _RS is None:
        _rs_init()
    _rs, _t, dec = _RS
    opcode, selector, pre = job
    try:
        return (job, dec.decode(opcode, selector, pre))
    except RsNotConst as e:
        if selector is None:
            outs = []
            for s in range(256):
                try:
                    outs.append(dec.decode(opcode, s, pre))
                except RsNotConst as e2:
                    return (job, {"status": "unknown", "error": str(e2)})
            lens = {(o["status"], o.get("len")) for o in outs}
            if len(lens) == 1:
                return (job, outs[0])
            return (job, {"status": "split", "lens": sorted(lens, key=str), "imem": outs[0]["imem"]})
        return (job, {"status": "unknown", "error": str(e)})


def run(ctx: Ctx) -> None:
    py = PyProgram()
    rs = RustProgram()
    for f in (isa.OPTABLE, isa.OPCODES_PY, isa.INSTR_PY):
        ctx.file_used(REPO / f)
    for s in (isa.EVAL_RS, isa.OPCODES_RS):
        ctx.file_used(REPO / rs.file_for(s))
    for a in ASSUMPTIONS:
        ctx.assume(a)
    base, pre, _u = sweep(stages=("render",), with_prefixes="reps" if ctx.tier == "quick" else "all")
    rows = isa.py_rows(py)
    pre_modes = {op: (a.name, b.name) for (a, b), op in py.value(isa.OPCODES_PY, "_PRE_OPCODE_MATRIX").items()}
    py_to_rs = {v: k for k, v in RS_MODE.items()}
    ok_base = [c for c in base if c.status == "ok"]
    ok_pre = [c for c in pre if c.status == "ok" and not c.render_exc]
    jobs = [(c.opcode, c.selector, None) for c in ok_base]
    jobs += [(c.opcode, c.selector, (py_to_rs[pre_modes[c.pre][0]], py_to_rs[pre_modes[c.pre][1]])) for c in ok_pre]
    with mp.get_context("fork").Pool(min(16, os.cpu_count() or 4), initializer=_rs_init) as pool:
        results = dict(pool.map(_rs_job, jobs, chunksize=64))
    lengths(ctx, rows, ok_base, results)
    slots(ctx, rows, ok_pre, results, pre_modes, py_to_rs)
    dispatch(ctx, rs)
    ctx.extra["exhaustive"] = True


def lengths(ctx: Ctx, rows: dict, cases: list, results: dict) -> None:
    groups: dict[tuple, list] = collections.defaultdict(list)
    n = 0
    for c in cases:
        r = results[(c.opcode, c.selector, None)]
        n += 1
        if r["status"] == "unknown":
            raise AnalysisError(f"Rust decode_operands left the interpretable fragment for opcode 0x{c.opcode:02X}: {r['error']}")
        if r["status"] == "err":
            groups[(c.opcode, f"Python accepts ({c.n} bytes) but the Rust decoder rejects: {r['error']}")].append(c)
        elif r["status"] == "split":
            groups[(c.opcode, f"Python consumes {c.n} bytes for every second byte, Rust varies: {r['lens']}")].append(c)
        elif r["len"] != c.n:
            groups[(c.opcode, f"Python consumes {c.n} bytes, Rust {r['len']}")].append(c)
    for (op, what), cs in sorted(groups.items()):
        r = rows[op]
        sels = sorted({c.selector for c in cs if c.selector is not None})
        ctx.violation("C06.1/length", key_of(rs_file(), f"decode_operands opcode 0x{op:02X}", what), f"opcode 0x{op:02X} ({r.name}): {what}; selectors {[hex(s) for s in sels[:8]]} ({len(cs)} cases)", f"{isa.OPTABLE}:{r.ln}")
    ctx.instance("C06.1/length", "Python-accepted (opcode, selector) encodings: Rust accepts and consumes the same number of bytes", n, 2900)
    for c in cases:
        if (c.opcode, c.selector) in ((0x90, 0x84), (0xF0, 0xC0), (0x0C, None)):
            ctx.sample({"opcode": hex(c.opcode), "selector": c.selector and hex(c.selector), "python_bytes": c.n, "rust": results[(c.opcode, c.selector, None)]})


def rs_file() -> str:
    return "sc62015/core/src/llama/eval.rs"


def slots(ctx: Ctx, rows: dict, cases: list, results: dict, pre_modes: dict, py_to_rs: dict) -> None:
    groups: dict[tuple, list] = collections.defaultdict(list)
    n = 0
    for c in cases:
        pm = (py_to_rs[pre_modes[c.pre][0]], py_to_rs[pre_modes[c.pre][1]])
        r = results[(c.opcode, c.selector, pm)]
        if r["status"] != "ok":
            if r["status"] == "unknown":
                raise AnalysisError(f"Rust decode_operands left the fragment for 0x{c.pre:02X} 0x{c.opcode:02X}: {r['error']}")
            continue
        ops = parse_operands(c.tokens)
        py_set = {(o["mode"], o["n"]) for o in ops if o["kind"] in ("imem", "emem_imem")}
        rs_set = set()
        for mode, raw in r["imem"]:
            m = RS_MODE[mode]
            rs_set.add((m, None if m in ("BP_PX", "BP_PY") else raw))
        if not py_set and not rs_set:
            continue
        n += 1
        if py_set != rs_set:
            groups[(c.opcode, f"Python {sorted(py_set - rs_set, key=str) or '-'} vs Rust {sorted(rs_set - py_set, key=str) or '-'}")].append(c)
        if r["len"] + 1 != c.length:
            groups[(c.opcode, f"prefixed length: Python {c.length}, Rust {r['len'] + 1}")].append(c)
    for (op, what), cs in sorted(groups.items()):
        r = rows[op]
        pres = sorted({c.pre for c in cs})
        ctx.violation("C06.2/pre-slot", key_of(rs_file(), f"decode_operands opcode 0x{op:02X}", what.split(" vs ")[0][:40] + " ..."),
                      f"opcode 0x{op:02X} ({r.name}): internal-memory operand modes differ under prefixes {[hex(p) for p in pres[:6]]}: {what} ({len(cs)} cases); text `{''.join(t for _k, t in cs[0].tokens)}`", f"{isa.OPTABLE}:{r.ln}")
    ctx.instance("C06.2/pre-slot", "prefixed encodings with internal-memory operands: (mode, operand byte) sets Python == Rust", n, 2200)
    for c in cases:
        if (c.pre, c.opcode) in ((0x25, 0xC8), (0x30, 0xDB)):
            pm = (py_to_rs[pre_modes[c.pre][0]], py_to_rs[pre_modes[c.pre][1]])
            ctx.sample({"prefix": hex(c.pre), "opcode": hex(c.opcode), "python_text": "".join(t for _k, t in c.tokens), "rust_imem": results[(c.opcode, c.selector, pm)]["imem"]})


def dispatch(ctx: Ctx, rs: RustProgram) -> None:
    rrows = isa.rs_rows(rs)
    used = {r.kind for r in rrows}
    arms = isa.rs_exec_arms(rs)
    covered = set()
    for a in arms:
        if a["guard"] is None:
            covered |= a["kinds"]
    n = 0
    for k in sorted(used):
        n += 1
        if k not in covered:
            ctx.violation("C06.4/dispatch", key_of(rs_file(), "execute_with", f"InstrKind::{k}"), f"InstrKind::{k} is used by the opcode table but has no unguarded arm in execute_with (falls to the wildcard)", rs_file())
    # every arm moves PC or delegates
    helpers_set_pc = set()
    for fn in rs.fns_in(isa.EVAL_RS):
        if fn.body is not None and any(n_.get("k") == "mcall" and n_["m"] == "set_pc" for n_ in walk(fn.body)):
            helpers_set_pc.add(fn.name)
    for a in arms:
        if a["wild"] and not a["kinds"]:
            continue
        n += 1
        body = a["body"]
        direct = any(n_.get("k") == "mcall" and n_["m"] == "set_pc" for n_ in walk(body))
        calls = {expr_text(n_["f"]).split("::")[-1] for n_ in walk(body) if n_.get("k") == "call"} | {n_["m"] for n_ in walk(body) if n_.get("k") == "mcall"}
        diverges = any(n_.get("k") == "macro" and n_.get("name") in ("unreachable", "panic") for n_ in walk(body))
        if not (direct or calls & helpers_set_pc or diverges):
            ctx.violation("C06.4/arm-sets-pc", key_of(rs_file(), "execute_with", f"arm {sorted(a['kinds'])}"), f"arm for {sorted(a['kinds'])} neither sets PC nor calls a helper that does", f"{rs_file()}:{a['ln']}")
    ctx.instance("C06.4/dispatch", "instruction kinds with a dedicated arm; arms that move PC (directly or via helper)", n, 80)
