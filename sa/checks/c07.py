"""C07 - an instruction's effect depends only on architectural state.

Decides:
  1 DEF-USE   in the lifted IL of every encoding (abstract sweep, all prefixes) every read of a scratch register TEMP0..13 is
              preceded on every IL path by a write of the same scratch register in the same instruction (must-defined dataflow
              over the IL's own label/if/goto graph), so stale scratch contents never reach a result
  2 TAINT     Rust: values read from call-depth bookkeeping, perfetto counters/statics/thread-locals and the `instr_index`
              parameter never flow (by data or by a dominating branch condition) into set_reg/set_pc/store/push/pop
  3 WHO-MAY   Python: the execute path reads no module-level mutable state except tracing switches that only guard logging;
              `call_sub_level` feeds only itself; the fetch decoder is created per call
  4 FLOW      machine emulator: call-depth bookkeeping is never tested or copied into other state; no instruction memo in the fetch
"""
from __future__ import annotations

import ast
import collections
from typing import Any

from .. import cfg as cfgmod
from .. import ilfacts, isa
from ..core import REPO, AnalysisError, Ctx
from ..isa_abs import ASSUMPTIONS
from ..isa_sweep import sweep
from ..pyfacts import PyProgram, Term, attr_chain, unparse
from ..rsfacts import RustProgram, expr_text, walk
from ..rules import key_of, rs_defs, rs_guard_text, rs_is_call, rs_is_mcall, rs_names_reaching

LEVEL = "other"
EXPLANATION = (
    "DEF-USE over the IL produced by the abstract sweep (every opcode x selector x prefix class): a must-defined forward dataflow on the IL's own "
    "control-flow graph flags any scratch-register read not dominated by a write in the same instruction. Rust: intra-procedural taint from the "
    "bookkeeping accessors / perfetto statics to architectural sinks in eval.rs and lib.rs, including control dependence. Python: module-level "
    "mutable state on the execute path is enumerated and must only guard logging."
)
TRUSTED = ["CPython ast / syn", "sa/absint.py", "sa/cfg.py", *ASSUMPTIONS]
CLAIM = ("Decides for every encoding that the lifted IL never reads a scratch register it has not written, and that in both cores the hidden process state (call bookkeeping, tracing counters, decoder caches) "
         "cannot influence architectural writes by data flow or control dependence.")
NOTE = "N+M split equivalence and trace equality of two emulators are consequences argued from these clauses, not decided directly."
TECHNIQUE = "must-defined dataflow over lifted IL (all encodings) + intra-procedural taint/control-dependence analysis on the Rust evaluator"

BOOKKEEPING_ACCESSORS = {"call_depth", "call_sub_level", "call_stack", "call_page_depth", "pop_call_stack", "pop_call_frame", "peek_call_return_width",
                         "pop_call_page", "peek_call_page", "snapshot_call_metrics", "last_off_pc", "last_off_call_stack"}
PERF_STATICS = {"PERF_INSTR_COUNTER", "PERF_CURRENT_PC", "PERF_CURRENT_OP", "PERF_SUBSTEP", "PERF_LAST_PC", "PERF_LAST_CALL_STACK"}
PERF_FNS = {"perfetto_instr_context", "perfetto_last_instr_index", "perfetto_last_pc", "perfetto_last_call_stack", "perfetto_next_substep"}
SINK_METHODS = {"set_reg", "set_pc", "set_halted", "set_power_state", "halt", "power_off"}
SINK_CALLS = {"store_traced", "push_stack", "pop_stack", "write_imem_byte"}


def run(ctx: Ctx) -> None:
    py = PyProgram()
    rs = RustProgram()
    for f in (isa.OPTABLE, isa.OPCODES_PY, isa.INSTR_PY, isa.EMU_PY, "sc62015/pysc62015/stepper.py"):
        ctx.file_used(REPO / f)
    for s in (isa.EVAL_RS, isa.STATE_RS, isa.LIB_RS):
        ctx.file_used(REPO / rs.file_for(s))
    for a in ASSUMPTIONS:
        ctx.assume(a)
    il_temps(ctx, py)
    rust_taint(ctx, rs)
    rust_bookkeeping_readers(ctx, rs)
    python_state(ctx, py)
    pce500_bookkeeping(ctx, py)
    tracing_and_batches(ctx, py)
    from ..memo import memo_findings
    fn = py.func(isa.EMU_PY, "Emulator.decode_instruction")
    for ln, what in memo_findings(py.module(isa.EMU_PY), fn, ("address",), True):
        ctx.violation("C07.3/decode-memo", key_of(isa.EMU_PY, "Emulator.decode_instruction", "decoded instruction remembered across steps"),
                      what + " - a long run and a fresh run from the same memory execute different instructions", f"{isa.EMU_PY}:{ln}")
    ctx.instance("C07.3/decode-memo", "the emulator fetch decodes from memory on every step (no instruction memo)", 1, 1)
    diagnostics_and_inputs(ctx, py)
    data_path_memos(ctx, py)
    process_state(ctx, py)
    rust_device_perf_stores(ctx, rs)
    from .c05 import fetch_decoder_fresh
    fetch_decoder_fresh(ctx, py, "C07.2/fetch-window-fresh")


# ---------------------------------------------------------------------------
def _temp_reads(t: Any, out: list) -> None:
    """Scratch registers read by expression t, in evaluation order (set_reg's own target is not a read)."""
    if isinstance(t, Term):
        if t.ctor == "reg" and len(t.args) == 2 and ilfacts.is_temp(t.args[1]) is not None:
            out.append(ilfacts.is_temp(t.args[1]))
            return
        if t.ctor == "set_reg" and len(t.args) >= 3:
            for a in t.args[2:]:
                _temp_reads(a, out)
            return
        for a in t.args:
            _temp_reads(a, out)
        for v in t.kwargs.values():
            _temp_reads(v, out)
    elif isinstance(t, (list, tuple)):
        for a in t:
            _temp_reads(a, out)


def _temp_def(t: Any) -> int | None:
    if isinstance(t, Term) and t.ctor == "set_reg" and len(t.args) >= 3:
        return ilfacts.is_temp(t.args[1])
    return None


def il_temps(ctx: Ctx, py: PyProgram, cases: list | None = None, rule: str = "C07.1", why: str = "", floors: tuple = (6000, 7000)) -> None:
    """cases: lifted cases to analyse (default: a sweep of its own); rule/why/floors let another property share the rule (C06: the
    Rust core starts every scratch value of an instruction from a constant, so an IL read of an unwritten scratch register is a
    divergence between the cores as soon as an earlier instruction left something there)"""
    if cases is None:
        mode = "all" if ctx.tier == "thorough" else "reps"
        base, pre, _u = sweep(stages=("lift",), with_prefixes=mode)
    else:
        base, pre = cases, []
    rows = isa.py_rows(py)
    n = reads_total = 0
    groups: dict[tuple, list] = collections.defaultdict(list)
    temps_seen = set()
    for c in base + pre:
        if c.status != "ok" or c.lift_exc:
            continue
        il = c.il_terms
        n += 1
        succ, exitn = ilfacts.il_cfg(il)
        full = None
        IN: dict[int, Any] = {i: full for i in range(len(il) + 1)}
        IN[0] = frozenset()
        work = [0]
        while work:
            i = work.pop()
            if i >= len(il):
                continue
            cur = IN[i]
            d = _temp_def(il[i])
            out = cur | {d} if d is not None else cur
            for s in succ[i]:
                new = out if IN[s] is None else IN[s] & out
                if new != IN[s]:
                    IN[s] = new
                    work.append(s)
        for i, st in enumerate(il):
            if IN[i] is None:
                continue  # unreachable IL
            rd: list = []
            _temp_reads(st, rd)
            d = _temp_def(st)
            if d is not None:
                temps_seen.add(d)
            for k in rd:
                reads_total += 1
                temps_seen.add(k)
                if k not in IN[i]:
                    groups[(c.opcode, k)].append((c, i))
    for (op, k), lst in sorted(groups.items()):
        r = rows[op]
        c, i = lst[0]
        ctx.violation(rule + "/temp-def-use", key_of(isa.INSTR_PY, f"opcode 0x{op:02X} {r.cls}", f"TEMP{k} read before write"),
                      f"opcode 0x{op:02X} ({r.name}): the IL reads scratch register TEMP{k} on a path where this instruction has not written it "
                      f"(statement {i}: {c.il[i][:90]}); the result depends on what an earlier instruction left there ({len(lst)} cases){why}", f"{isa.OPTABLE}:{r.ln}", il=c.il[:8])
    ctx.instance(rule + "/temp-def-use", "scratch-register reads in the IL of all accepted encodings, each checked against the must-defined set", reads_total, floors[0])
    ctx.instance(rule + "/il-cases", "IL lists analysed (opcode x selector, prefix x class)", n, floors[1])
    n_temps = py.value(isa.EMU_PY, "NUM_TEMP_REGISTERS")
    if any(k >= n_temps for k in temps_seen):
        ctx.violation("C07.1/temp-range", "TEMP index", f"IL uses scratch registers {sorted(temps_seen)} beyond NUM_TEMP_REGISTERS={n_temps}", isa.OPCODES_PY)
    ctx.sample({"scratch_registers_used": sorted(temps_seen), "reads_checked": reads_total})


# ---------------------------------------------------------------------------
def _tainted_names(fn_body: Any, params_tainted: set[str]) -> set[str]:
    """Local names whose definitions (transitively) read a hidden-state source."""
    d = rs_defs(fn_body)
    tainted = set(params_tainted)

    def src_expr(e: Any) -> bool:
        for n in walk(e) if isinstance(e, (dict, list)) else []:
            if n.get("k") == "mcall" and n["m"] in BOOKKEEPING_ACCESSORS and expr_text(n["recv"]).split(".")[-1] in ("state", "self.state", "self"):
                return True
            if n.get("k") == "mcall" and n["m"] in BOOKKEEPING_ACCESSORS and "state" in expr_text(n["recv"]):
                return True
            if n.get("k") == "path" and n["p"].split("::")[-1] in PERF_STATICS:
                return True
            if n.get("k") == "call" and expr_text(n["f"]).split("::")[-1] in PERF_FNS:
                return True
            if n.get("k") == "path" and n["p"] in tainted:
                return True
        return False
    changed = True
    while changed:
        changed = False
        for name, defs in d.items():
            if name in tainted:
                continue
            for dd in defs:
                from ..rules import def_root
                r = def_root(dd)
                if isinstance(r, dict) and src_expr(r):
                    tainted.add(name)
                    changed = True
                    break
    return tainted


def rust_taint(ctx: Ctx, rs: RustProgram) -> None:
    n_sinks = 0
    n_fns = 0
    for suffix in (isa.EVAL_RS, isa.LIB_RS):
        rel = rs.file_for(suffix)
        for fn in rs.fns_in(suffix):
            if fn.body is None:
                continue
            params_t = {"instr_index"} & set(fn.params())
            tainted = _tainted_names(fn.body, params_t)
            sinks = []
            for c in walk(fn.body):
                if c.get("k") == "mcall" and c["m"] in SINK_METHODS and ("state" in expr_text(c["recv"])):
                    sinks.append((c, c["args"]))
                elif c.get("k") == "mcall" and c["m"] == "store" and expr_text(c["recv"]) in ("bus", "self.memory", "(*self.mem)"):
                    sinks.append((c, c["args"]))
                elif c.get("k") == "call" and expr_text(c["f"]).split("::")[-1] in SINK_CALLS:
                    sinks.append((c, c["args"]))
            if not sinks:
                continue
            n_fns += 1
            g = None
            for c, args in sinks:
                n_sinks += 1
                # data flow
                names = set()
                for a in args:
                    for x in walk(a):
                        if x.get("k") == "path":
                            names.add(x["p"])
                        if x.get("k") == "mcall" and x["m"] in BOOKKEEPING_ACCESSORS and "state" in expr_text(x["recv"]):
                            names.add("<accessor>")
                        if x.get("k") == "call" and expr_text(x["f"]).split("::")[-1] in PERF_FNS:
                            names.add("<perf>")
                bad = sorted((names & tainted) | (names & {"<accessor>", "<perf>"}))
                if bad:
                    ctx.violation("C07.2/taint-data", key_of(rel, fn.qual, f"{expr_text(c)[:70]} <- {bad}"),
                                  f"{fn.qual}: hidden state ({bad}) flows into the architectural write `{expr_text(c)[:80]}`", f"{rel}:{c['ln']}")
                # control dependence
                if tainted - params_t or params_t:
                    if g is None:
                        g = cfgmod.build_rs(fn.node, fn.qual)
                    node = g.node_of(c)
                    if node is None:
                        continue
                    for atom, pol, _o in g.guards_of(node):
                        an = set()
                        if isinstance(atom, dict):
                            for x in walk(atom):
                                if x.get("k") == "path":
                                    an.add(x["p"])
                                if x.get("k") == "mcall" and x["m"] in BOOKKEEPING_ACCESSORS and "state" in expr_text(x["recv"]):
                                    an.add("<accessor>")
                        hit = sorted((an & tainted) | (an & {"<accessor>"}))
                        if hit:
                            ctx.violation("C07.2/taint-control", key_of(rel, fn.qual, f"{expr_text(c)[:60]} under {rs_guard_text((atom, pol, _o))[:60]}"),
                                          f"{fn.qual}: the architectural write `{expr_text(c)[:70]}` is control-dependent on hidden state ({hit})", f"{rel}:{c['ln']}")
    ctx.instance("C07.2/rust-taint", "architectural write sites in eval.rs/lib.rs checked for data/control dependence on bookkeeping or tracing state", n_sinks, 150)
    ret_page_rule(ctx, rs, "C07.2/ret-page")
    ctx.sample({"functions_with_sinks": n_fns, "sinks": n_sinks})


def ret_page_rule(ctx: Ctx, rs: RustProgram, rule: str, why: str = "") -> None:
    """near RET discards the page remembered by the matching CALL (the Python core has no such stack: it returns into the page RET runs in)"""
    arm = isa.rs_arm_for(rs, "Ret")
    pops = [st for st in arm["body"]["stmts"] if "pop_call_page" in st.get("src", "")]
    ok = bool(pops) and all(st.get("k") == "let" and st["pat"].get("k") == "p_wild" for st in pops)
    if not ok:
        ctx.violation(rule, key_of(rs.file_for(isa.EVAL_RS), "execute_with::Ret", "pop_call_page"), "RET keeps the value popped from the call-page bookkeeping stack" + why, rs.file_for(isa.EVAL_RS))
    ctx.instance(rule, "RET discards pop_call_page()", 1, 1)


def rust_bookkeeping_readers(ctx: Ctx, rs: RustProgram) -> None:
    """The bookkeeping fields of LlamaState are read only inside their accessors."""
    rel = rs.file_for(isa.STATE_RS)
    fields = {"call_depth", "call_sub_level", "call_page_stack", "call_return_widths", "call_stack", "last_off_pc", "last_off_call_stack"}
    allowed_prefix = ("LlamaState::",)
    n = 0
    for fn in rs.fns_in(isa.STATE_RS):
        if fn.body is None:
            continue
        for x in walk(fn.body):
            if x.get("k") == "field" and x["name"] in fields and expr_text(x["e"]) == "self":
                n += 1
                if fn.name in ("set_reg", "get_reg", "pc", "set_pc", "mask_for"):
                    ctx.violation("C07.2/bookkeeping-reader", key_of(rel, fn.qual, f"self.{x['name']}"), f"{fn.qual} (architectural accessor) touches bookkeeping field {x['name']}", f"{rel}:{x['ln']}")
    # outside state.rs nobody touches the fields directly (they are private): any `.call_depth` field access elsewhere is a finding
    for suffix in (isa.EVAL_RS, isa.LIB_RS):
        for fn in rs.fns_in(suffix):
            if fn.body is None:
                continue
            for x in walk(fn.body):
                if x.get("k") == "field" and x["name"] in fields and "state" in expr_text(x["e"]) and not expr_text(x["e"]).startswith("self.metadata") and "metadata" not in expr_text(x["e"]):
                    n += 1
                    ctx.violation("C07.2/bookkeeping-reader", key_of(fn.file, fn.qual, expr_text(x)), f"{fn.qual} reads bookkeeping field `{expr_text(x)}` directly", f"{fn.file}:{x['ln']}")
    ctx.instance("C07.2/bookkeeping-readers", "direct accesses to LlamaState bookkeeping fields (all inside accessors)", n, 15)


# ---------------------------------------------------------------------------
def python_state(ctx: Ctx, py: PyProgram) -> None:
    mod = py.module(isa.EMU_PY)
    # module-level names assigned through `global` inside functions = mutable process state
    mutable = set()
    for q, f in mod.functions():
        for st in ast.walk(f):
            if isinstance(st, ast.Global):
                mutable |= set(st.names)
    # module-level lower/underscore names that are plain data containers mutated in place
    n = 0
    path_fns = ["Emulator._execute_instruction_impl", "Emulator.decode_instruction", "Emulator.execute_instruction", "Emulator.evaluate"]
    for q in path_fns:
        f = py.func(isa.EMU_PY, q)
        g = cfgmod.build_py(f, q)
        for x in ast.walk(f):
            if isinstance(x, ast.Name) and isinstance(x.ctx, ast.Load) and x.id in mutable:
                n += 1
                ctx.violation("C07.3/python-global", key_of(isa.EMU_PY, q, x.id), f"{q} reads mutable module state `{x.id}`", f"{isa.EMU_PY}:{x.lineno}")
        # calls to module functions that read mutable state may only guard logging
        for c in ast.walk(f):
            if isinstance(c, ast.Call) and isinstance(c.func, ast.Name):
                r = py.resolve_symbol(mod, c.func.id)
                if r is None or not isinstance(r[1], ast.FunctionDef) or r[0] is not mod:
                    continue
                callee = r[1]
                reads_mut = any(isinstance(y, ast.Name) and y.id in mutable for y in ast.walk(callee)) or any(
                    isinstance(y, ast.Call) and isinstance(y.func, ast.Name) and py.resolve_symbol(mod, y.func.id) and isinstance(py.resolve_symbol(mod, y.func.id)[1], ast.FunctionDef)
                    and any(isinstance(z, ast.Name) and z.id in mutable for z in ast.walk(py.resolve_symbol(mod, y.func.id)[1])) for y in ast.walk(callee))
                if not reads_mut:
                    continue
                n += 1
                # the call must be a branch condition whose true branch contains only logging calls
                ok = False
                for i in ast.walk(f):
                    if isinstance(i, ast.If) and any(y is c for y in ast.walk(i.test)):
                        body_calls = [unparse(s) for s in i.body]
                        ok = all(isinstance(s, ast.Expr) and isinstance(s.value, ast.Call) and isinstance(s.value.func, ast.Name) and s.value.func.id.startswith("_log_") for s in i.body) and not i.orelse
                if not ok:
                    ctx.violation("C07.3/python-global", key_of(isa.EMU_PY, q, f"{c.func.id}()"), f"{q}: `{c.func.id}()` depends on mutable module state and guards more than logging", f"{isa.EMU_PY}:{c.lineno}")
    # call_sub_level feeds only itself: whatever is computed from a read of it (through any locals) may only be stored back into it
    f = py.func(isa.EMU_PY, "Emulator._execute_instruction_impl")
    parent: dict[int, ast.AST] = {}
    for pnode in ast.walk(f):
        for ch in ast.iter_child_nodes(pnode):
            parent[id(ch)] = pnode
    tainted: set[str] = set()

    def is_src(x: ast.AST) -> bool:
        return (isinstance(x, ast.Attribute) and x.attr == "call_sub_level" and isinstance(x.ctx, ast.Load)) or (isinstance(x, ast.Name) and isinstance(x.ctx, ast.Load) and x.id in tainted)
    changed = True
    while changed:
        changed = False
        for a in ast.walk(f):
            if isinstance(a, (ast.Assign, ast.AnnAssign, ast.AugAssign)) and a.value is not None and any(is_src(y) for y in ast.walk(a.value)):
                ts = a.targets if isinstance(a, ast.Assign) else [a.target]
                for t in ts:
                    if isinstance(t, ast.Name) and t.id not in tainted:
                        tainted.add(t.id)
                        changed = True
    for x in [y for y in ast.walk(f) if is_src(y)]:
        n += 1
        st = x
        while id(st) in parent and not isinstance(st, ast.stmt):
            st = parent[id(st)]
        ok = False
        if isinstance(st, (ast.Assign, ast.AnnAssign, ast.AugAssign)) and st.value is not None and any(y is x for y in ast.walk(st.value)):
            ts = st.targets if isinstance(st, ast.Assign) else [st.target]
            ok = all(isinstance(t, ast.Name) or (attr_chain(t) or "").endswith(".call_sub_level") for t in ts)
        if not ok:
            ctx.violation("C07.3/call-sub-level", key_of(isa.EMU_PY, "Emulator._execute_instruction_impl", "call_sub_level flow"),
                          f"a value computed from call_sub_level is used in `{unparse(st)[:80]}`: the call-depth bookkeeping may only flow back into call_sub_level", f"{isa.EMU_PY}:{x.lineno}")
    # CALL_STACK_EFFECTS only feeds call_stack_delta
    for x in ast.walk(f):
        if isinstance(x, ast.Name) and x.id == "CALL_STACK_EFFECTS":
            n += 1
    ctx.instance("C07.3/python-state", "mutable module state / call_sub_level uses on the Python execute path", n, 3)
    ctx.sample({"mutable_module_globals": sorted(mutable)})


PCE500_EMU = "pce500/emulator.py"
BOOKKEEPING_ATTRS = {"call_depth", "call_sub_level", "_call_stack", "call_stack", "instruction_count", "_instr_index"}


def pce500_bookkeeping(ctx: Ctx, py: PyProgram) -> None:
    """Call-depth / instruction-count bookkeeping of the machine emulator may be traced, saved and updated, but must not decide anything:
    no branch condition and no other field may depend on it."""
    ctx.file_used(REPO / PCE500_EMU)
    mod = py.module(PCE500_EMU)
    cls = py.need_cls(mod, "PCE500Emulator")
    n = 0

    def is_book(node: ast.AST) -> bool:
        return isinstance(node, ast.Attribute) and node.attr in ("call_depth", "call_sub_level")

    for name, fn in cls.methods.items():
        parents: dict[int, ast.AST] = {}
        for p in ast.walk(fn):
            for c in ast.iter_child_nodes(p):
                parents[id(c)] = p
        reads: list[ast.AST] = [x for x in ast.walk(fn) if is_book(x) and isinstance(x.ctx, ast.Load)]
        # getattr(obj, "call_sub_level", 0)
        reads += [x for x in ast.walk(fn) if isinstance(x, ast.Call) and unparse(x.func) == "getattr" and len(x.args) > 1 and isinstance(x.args[1], ast.Constant) and x.args[1].value in ("call_depth", "call_sub_level")]
        tracked_locals: set[str] = set()
        work = list(reads)
        seen: set[int] = set()
        while work:
            x = work.pop()
            if id(x) in seen:
                continue
            seen.add(id(x))
            n += 1
            # climb to the statement, noting whether we pass through a test position
            cur, in_test = x, False
            while id(cur) in parents and not isinstance(parents[id(cur)], ast.stmt):
                par = parents[id(cur)]
                if isinstance(par, ast.IfExp) and par.test is cur:
                    in_test = True
                if isinstance(par, ast.comprehension) and cur in par.ifs:
                    in_test = True
                cur = par
            st = parents.get(id(cur))
            if isinstance(st, (ast.If, ast.While)) and st.test is cur or isinstance(st, ast.Assert) and st.test is cur:
                in_test = True
            if in_test:
                ctx.violation("C07.3/bookkeeping-decides", key_of(PCE500_EMU, f"PCE500Emulator.{name}", "call-depth bookkeeping in a condition"),
                              f"PCE500Emulator.{name}: `{unparse(cur)[:80]}` tests call-depth bookkeeping: two machines equal in registers, memory and timers but different in call history diverge", f"{PCE500_EMU}:{x.lineno}")
                continue
            if isinstance(st, (ast.Assign, ast.AugAssign, ast.AnnAssign)):
                tgts = st.targets if isinstance(st, ast.Assign) else [st.target]
                for t in tgts:
                    if isinstance(t, ast.Attribute) and not is_book(t):
                        ctx.violation("C07.3/bookkeeping-decides", key_of(PCE500_EMU, f"PCE500Emulator.{name}", f"call-depth bookkeeping stored in {unparse(t)}"),
                                      f"PCE500Emulator.{name}: `{unparse(st)[:90]}` copies call-depth bookkeeping into machine state `{unparse(t)}`", f"{PCE500_EMU}:{x.lineno}")
                    elif isinstance(t, ast.Name) and t.id not in tracked_locals:
                        tracked_locals.add(t.id)
                        work += [y for y in ast.walk(fn) if isinstance(y, ast.Name) and y.id == t.id and isinstance(y.ctx, ast.Load)]
    ctx.instance("C07.3/bookkeeping-decides", "reads of call-depth bookkeeping in the machine emulator: none in a condition, none stored into other machine state", n, 8)


def tracing_and_batches(ctx: Ctx, py: PyProgram) -> None:
    """(a) tracing helpers never read a bus address that has a read handler (reading KIL scans the keyboard and drains its queue);
    (b) run(n) is n x step() and nothing else, so how a run is split into batches cannot matter;
    (c) no constructor or step-path function of the emulators has a mutable default argument (one object shared by every instance)."""
    from ..pyfacts import PyEval, NotConst
    mod = py.module(PCE500_EMU)
    cls = py.need_cls(mod, "PCE500Emulator")
    # ranges with read handlers, from the overlay constructions
    ranges: list[tuple[int, int, str]] = []
    for rel in (PCE500_EMU, "pce500/memory.py"):
        m2 = py.module(rel)
        for c in ast.walk(m2.tree):
            if isinstance(c, ast.Call) and unparse(c.func).endswith("MemoryOverlay") and any(k.arg == "read_handler" and not (isinstance(k.value, ast.Constant) and k.value.value is None) for k in c.keywords):
                kw = {k.arg: k.value for k in c.keywords}
                try:
                    lo, hi = PyEval(py, m2).eval(kw["start"]), PyEval(py, m2).eval(kw["end"])
                except (NotConst, KeyError):
                    continue
                if isinstance(lo, int) and isinstance(hi, int):
                    ranges.append((lo, hi, unparse(kw["read_handler"])))
    if not ranges:
        raise AnalysisError("no MemoryOverlay with a read handler and constant bounds found (keyboard I/O window expected)")
    n = 0
    for name, fn in cls.methods.items():
        if not any(k in name for k in ("trace", "emit", "record", "perfetto", "_log")):
            continue
        for c in ast.walk(fn):
            if isinstance(c, ast.Call) and isinstance(c.func, ast.Attribute) and c.func.attr.startswith("read_") and "memory" in unparse(c.func.value) and c.args:
                n += 1
                try:
                    a = PyEval(py, mod).eval(c.args[0])
                except NotConst:
                    continue
                if isinstance(a, int) and not isinstance(a, bool):
                    for lo, hi, h in ranges:
                        if lo <= a <= hi:
                            ctx.violation("C07.3/tracing-reads-device", key_of(PCE500_EMU, f"PCE500Emulator.{name}", f"bus read of {a:#x}"),
                                          f"tracing helper {name} reads {a:#x} through the bus; that address is served by {h}, whose reads change device state - enabling tracing changes what the program sees", f"{PCE500_EMU}:{c.lineno}")
    ctx.instance("C07.3/tracing-reads-device", "bus reads in tracing helpers of the machine emulator: none in a window with a read handler", n, 5)
    # (b)
    run = cls.methods.get("run")
    if run is None:
        raise AnalysisError("PCE500Emulator.run not found")
    calls = [unparse(c.func) for c in ast.walk(run) if isinstance(c, ast.Call) and unparse(c.func).startswith("self.")]
    extra = [c for c in calls if c != "self.step"]
    if extra or "self.step" not in calls:
        ctx.violation("C07.3/run-is-steps", key_of(PCE500_EMU, "PCE500Emulator.run", "work outside step()"),
                      f"run() calls {sorted(set(extra)) or 'no step()'} besides step(): run(N+M) and run(N); run(M) perform different work, so the outcome depends on how a run is batched", f"{PCE500_EMU}:{run.lineno}")
    ctx.instance("C07.3/run-is-steps", "PCE500Emulator.run performs only step() calls", 1, 1)
    # (c)
    k = 0
    for rel in (isa.EMU_PY, PCE500_EMU, "sc62015/pysc62015/stepper.py"):
        for fn in [x for x in ast.walk(py.module(rel).tree) if isinstance(x, ast.FunctionDef)]:
            for d in list(fn.args.defaults) + [x for x in fn.args.kw_defaults if x is not None]:
                k += 1
                if isinstance(d, (ast.Call, ast.List, ast.Dict, ast.Set, ast.ListComp, ast.DictComp)) and not (isinstance(d, ast.Call) and unparse(d.func) in ("field", "tuple", "frozenset", "int", "float", "str", "bool")):
                    ctx.violation("C07.3/shared-default", key_of(rel, fn.name, f"default {unparse(d)[:40]}"),
                                  f"{fn.name}() has the mutable default `{unparse(d)[:60]}`: it is evaluated once, so every call/instance that relies on the default shares one object (state leaks between emulator instances)", f"{rel}:{fn.lineno}")
    ctx.instance("C07.3/shared-default", "default arguments in the emulator modules: none is a mutable object", k, 20)


# ---------------------------------------------------------------------------
DIAGNOSTIC_STATE = {
    # containers of the machine memory that exist for the UI / traces only; what they hold must never decide a device-visible effect
    "imem_access_tracking": "per-register access history shown by the orchestrator",
}


def diagnostics_and_inputs(ctx: Ctx, py: PyProgram) -> None:
    """(a) The internal-register access listener is how devices see CPU accesses (UART transmit, keyboard FIFO consumption): whether it
    is called may not depend on the access-history log, which records what an *earlier* run of the same code did.  (b) The pure
    stepper works on a private copy of the memory image it is given: stores of one step must not be visible to the next call."""
    MEM = "pce500/memory.py"
    STEPPER = "sc62015/pysc62015/stepper.py"
    ctx.file_used(REPO / MEM)
    fn = py.func(MEM, "PCE500Memory._track_imem_access")
    g = cfgmod.build_py(fn, "_track_imem_access")
    tainted: set[str] = set()
    changed = True
    while changed:
        changed = False
        for a in ast.walk(fn):
            if isinstance(a, (ast.Assign, ast.AnnAssign)) and a.value is not None:
                src = any((isinstance(x, ast.Attribute) and x.attr in DIAGNOSTIC_STATE) or (isinstance(x, ast.Name) and x.id in tainted) for x in ast.walk(a.value))
                if src:
                    for t in (a.targets if isinstance(a, ast.Assign) else [a.target]):
                        if isinstance(t, ast.Name) and t.id not in tainted:
                            tainted.add(t.id)
                            changed = True
    calls = [c for c in ast.walk(fn) if isinstance(c, ast.Call) and isinstance(c.func, ast.Attribute) and "callback" in c.func.attr and attr_chain(c.func.value) == "self"]
    ctx.need(bool(calls), "_track_imem_access: listener call not found")
    n = 0
    for c in calls:
        n += 1
        for a, pol, _o in g.guards_of(g.node_of(c)):
            if isinstance(a, ast.AST) and any((isinstance(x, ast.Name) and x.id in tainted) or (isinstance(x, ast.Attribute) and x.attr in DIAGNOSTIC_STATE) for x in ast.walk(a)):
                ctx.violation("C07.3/diagnostic-gates-device", key_of(MEM, "PCE500Memory._track_imem_access", "listener call depends on the access log"),
                              f"the internal-register access listener (UART/keyboard side effects hang off it) is only called when `{unparse(a)[:70]}` is {pol}: that test reads the access-history log, so what an instruction does depends on how often this code ran before, not on the machine state", f"{MEM}:{c.lineno}")
    # (b)
    cls = py.need_cls(py.module(STEPPER), "_SnapshotMemory")
    init = cls.methods.get("__init__")
    ctx.need(init is not None, "_SnapshotMemory.__init__ vanished")
    params = {a_.arg for a_ in init.args.args if a_.arg != "self"}

    def aliases(e: ast.expr) -> bool:
        """Can the value be the caller's own object (a bare parameter on some branch)?"""
        if isinstance(e, ast.Name):
            return e.id in params
        if isinstance(e, ast.IfExp):
            return aliases(e.body) or aliases(e.orelse)
        if isinstance(e, ast.BoolOp):
            return any(aliases(v) for v in e.values)
        if isinstance(e, ast.Call) and isinstance(e.func, ast.Name) and e.func.id == "cast" and len(e.args) == 2:
            return aliases(e.args[1])
        return False
    # which parameters are containers (annotated Mapping/Dict/List/...)?  scalars cannot alias
    containers = {a_.arg for a_ in init.args.args if a_.annotation is not None and any(k in unparse(a_.annotation) for k in ("Mapping", "Dict", "dict", "List", "list", "Sequence", "bytearray", "MutableMapping"))}
    for a in ast.walk(init):
        if isinstance(a, (ast.Assign, ast.AnnAssign)) and a.value is not None:
            for t in (a.targets if isinstance(a, ast.Assign) else [a.target]):
                if isinstance(t, ast.Attribute) and attr_chain(t.value) == "self" and any(isinstance(x, ast.Name) and x.id in containers for x in ast.walk(a.value)):
                    n += 1
                    params = containers
                    if aliases(a.value):
                        ctx.violation("C07.4/stepper-private-image", key_of(STEPPER, "_SnapshotMemory.__init__", f"self.{t.attr} aliases the caller's image"),
                                      f"`self.{t.attr} = {unparse(a.value)[:80]}` can keep the caller's mapping itself: stores made by one CPUStepper.step() are then seen by the next call given the same image, so identical inputs give different results", f"{STEPPER}:{a.lineno}")
    ctx.instance("C07.3/diagnostics-and-inputs", "device listener not gated by diagnostic logs; the pure stepper copies its memory image", n, 2)


# storage: the attribute that *is* the memory being read; a load from it is the architectural read, not a memo
DATA_PATH = (
    ("pce500/memory.py", "PCE500Memory", ("read_byte", "write_byte"), ("self.external_memory",)),
    ("pce500/memory_bus.py", "MemoryBus", ("read", "write"), ()),
    ("pce500/keyboard_handler.py", "PCE500KeyboardHandler", ("handle_register_read",), ()),
)

# process-wide containers that exist today, each read: why its content cannot depend on what ran before
PROCESS_STATE_OK = {
    ("sc62015/pysc62015/sc_asm.py", "REVERSE_OPCODES_CACHE"): "filled once from the constant OPCODES table; C10.5 checks the single guarded writer and that templates are never written through",
    (isa.EMU_PY, "_LCD_LOOP_RANGE"): "lazily initialised to a module constant (debug address window for logging), never changes afterwards",
}
PROCESS_MODULES = (isa.EMU_PY, "sc62015/pysc62015/stepper.py", "sc62015/pysc62015/cached_decoder.py", "sc62015/pysc62015/sc_asm.py", "sc62015/pysc62015/asm.py",
                   isa.OPCODES_PY, isa.INSTR_PY, "sc62015/pysc62015/intrinsics.py", "pce500/memory.py", "pce500/memory_bus.py", "pce500/emulator.py")
_IMMUTABLE_CALLS = {"int", "str", "bytes", "bool", "float", "tuple", "frozenset", "len"}
_COPY_CALLS = {"copy.deepcopy", "deepcopy"}


def data_path_memos(ctx: Ctx, py: PyProgram) -> None:
    """What a bus access returns (and which device it reaches) is a function of the address and the machine state, not of which
    addresses were touched before: on the access path (the entry points and every same-class helper they call) nothing that an
    earlier access stored in the object may reach a return / yield - a 'last hit', a write-through copy of a register."""
    from ..memo import memo_findings, method_closure
    n = 0
    for rel, cls, entries, storage in DATA_PATH:
        ctx.file_used(REPO / rel)
        mod = py.module(rel)
        path = method_closure(mod, cls, entries)
        ctx.need(set(entries) <= path, f"{rel}: {cls} access entry points {entries} not found")
        for e in entries:
            fn = py.func(rel, f"{cls}.{e}")
            n += 1
            inputs = tuple(a.arg for a in fn.args.args if a.arg not in ("self", "cpu_pc"))
            seen = set()
            for ln, what in memo_findings(mod, fn, inputs, True, storage=storage, persist_in=path):
                if what in seen:
                    continue
                seen.add(what)
                attr = what.split("`")[1] if "`" in what else "?"
                ctx.violation("C07.4/data-path-memo", key_of(rel, f"{cls}.{e}", f"answer taken from {attr}"),
                              what + " - the same access gives a different result depending on what was accessed before", f"{rel}:{ln}")
    ctx.instance("C07.4/data-path-memo", "bus access entry points (memory, overlay bus, keyboard registers) followed through their helpers: nothing stored by an earlier access reaches a return/yield", n, 5)


def process_state(ctx: Ctx, py: PyProgram) -> None:
    """Process-wide state (module-level containers written from function bodies, names rebound through `global`) in the decode /
    execute / assemble modules: each one is either in the reviewed table or must be a complete-key memo of immutable values -
    an object remembered there and handed out again without a copy is shared by every later call in the process."""
    from ..memo import written_containers
    n = 0
    for rel in PROCESS_MODULES:
        mod = py.module(rel)
        ctx.file_used(REPO / rel)
        names = {k: v for k, v in written_containers(mod).items() if not k.startswith("self.")}
        for f in ast.walk(mod.tree):
            if isinstance(f, ast.Global):
                for g in f.names:
                    names.setdefault(g, f.lineno)
        for g, ln in sorted(names.items()):
            n += 1
            if (rel, g) in PROCESS_STATE_OK:
                continue
            fns = [f for f in ast.walk(mod.tree) if isinstance(f, (ast.FunctionDef, ast.AsyncFunctionDef))]
            problems = []
            for f in fns:
                defs: dict[str, list] = {}
                for a in ast.walk(f):
                    if isinstance(a, ast.Assign) and len(a.targets) == 1 and isinstance(a.targets[0], ast.Name):
                        defs.setdefault(a.targets[0].id, []).append(a.value)
                parent = {id(c): p for p in ast.walk(f) for c in ast.iter_child_nodes(p)}
                for x in ast.walk(f):
                    load = None
                    if isinstance(x, ast.Subscript) and isinstance(x.ctx, ast.Load) and isinstance(x.value, ast.Name) and x.value.id == g:
                        load = x
                    if isinstance(x, ast.Call) and isinstance(x.func, ast.Attribute) and isinstance(x.func.value, ast.Name) and x.func.value.id == g and x.func.attr in ("get", "setdefault", "pop"):
                        load = x
                    if isinstance(x, ast.Name) and x.id == g and isinstance(x.ctx, ast.Load) and not isinstance(parent.get(id(x)), (ast.Subscript, ast.Attribute)):
                        load = x
                    if load is None:
                        continue
                    par = parent.get(id(load))
                    copied = isinstance(par, ast.Call) and unparse(par.func) in _COPY_CALLS
                    if not copied:
                        problems.append((load.lineno, f.name))
                # stores of provably immutable values make the sharing harmless
                stores_mutable = False
                for a in ast.walk(f):
                    if isinstance(a, ast.Assign) and any(isinstance(t, ast.Subscript) and isinstance(t.value, ast.Name) and t.value.id == g for t in a.targets):
                        v = a.value
                        hops = 0
                        while isinstance(v, ast.Name) and v.id in defs and len(defs[v.id]) == 1 and hops < 4:
                            v = defs[v.id][0]
                            hops += 1
                        immutable = isinstance(v, ast.Constant) or (isinstance(v, ast.Call) and unparse(v.func) in _IMMUTABLE_CALLS)
                        if not immutable:
                            stores_mutable = True
                if stores_mutable:
                    problems.append((f.lineno, f.name + " (stores a mutable object)"))
            if any("stores a mutable" in w for _l, w in problems) or (problems and g not in written_containers(mod)):
                ctx.violation("C07.4/process-state", key_of(rel, "module state", g),
                              f"`{g}` is process-wide mutable state written from function bodies and not in the reviewed table: {sorted(set(w for _l, w in problems))} "
                              "read or store it without a copy, so what one call leaves there is seen by every later call (also of other objects) in the process", f"{rel}:{ln}")
    ctx.instance("C07.4/process-state", "module-level containers / global rebinding in the decode, execute, assemble and bus modules: reviewed table or copy-in/copy-out of immutable values", n, 2)


def rust_device_perf_stores(ctx: Ctx, rs: RustProgram) -> None:
    """Device models (LCD, keyboard, timers, memory image) read the tracing clock (`perfetto_*`) only to label trace events.  A value
    derived from it - directly, through a small wrapper function, or through a local - that is *stored* into device state other than
    trace metadata makes what the CPU later reads depend on a process-wide counter that other runtimes bump and constructors reset."""
    global PERF_FNS
    files = ("core/src/lcd.rs", "core/src/keyboard.rs", "core/src/timer.rs", "core/src/memory.rs")
    saved = set(PERF_FNS)

    def has_src(e: Any, names: set) -> bool:
        for x in walk(e) if isinstance(e, (dict, list)) else []:
            if x.get("k") == "call" and expr_text(x["f"]).split("::")[-1] in names:
                return True
            if x.get("k") == "path" and x["p"].split("::")[-1] in names:
                return True
        return False
    try:
        wrappers: set[str] = set()
        changed = True
        while changed:
            changed = False
            for suf in files:
                for fn in rs.fns_in(suf):
                    if fn.body is None or fn.name in wrappers or any(k in fn.name for k in ("trace", "emit", "record", "perfetto", "log")):
                        continue
                    stmts = fn.body.get("stmts", []) if isinstance(fn.body, dict) else []
                    if len(stmts) <= 3 and has_src(fn.body, PERF_FNS | wrappers) and not any(x.get("k") in ("assign", "opassign") for x in walk(fn.body)):
                        wrappers.add(fn.name)
                        changed = True
        PERF_FNS = set(PERF_FNS) | wrappers
        n = 0
        for suf in files:
            rel = rs.file_for(suf)
            ctx.file_used(REPO / rel)
            for fn in rs.fns_in(suf):
                if fn.body is None:
                    continue
                tainted = _tainted_names(fn.body, set())
                d = rs_defs(fn.body)
                for a in walk(fn.body):
                    if a.get("k") not in ("assign", "opassign"):
                        continue
                    rhs = a.get("r") or a.get("rhs") or a.get("value")
                    lhs = a.get("l") or a.get("lhs") or a.get("target")
                    if rhs is None or lhs is None:
                        raise AnalysisError(f"rust assignment node without l/r keys: {sorted(a)}")
                    n += 1
                    if not (has_src(rhs, PERF_FNS) or any(x.get("k") == "path" and x["p"] in tainted for x in walk(rhs))):
                        continue
                    lt = expr_text(lhs)
                    roots = [x["p"] for x in walk(lhs) if x.get("k") == "path"]
                    deftext = " ".join(expr_text(v) for r_ in roots for v in d.get(r_, []) if isinstance(v, dict))
                    local_only = len(roots) == 1 and lt == roots[0] and roots[0] != "self"
                    # a record of a trace type (`LcdWriteTrace {..}`) is trace metadata wherever it is put
                    rdefs = [rhs] + [v for x in walk(rhs) if x.get("k") == "path" for v in d.get(x["p"], []) if isinstance(v, dict)]
                    trace_record = any(v.get("k") == "struct_lit" and "trace" in expr_text(v).split("{")[0].lower() for v in rdefs)
                    if "trace" in lt or "trace" in deftext or local_only or trace_record:
                        continue
                    ctx.violation("C07.2/device-perf-store", key_of(rel, fn.qual, f"{lt} <- tracing clock"),
                                  f"{fn.qual} stores a value derived from the tracing clock into `{lt}` (`{expr_text(a)[:90]}`): device state the CPU can observe then depends on a process-wide counter, not on the machine's own history", f"{rel}:{a.get('ln')}")
        ctx.instance("C07.2/device-perf-store", "assignments in the Rust device models checked for values derived from the tracing clock", n, 150)
    finally:
        PERF_FNS = saved
