"""C08 - register aliasing, widths and flag packing hold after any sequence of writes.

Decides by bit-provenance abstract interpretation (finite lattice, no solver):
  1 write/read law per step: for every register R written with a symbolic 32-bit value on a fully symbolic register
    file, every readable register Q afterwards has, bit for bit, the provenance the architecture demands
    (own bits <- value bits truncated to the width; overlapped bits updated; everything else unchanged; IL write clears IH)
  2 Python == Rust: the two register files compute identical provenance vectors for all 15x15 (write, read) pairs,
    starting from related states (abstraction: Rust F is read through get_reg)
  3 representation invariant of the Rust file (F / FC / FZ mirrors agree) is preserved by every write
  4 snapshot capture/apply coverage (shared with C16.2) and collect/apply_registers masks
  5 every register captured by CPURegistersSnapshot.from_registers is written back whole by apply_to
Because each write is decided for an arbitrary (symbolic) prior state and the invariant is inductive, the law extends to all
finite write sequences.
"""
from __future__ import annotations

import ast
from typing import Any

from .. import cfg as cfgmod
from .. import isa
from ..bits import TOP, BitVec, show, show_bit
from ..core import REPO, AnalysisError, Ctx
from ..pyfacts import EnumMember, NotConst, PyEval, PyProgram, Term, attr_chain, unparse
from ..rsfacts import NotConst as RsNotConst
from ..rsfacts import RsInterp, RustProgram, expr_text, walk
from ..rules import key_of

LEVEL = "other"
EXPLANATION = (
    "Bit-provenance abstract interpretation of Registers.get/set (Python, through the analysis' evaluator with symbolic bit-vector values) "
    "and LlamaState::get_reg/set_reg/mask_for (Rust, through the syntax-tree interpreter with a symbolic register map): for each of the 15 "
    "architectural registers written with a symbolic value on a symbolic register file, the provenance of every bit of every readable "
    "register is computed and compared (a) with the architectural model (widths 8/16/20, A/B in BA, IL/IH in I, C/Z = F bits 0/1, IL write "
    "clears IH) and (b) between the two languages. Any bit the domain cannot track is TOP and reported as unproved. Inductive over write sequences."
)
TRUSTED = ["syn / CPython parsers", "sa/bits.py transfer functions for & | ^ ~ << >> and carry-free +", "HashMap model: get(k) returns the last inserted value or the source's default"]
CLAIM = ("Decides for an arbitrary prior register state and an arbitrary 32-bit value, per write, the exact bit provenance of every register read afterwards in both register files, "
         "their equality, and the aliasing/width/flag-packing law; by induction over writes this covers all finite write sequences.")
NOTE = "The arithmetic-free bit domain is exact for these functions (no TOP bits remain); it would report `unproved` rather than pass if arithmetic crept in."
TECHNIQUE = "bit-provenance abstract interpretation of both register files + inductive representation invariant"

ARCH = {  # name: (base, shift, width_bits)
    "A": ("BA", 0, 8), "B": ("BA", 8, 8), "BA": ("BA", 0, 16), "IL": ("I", 0, 8), "IH": ("I", 8, 8), "I": ("I", 0, 16),
    "X": ("X", 0, 20), "Y": ("Y", 0, 20), "U": ("U", 0, 20), "S": ("S", 0, 20), "PC": ("PC", 0, 20),
    "F": ("F", 0, 8), "FC": ("F", 0, 1), "FZ": ("F", 1, 1),
}
BASES = {"BA": 16, "I": 16, "X": 20, "Y": 20, "U": 20, "S": 20, "PC": 20, "F": 8}
BASE_STORE_BITS = {"BA": 16, "I": 16, "X": 24, "Y": 24, "U": 24, "S": 24, "PC": 24, "F": 8}


def arch_after(write: str, read: str) -> list:
    """Architectural provenance of `read` after `write := v` on state `old`."""
    wb, ws, ww = ARCH[write]
    rb, rsh, rw = ARCH[read]
    out = []
    for k in range(rw):
        pos = rsh + k   # bit position inside the base register
        if rb != wb:
            out.append((rb, pos, False))
            continue
        if write == "IL" and 8 <= pos < 16:
            out.append(0)                      # IL write clears IH
        elif ws <= pos < ws + ww:
            out.append(("v", pos - ws, False))
        else:
            out.append((rb, pos, False))
    return out


class RsRegs(RsInterp):
    """Rust interpreter with a symbolic HashMap<RegName,u32> register store."""

    def __init__(self, prog: RustProgram, store: dict):
        super().__init__(prog, isa.STATE_RS)
        self.store = store

    def mcall_hook(self, recv: Any, m: str, args: list, env: dict, e: dict) -> Any:
        if recv is self.store:
            if m == "insert":
                self.store[_key(args[0])] = BitVec.lift(args[1]) & 0xFFFFFFFF
                return None
            if m == "get":
                k = _key(args[0])
                return ("some", self.store[k]) if k in self.store else None
        if m == "copied":
            return recv
        if m == "unwrap_or":
            if recv is None:
                return args[0]
            return recv[1] if isinstance(recv, tuple) and recv and recv[0] == "some" else recv
        if m in ("get_reg", "set_reg") and isinstance(recv, dict) and recv.get("__self__"):
            fn = self.prog.fn(isa.STATE_RS, f"LlamaState::{m}")
            params = [p for p in fn.params() if p != "self"]
            env2 = {"self": recv}
            env2.update(dict(zip(params, args)))
            try:
                return self.block(fn.body, env2)
            except Exception as ex:
                from ..rsfacts import _RsReturn
                if isinstance(ex, _RsReturn):
                    return ex.v
                raise
        return NotImplemented


def _key(v: Any) -> str:
    if isinstance(v, tuple) and v and v[0] == "sym":
        return v[1].split("::")[-1]
    if isinstance(v, tuple) and v and v[0] == "ctor":
        return f"Temp{v[2][0]}"
    raise RsNotConst(f"register key {v!r}")


def run(ctx: Ctx) -> None:
    py = PyProgram()
    rs = RustProgram()
    for f in (isa.EMU_PY, isa.CONST_PY, "sc62015/pysc62015/stepper.py"):
        ctx.file_used(REPO / f)
    for s in (isa.STATE_RS, isa.LIB_RS, "core/src/snapshot.rs"):
        ctx.file_used(REPO / rs.file_for(s))
    names = list(ARCH)
    snapshot_capture_live(ctx, py)
    py_tab = python_table(ctx, py, names)
    rs_tab, inv_ok = rust_table(ctx, rs, names)
    n = 0
    for w in names:
        for r in names:
            n += 1
            want = arch_after(w, r)
            width = ARCH[r][2]
            pv = py_tab[(w, r)]
            rv = rs_tab[(w, r)]
            pvb, rvb = list(pv.bits[:32]), list(rv.bits[:32])
            exp = want + [0] * (32 - width)
            if pvb != exp:
                ctx.violation("C08.1/python-law", f"Registers: write {w} read {r}", f"Python: after {w}:=v, {r} has bits {fmt(pvb, width + 2)} but the architecture demands {fmt(exp, width + 2)}", isa.EMU_PY)
            if rvb != exp:
                ctx.violation("C08.1/rust-law", f"LlamaState: write {w} read {r}", f"Rust: after {w}:=v, {r} has bits {fmt(rvb, width + 2)} but the architecture demands {fmt(exp, width + 2)}", rs.file_for(isa.STATE_RS))
            if pvb != rvb:
                ctx.violation("C08.2/python-rust", f"write {w} read {r}", f"register files disagree after {w}:=v reading {r}: Python {fmt(pvb, width + 2)}, Rust {fmt(rvb, width + 2)}", isa.EMU_PY)
            if any(b == TOP for b in pvb + rvb):
                ctx.violation("C08.1/unproved", f"write {w} read {r}:top", f"bit provenance lost (TOP) for write {w} read {r}: the functions left the arithmetic-free fragment", isa.EMU_PY)
    ctx.instance("C08.1-2/write-read-law", "(write R, read Q) pairs x {architectural law, Python, Rust, Python==Rust} on a symbolic register file", n, 196)
    ctx.sample({"write": "IL", "read": "I", "python": fmt(list(py_tab[("IL", "I")].bits[:32]), 16), "rust": fmt(list(rs_tab[("IL", "I")].bits[:32]), 16)})
    ctx.sample({"write": "FZ", "read": "F", "python": fmt(list(py_tab[("FZ", "F")].bits[:32]), 8), "rust": fmt(list(rs_tab[("FZ", "F")].bits[:32]), 8)})
    ctx.sample({"write": "X", "read": "X", "python": fmt(list(py_tab[("X", "X")].bits[:32]), 24), "rust": fmt(list(rs_tab[("X", "X")].bits[:32]), 24)})
    ctx.instance("C08.3/rust-invariant", "F/FC/FZ mirror invariant re-established by each of the 14 writes", len(names), 14, discharged=inv_ok)
    temps(ctx, py, rs)
    snapshot_masks(ctx, py, rs)
    stepper_pairing(ctx, py)
    flag_api_and_snapshot_masks(ctx, py)
    snapshot_blob(ctx, py, rs)
    ctx.extra["exhaustive"] = True


def fmt(bits: list, n: int) -> str:
    return "[" + " ".join(show_bit(b) for b in bits[:n]) + "]"


# ---------------------------------------------------------------------------
def python_table(ctx: Ctx, py: PyProgram, names: list[str]) -> dict:
    mod = py.module(isa.EMU_PY)
    ev0 = PyEval(py, mod)
    rn = ev0.enum_members(ev0.name("RegisterName"))
    base_set = ev0.eval(ast.Attribute(value=ast.Name(id="Registers"), attr="BASE", lineno=0))
    subinfo = ev0.eval(ast.Attribute(value=ast.Name(id="Registers"), attr="_SUBREG_INFO", lineno=0))
    get_fn = py.func(isa.EMU_PY, "Registers.get")
    set_fn = py.func(isa.EMU_PY, "Registers.set")
    # every other class-level constant of Registers (helper tables a refactor may introduce)
    class_consts: dict = {}
    rcls = py.need_cls(mod, "Registers")
    for st in rcls.node.body:
        tgt = st.targets[0] if isinstance(st, ast.Assign) and len(st.targets) == 1 else (st.target if isinstance(st, ast.AnnAssign) and st.value is not None else None)
        if isinstance(tgt, ast.Name) and tgt.id not in ("BASE", "_SUBREG_INFO"):
            try:
                class_consts[tgt.id] = ev0.eval(ast.Attribute(value=ast.Name(id="Registers"), attr=tgt.id, lineno=0))
            except NotConst:
                pass
    tab = {}
    for w in names:
        values = {m: BitVec.sym(m.name, BASE_STORE_BITS.get(m.name, 24)) for m in base_set}
        # stored values respect their own mask (representation invariant of the Python file): narrow to what set() can store
        for m in list(values):
            if m.name in BASES:
                values[m] = BitVec.sym(m.name, BASES[m.name])
        # other instance attributes __init__ gives a constant value (bookkeeping counters, optional caches): supplied so that a set()
        # which also maintains them stays inside the fragment; they play no part in the register law
        init_consts: dict = {}
        init_fn = rcls.methods.get("__init__") if hasattr(rcls, "methods") else None
        for st in (ast.walk(init_fn) if init_fn is not None else []):
            tg = st.targets[0] if isinstance(st, ast.Assign) and len(st.targets) == 1 else (st.target if isinstance(st, ast.AnnAssign) and st.value is not None else None)
            if isinstance(tg, ast.Attribute) and isinstance(tg.value, ast.Name) and tg.value.id == "self" and tg.attr not in ("_values",):
                try:
                    init_consts[tg.attr] = ev0.eval(st.value)
                except NotConst:
                    pass
        selfobj = Term("Registers", (), {**init_consts, **class_consts, "_values": values, "BASE": base_set, "_SUBREG_INFO": subinfo, "call_sub_level": 0})
        ev = PyEval(py, mod, {"self": selfobj, "reg": rn[w], "value": BitVec.sym("v", 32)}, budget=[200000])
        try:
            _exec_fn(ev, set_fn)
        except NotConst as e:
            raise AnalysisError(f"Registers.set left the interpretable fragment for {w}: {e}")
        for r in names:
            ev2 = PyEval(py, mod, {"self": selfobj, "reg": rn[r]}, budget=[200000])
            try:
                v = _exec_fn(ev2, get_fn)
            except NotConst as e:
                raise AnalysisError(f"Registers.get left the interpretable fragment for {r}: {e}")
            tab[(w, r)] = BitVec.lift(v)
    ctx.functions_analysed += 2
    return tab


def _exec_fn(ev: PyEval, fn: ast.FunctionDef) -> Any:
    from ..pyfacts import _Return
    try:
        ev.exec_block(fn.body)
    except _Return as r:
        return r.v
    return None


def rust_table(ctx: Ctx, rs: RustProgram, names: list[str]) -> tuple[dict, int]:
    tab = {}
    inv_ok = 0

    def fresh_store() -> dict:
        st = {}
        for b, wbits in BASES.items():
            if b == "F":
                continue
            st[b] = BitVec.sym(b, wbits)
        # F, FC, FZ related by the representation invariant: FC = F.0, FZ = F.1
        f = BitVec.sym("F", 8)
        st["F"] = f
        st["FC"] = BitVec([("F", 0, False)])
        st["FZ"] = BitVec([("F", 1, False)])
        return st

    def sym(nm: str) -> tuple:
        return ("sym", f"RegName::{nm}")
    for w in names:
        store = fresh_store()
        it = RsRegs(rs, store)
        selfobj = {"__self__": True, "regs": store}
        try:
            it.mcall_hook(selfobj, "set_reg", [sym(w), BitVec.sym("v", 32)], {}, {})
        except RsNotConst as e:
            raise AnalysisError(f"LlamaState::set_reg left the interpretable fragment for {w}: {e}")
        for r in names:
            try:
                v = it.mcall_hook(selfobj, "get_reg", [sym(r)], {}, {})
            except RsNotConst as e:
                raise AnalysisError(f"LlamaState::get_reg left the interpretable fragment for {r}: {e}")
            tab[(w, r)] = BitVec.lift(v)
        # invariant: stored FC == stored F bit0, FZ == F bit 1
        f, fc, fz = store["F"], store["FC"], store["FZ"]
        if fc.bits[0] == f.bits[0] and fz.bits[0] == f.bits[1] and all(b == 0 for b in fc.bits[1:8]) and all(b == 0 for b in fz.bits[1:8]):
            inv_ok += 1
        else:
            ctx.violation("C08.3/rust-invariant", f"LlamaState::set_reg({w}):F-mirrors", f"after writing {w} the stored F/FC/FZ disagree: F={fmt(list(f.bits), 3)} FC={fmt(list(fc.bits), 2)} FZ={fmt(list(fz.bits), 2)}", rs.file_for(isa.STATE_RS))
    ctx.functions_analysed += 3
    return tab, inv_ok


# ---------------------------------------------------------------------------
def temps(ctx: Ctx, py: PyProgram, rs: RustProgram) -> None:
    """Temporaries: 14 independent 24-bit cells in both files."""
    n_py = py.value(isa.EMU_PY, "NUM_TEMP_REGISTERS")
    sizes = {k.name: v for k, v in py.value(isa.EMU_PY, "REGISTER_SIZE").items()}
    n = 0
    store = {}
    it = RsRegs(rs, store)
    selfobj = {"__self__": True, "regs": store}
    for i in range(n_py):
        n += 1
        it.mcall_hook(selfobj, "set_reg", [("ctor", "RegName::Temp", [i]), BitVec.sym("v", 32)], {}, {})
        v = BitVec.lift(it.mcall_hook(selfobj, "get_reg", [("ctor", "RegName::Temp", [i])], {}, {}))
        want = [("v", k, False) for k in range(8 * sizes[f"TEMP{i}"])] + [0] * (32 - 8 * sizes[f"TEMP{i}"])
        if list(v.bits[:32]) != want:
            ctx.violation("C08.1/temps", f"Temp{i}", f"Rust TEMP{i} read-after-write is {fmt(list(v.bits), 26)}, Python stores {8 * sizes[f'TEMP{i}']} bits", rs.file_for(isa.STATE_RS))
    ctx.instance("C08.1/temps", "scratch registers TEMP0..13: width agreement and independence", n, 14)


def snapshot_masks(ctx: Ctx, py: PyProgram, rs: RustProgram) -> None:
    """collect_registers masks with the layout width, apply_registers with register_width: both must keep every architectural bit."""
    layout = rs.eval_const("core/src/snapshot.rs", "SNAPSHOT_REGISTER_LAYOUT")
    widths = {}
    fn = rs.fn(isa.LIB_RS, "register_width")
    for nd in walk(fn.body):
        if nd.get("k") == "arm":
            pat = nd["pat"]
            alts = pat["cases"] if pat.get("k") == "p_or" else [pat]
            for a in alts:
                if a.get("k") == "p_lit":
                    widths.setdefault(a["e"]["v"], rs.evaluator(isa.LIB_RS).eval(nd["body"]))       # a match takes its first matching arm
    n = 0
    for name, wbytes in layout:
        n += 1
        arch_bits = ARCH[name][2]
        if 8 * wbytes < arch_bits:
            ctx.violation("C08.4/snapshot-mask", f"SNAPSHOT_REGISTER_LAYOUT[{name}]", f"snapshot stores {8 * wbytes} bits of {name}, register has {arch_bits}", "snapshot.rs")
        if widths.get(name, 0) < arch_bits:
            ctx.violation("C08.4/snapshot-mask", f"register_width[{name}]", f"apply_registers masks {name} to {widths.get(name)} bits, register has {arch_bits}: a restored snapshot loses bits", rs.file_for(isa.LIB_RS))
    ctx.instance("C08.4/snapshot-mask", "snapshot layout / register_width keep every architectural bit of the 8 base registers", n, 8)


def stepper_pairing(ctx: Ctx, py: PyProgram) -> None:
    """CPURegistersSnapshot: every register captured by from_registers is written back whole by apply_to (`regs.set(R, self.field)`)."""
    rel = "sc62015/pysc62015/stepper.py"
    cap = py.func(rel, "CPURegistersSnapshot.from_registers")
    app = py.func(rel, "CPURegistersSnapshot.apply_to")
    captured: dict[str, str] = {}
    for c in ast.walk(cap):
        if isinstance(c, ast.Call) and isinstance(c.func, ast.Name) and c.func.id == "cls":
            for kw in c.keywords:
                v = kw.value
                if isinstance(v, ast.Call) and unparse(v.func) == "regs.get" and v.args and unparse(v.args[0]).startswith("RegisterName."):
                    captured[kw.arg] = unparse(v.args[0]).split(".")[-1]
    if len(captured) < 8:
        raise AnalysisError(f"CPURegistersSnapshot.from_registers: only {len(captured)} captured registers recognised")
    restored: dict[str, str] = {}
    for c in ast.walk(app):
        if isinstance(c, ast.Call) and unparse(c.func) == "regs.set" and len(c.args) == 2 and unparse(c.args[0]).startswith("RegisterName."):
            restored[unparse(c.args[0]).split(".")[-1]] = unparse(c.args[1])
    n = 0
    for fieldname, reg in sorted(captured.items()):
        n += 1
        got = restored.get(reg)
        if got != f"self.{fieldname}":
            ctx.violation("C08.4/snapshot-apply", f"{rel}::CPURegistersSnapshot.apply_to::{reg}",
                          f"the snapshot captures {reg} into `{fieldname}` but apply_to {'writes `' + got + '`' if got else 'never writes ' + reg + ' back as a whole (e.g. only through set_flag)'}: "
                          f"a snapshot applied to a fresh register file does not reproduce every readable value of {reg}", f"{rel}:{app.lineno}")
    ctx.instance("C08.4/snapshot-apply", "registers captured by CPURegistersSnapshot.from_registers and written back whole by apply_to", n, 8)


def flag_api_and_snapshot_masks(ctx: Ctx, py: PyProgram) -> None:
    """(a) set_flag/get_flag are the register accessors under another name: the value goes to Registers.set unmodified (truncation to the
    flag's single bit happens there, like the Rust write_flag), get_flag returns Registers.get; (b) no mask applied to a snapshot field
    anywhere in CPURegistersSnapshot is narrower than the register it holds."""
    n = 0
    for q, callee in (("Registers.set_flag", "self.set"), ("Registers.get_flag", "self.get")):
        fn = py.func(isa.EMU_PY, q)
        calls = [c for c in ast.walk(fn) if isinstance(c, ast.Call) and unparse(c.func) == callee]
        n += 1
        if len(calls) != 1:
            ctx.violation("C08.1/flag-api", f"{isa.EMU_PY}::{q}::delegation", f"{q} does not delegate to {callee}(reg, ..) exactly once", f"{isa.EMU_PY}:{fn.lineno}")
            continue
        if q.endswith("set_flag"):
            arg = calls[0].args[1] if len(calls[0].args) > 1 else None
            if arg is None or unparse(arg) != "value":
                ctx.violation("C08.1/flag-api", f"{isa.EMU_PY}::{q}::value rewritten", f"set_flag passes `{unparse(arg) if arg is not None else '?'}` to Registers.set instead of the value itself: writing a flag by name and by register differ "
                              "(e.g. value 2: by register -> bit 0 = 0 as in the Rust core, by name -> 1)", f"{isa.EMU_PY}:{fn.lineno}")
    # by-name accessors (the LLIL evaluator's SET_REG / REG path) are the register accessors under another name as well, on every path:
    # the write is forwarded whatever the register currently holds (a write of IL with the byte it already holds still clears IH)
    for q, callee in (("Registers.set_by_name", "self.set"), ("Registers.get_by_name", "self.get"), ("Registers.set_flag", "self.set"), ("Registers.get_flag", "self.get")):
        fn = py.func(isa.EMU_PY, q)
        calls = [c for c in ast.walk(fn) if isinstance(c, ast.Call) and unparse(c.func) == callee]
        n += 1
        if q.endswith("_by_name") and len(calls) != 1:
            ctx.violation("C08.1/flag-api", f"{isa.EMU_PY}::{q}::delegation", f"{q} does not delegate to {callee}(reg, ..) exactly once", f"{isa.EMU_PY}:{fn.lineno}")
            continue
        if not calls:
            continue
        if "set" in q.split(".")[1][:3]:
            the = calls[-1]
            arg = the.args[1] if len(the.args) > 1 else None
            prm = [a_.arg for a_ in fn.args.args if a_.arg != "self"]
            if q.endswith("_by_name") and (arg is None or unparse(arg) != (prm[1] if len(prm) > 1 else "value")):
                ctx.violation("C08.1/flag-api", f"{isa.EMU_PY}::{q}::value rewritten", f"{q} passes `{unparse(arg) if arg is not None else '?'}` to Registers.set instead of the value itself", f"{isa.EMU_PY}:{fn.lineno}")
            g = cfgmod.build_py(fn, q)
            state_reads = lambda e: any((isinstance(x, ast.Call) and unparse(x.func) in ("self.get", "self.get_by_name", "self.get_flag")) or (isinstance(x, ast.Attribute) and unparse(x) == "self._values") for x in ast.walk(e))
            for a, pol, _o in g.guards_of(g.node_of(the)):
                if isinstance(a, ast.AST) and state_reads(a):
                    ctx.violation("C08.1/flag-api", f"{isa.EMU_PY}::{q}::write skipped depending on the current contents",
                                  f"{q} forwards to Registers.set only when `{unparse(a)[:70]}` is {str(pol).lower()}: the write is skipped depending on what the register holds, but a sub-register write has effects beyond "
                                  "its own bits (IL <- the byte it already holds must still clear IH)", f"{isa.EMU_PY}:{the.lineno}")
    ctx.instance("C08.1/flag-api", "set_flag / get_flag / set_by_name / get_by_name delegate to Registers.set / get, value unchanged, on every path", n, 6)
    # (b)
    rel = "sc62015/pysc62015/stepper.py"
    mod = py.module(rel)
    cls = py.need_cls(mod, "CPURegistersSnapshot")
    sizes = {k.name: v for k, v in py.value(isa.EMU_PY, "REGISTER_SIZE").items()}
    arch_bits = {"pc": 20, "x": 20, "y": 20, "u": 20, "s": 20, "ba": 16, "i": 16, "f": 8, "temps": 8 * sizes.get("TEMP0", 3)}
    k = 0
    for name, fn in cls.methods.items():
        for b in ast.walk(fn):
            if not (isinstance(b, ast.BinOp) and isinstance(b.op, ast.BitAnd)):
                continue
            try:
                m = PyEval(py, mod).eval(b.right)
            except NotConst:
                continue
            if not isinstance(m, int) or isinstance(m, bool):
                continue
            txt = unparse(b.left)
            fields = [f for f in arch_bits if f"self.{f}" in txt or (f == "temps" and ("temps" in unparse(fn) and txt in ("value",) and "temps" in _enclosing_text(fn, b)))]
            for f in fields:
                k += 1
                if m.bit_length() < arch_bits[f] and m != 1 and m != 2:
                    ctx.violation("C08.4/snapshot-mask", f"{rel}::CPURegistersSnapshot.{name}::{f} masked to {m.bit_length()} bits",
                                  f"CPURegistersSnapshot.{name} masks `{txt}` with {m:#x} ({m.bit_length()} bits) but {f} holds {arch_bits[f]}-bit values: snapshot + apply loses bits {m.bit_length()}..{arch_bits[f] - 1}", f"{rel}:{b.lineno}")
    ctx.instance("C08.4/snapshot-field-masks", "constant masks applied to snapshot fields inside CPURegistersSnapshot", k, 0)


def _enclosing_text(fn: ast.FunctionDef, node: ast.AST) -> str:
    for st in ast.walk(fn):
        if isinstance(st, (ast.Assign, ast.AugAssign, ast.For, ast.DictComp)) and any(x is node for x in ast.walk(st)):
            return unparse(st)
    return ""


def snapshot_blob(ctx: Ctx, py: PyProgram, rs: RustProgram) -> None:
    """Register values survive the snapshot blob: (a) the packed layout and its little-endian pack/unpack pairs (rule shared with C16);
    (b) the Rust restore writes every layout register *whole*, through the name looked up from the layout - a restore through
    sub-registers is not the identity (writing IL clears IH)."""
    from .c16 import layout, temp_key_format
    layout(ctx, py, rs)
    temp_key_format(ctx, py, rs)       # the scratch registers travel in the metadata, keyed by name: writer and reader spellings agree
    from .c16 import rust_apply_whole
    rust_apply_whole(ctx, rs, "C08.4/snapshot-apply", "C08.4/rust-snapshot-apply")


def snapshot_capture_live(ctx: Ctx, py: PyProgram) -> None:
    """`CPURegistersSnapshot.from_registers(regs)` reads the register file as it is now: every return hands back a record built by
    this call.  A return of a remembered record is acceptable only under a write-generation test, and then every store into the
    register storage must bump that generation before the storing method returns - a store path that skips the bump (a special case
    with its own early return) makes the next capture stale."""
    rel = "sc62015/pysc62015/stepper.py"
    fn = py.func(rel, "CPURegistersSnapshot.from_registers")
    params = [a.arg for a in fn.args.args if a.arg not in ("cls", "self")]
    if not params:
        raise AnalysisError("from_registers has no register-file parameter")
    regs = params[0]
    from ..rules import py_defs
    d = py_defs(fn)
    parent = {}
    for p_ in ast.walk(fn):
        for ch in ast.iter_child_nodes(p_):
            parent[id(ch)] = p_

    def fresh(v: ast.AST, depth: int = 0) -> bool:
        if isinstance(v, ast.Call) and isinstance(v.func, ast.Name) and v.func.id in ("cls", "CPURegistersSnapshot"):
            return True
        if isinstance(v, ast.Name) and v.id in d and depth < 3:
            return all(isinstance(x, ast.AST) and fresh(x, depth + 1) for x in d[v.id])
        return False
    n = 0
    emod = py.module(isa.EMU_PY)
    rcls = next(c for c in ast.walk(emod.tree) if isinstance(c, ast.ClassDef) and c.name == "Registers")
    for r in [r for r in ast.walk(fn) if isinstance(r, ast.Return) and r.value is not None]:
        n += 1
        if fresh(r.value):
            continue
        # which attributes of the register file guard this return?
        counters = set()
        anc = parent.get(id(r))
        while anc is not None and anc is not fn:
            if isinstance(anc, ast.If):
                for x in ast.walk(anc.test):
                    nm = x.id if isinstance(x, ast.Name) else None
                    exprs = [x] + ([v for v in d.get(nm, []) if isinstance(v, ast.AST)] if nm else [])
                    for e in exprs:
                        for y in ast.walk(e):
                            if isinstance(y, ast.Attribute) and isinstance(y.value, ast.Name) and y.value.id == regs:
                                counters.add(y.attr)
                            if isinstance(y, ast.Call) and isinstance(y.func, ast.Name) and y.func.id == "getattr" and len(y.args) >= 2 and isinstance(y.args[0], ast.Name) and y.args[0].id == regs and isinstance(y.args[1], ast.Constant):
                                counters.add(str(y.args[1].value))
            anc = parent.get(id(anc))
        unbumped = []
        for m in [m for m in rcls.body if isinstance(m, ast.FunctionDef)]:
            for blk in ast.walk(m):
                for fld in ("body", "orelse"):
                    stmts = getattr(blk, fld, None)
                    if not isinstance(stmts, list):
                        continue
                    for i, st in enumerate(stmts):
                        if isinstance(st, (ast.Assign, ast.AugAssign)) and any(isinstance(t, ast.Subscript) and attr_chain(t.value) == "self._values" for t in (st.targets if isinstance(st, ast.Assign) else [st.target])):
                            tail = stmts[i + 1:]
                            upto = next((j for j, x in enumerate(tail) if isinstance(x, ast.Return)), len(tail))
                            bumped = {t.attr for x in tail[:upto + 0] if isinstance(x, (ast.Assign, ast.AugAssign)) for t in (x.targets if isinstance(x, ast.Assign) else [x.target]) if isinstance(t, ast.Attribute) and attr_chain(t.value) == "self"}
                            if not (bumped & counters):
                                unbumped.append((m.name, st.lineno))
        what = (f"guarded by {sorted(counters)} of the register file, but Registers.{unbumped[0][0]} stores a register at line {unbumped[0][1]} and returns without bumping it" if counters and unbumped
                else "with no test that the register file is unchanged" if not counters else None)
        if what:
            ctx.violation("C08.3/capture-live", key_of(rel, "CPURegistersSnapshot.from_registers", "returns a remembered snapshot"),
                          f"from_registers returns `{unparse(r.value)[:60]}`, a snapshot remembered from an earlier call, {what}: the capture (and what apply_to / to_dict later write) shows register values from before that store", f"{rel}:{r.lineno}")
    ctx.instance("C08.3/capture-live", "returns of CPURegistersSnapshot.from_registers: built by this call (or guarded by a write generation every store path bumps)", n, 1)
