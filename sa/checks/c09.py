"""C09 - disassembled text reassembles to an equivalent instruction.

Decides, for the complete structural encoding space (15 prefixes and none x 256 opcodes x mode/selector bytes, operand values symbolic):
  the text render() produces for the decoded form (numbers as hexadecimal literals, internal registers by name or number)
    1 GRAMMAR   is a sentence of asm.lark
    2 ASSEMBLE  is accepted by AsmTransformer + Assembler (both passes), interpreted from source over the symbolic values
    3 LENGTH    the emitted bytes are exactly the bytes the decoder consumes for them
    4 TEXT      decoding the emitted bytes renders the same text (=> a second disassemble/assemble round changes nothing: assembly is a
                function of the text)
    5 LIFT      and lifts to the same IL (instruction ends aligned so return addresses / relative targets coincide)
Failures are attributed to the construct at the first stage that deviates (grammar alternative, transformer handler, prefix-table entry,
operand encoder) and keyed by that construct, not by the encoding."""
from __future__ import annotations

import ast
import collections
import multiprocessing as mp
import os
import re
from typing import Any

from .. import isa
from ..absint import Raised, Unknown
from ..asm_abs import ASM_ASSUMPTIONS, ASM_PY, GRAMMAR, SC_ASM_PY, AsmAbs, SymStr, parse_sym
from ..bits import BitVec
from ..core import REPO, AnalysisError, Ctx
from ..isa_abs import ASSUMPTIONS
from ..isa_sweep import ADDR, MAXLEN, Case, Sweeper, sweep
from ..pyfacts import PyProgram
from ..rules import key_of
from .c03 import parse_operands

LEVEL = "other"
EXPLANATION = (
    "Every decoded form of the abstract ISA sweep (operand values are symbolic bit-vectors) is rendered, turned into assembler text with one placeholder "
    "literal per symbolic value, parsed with asm.lark (lark, configured from asm.py's Lark(...) call), pushed through the AsmTransformer handlers and "
    "Assembler._first_pass/_second_pass by abstract interpretation of their source, and the emitted bit-vectors are decoded, rendered and lifted again by the "
    "same abstract decoder. One run of a form stands for all values of its operand bytes; the form list is complete for prefix x opcode x selector classes."
)
TRUSTED = ["CPython ast", "lark (Earley) as the reading of asm.lark", "sa/absint.py + sa/bits.py + sa/asm_abs.py", *ASSUMPTIONS, *ASM_ASSUMPTIONS]
CLAIM = ("Decides for every encoding form (prefix x opcode x mode byte; operand values symbolic, so all values at once) that the rendered text is accepted by the grammar and the assembler, and that the "
         "bytes emitted decode to the same length, the same text and the same IL. Known deviations of the current tree are listed per responsible construct; any other form that stops round-tripping is a violation.")
NOTE = ("Label/expression operands and multi-statement programs belong to C10. PRE bytes alone and UnknownInstruction placeholders are not instructions and are out of scope. "
        "Numeric literals are given as 0x-prefixed hexadecimal; named internal registers are tried both by name and, where the value is not a named register, by number.")
TECHNIQUE = "abstract interpretation of grammar -> transformer -> two-pass assembler over the rendered forms of the abstract decoder sweep, re-decoded and compared (text, length, IL)"

OUT_OF_SCOPE = {"PRE": "a prefix byte without an instruction is not an instruction (analyze/lift raise InvalidInstruction)",
                "UnknownInstruction": "placeholder for undefined opcodes, rendered as '??? (xx)'"}

_W: tuple | None = None


def _winit() -> None:
    global _W
    sw = Sweeper()
    _W = (sw, AsmAbs(sw.ia), {})


# ---------------------------------------------------------------------------
# text construction

def build_text(tokens: list, named: bool) -> tuple[str, dict]:
    """(text, symtab): symbolic integers become placeholder literals 0x9A0k, symbolic register names placeholder identifiers."""
    symtab: dict[str, SymStr] = {}
    byval: dict[str, str] = {}
    out = []

    def num(s: str) -> str:
        if s not in byval:
            ph = f"0x9A{len(byval) + 1:02X}"
            byval[s] = ph
            symtab[ph] = SymStr(ph, "num", parse_sym(s))
        return byval[s]

    def name(s: str) -> str:
        key = "name:" + s
        if key not in byval:
            ph = f"IMEMREGPH{len(byval) + 1}"
            byval[key] = ph
            symtab[ph] = SymStr(ph, "name", parse_sym(s))
        return byval[key]

    for kind, text in tokens:
        if kind == "TBegMem":
            out.append("[" if "EXTERNAL" in text else "(")
        elif kind == "TEndMem":
            out.append("]" if "EXTERNAL" in text else ")")
        elif kind in ("TInt", "TAddr"):
            sign = ""
            t = text
            if t[:1] in "+-":
                sign, t = t[0], t[1:]
            if t.startswith("<") and t.endswith(">"):
                out.append(sign + num(t[1:-1]))
            elif t.lower().startswith("0x"):
                out.append(sign + t)
            else:
                if not re.fullmatch(r"[0-9A-Fa-f]+", t):
                    raise AnalysisError(f"integer token {text!r} is not hexadecimal")
                out.append(sign + "0x" + t)
        elif kind == "TText" and text.startswith("<") and text.endswith(">"):
            out.append(name(text[1:-1]) if named else num(text[1:-1]))
        else:
            out.append(text)
    return "".join(out), symtab


def offset_symbols(tokens: list) -> frozenset:
    """Names of the symbolic bytes printed as numbers inside offset-mode internal-memory operands."""
    out = set()
    depth = 0
    for i, (k, t) in enumerate(tokens):
        if k == "TBegMem" and "INTERNAL" in t:
            depth += 1
        elif k == "TEndMem" and "INTERNAL" in t:
            depth -= 1
        elif depth and k == "TInt" and t.startswith("<") and i >= 1 and tokens[i - 1] == ("TSep", "+"):
            out |= set(re.findall(r"[A-Za-z_]\w*", t))
    return frozenset(out)


def has_offset_imem_number(tokens: list) -> bool:
    """A symbolic number inside an internal-memory operand of an offset mode: (BP+n), (PX+n), (PY+n) - printed as a number whatever n is."""
    depth = 0
    for i, (k, t) in enumerate(tokens):
        if k == "TBegMem" and "INTERNAL" in t:
            depth += 1
        elif k == "TEndMem" and "INTERNAL" in t:
            depth -= 1
        elif depth and k == "TInt" and t.startswith("<") and i >= 1 and tokens[i - 1] == ("TSep", "+"):
            return True
    return False


def has_symbolic_name(tokens: list) -> bool:
    return any(k == "TText" and t.startswith("<") for k, t in tokens)


_LBL = re.compile(r"Label\((\d+)\)")


def canon_il(il: list[str]) -> list[str]:
    m: dict[str, str] = {}

    def sub(mo: re.Match) -> str:
        return "Label(" + m.setdefault(mo.group(1), str(len(m))) + ")"
    return [_LBL.sub(sub, s) for s in il]


# ---------------------------------------------------------------------------
# one form

def _mode_sig(tokens: list) -> str:
    try:
        ops = parse_operands(tokens)
    except Exception:
        return "?"
    ms = []
    for o in ops:
        if o.get("kind") in ("imem", "emem_imem"):
            ms.append(("[" if o["kind"] == "emem_imem" else "") + str(o.get("mode")) + ("]" if o["kind"] == "emem_imem" else ""))
    return ",".join(ms) or "-"


def _norm_msg(msg: str) -> str:
    msg = msg.split("\n")[0]
    msg = re.sub(r"^on line \d+: ", "", msg)
    msg = re.sub(r"0x[0-9A-Fa-f]+|\b[0-9]+\b", "N", msg)
    msg = re.sub(r"#\d+", "#", msg)
    return msg[:160]


def check_form(job: tuple) -> dict:
    """job = (pre, opcode, selector, n, length, cls, name, tokens, il, variant)"""
    global _W
    if _W is None:
        _winit()
    sw, aa, cache = _W
    pre, opcode, selector, n, length, cls, name, tokens, il, named, regpair, fixed = job
    out = {"pre": pre, "opcode": opcode, "selector": selector, "named": named, "cls": cls, "name": name, "sig": _mode_sig(tokens), "regpair": regpair, "fixed": fixed}
    text, symtab = build_text(tokens, named is True)
    out["text"] = text
    ck = (text, named, tuple(sorted((k, repr(v.bv)) for k, v in symtab.items())))
    if ck not in cache:
        try:
            # "nm": the text is numeric but the number happens to be the address of a named register - what the disassembler prints
            # for offset modes such as (BP+E6), where it never substitutes the name
            cache[ck] = aa.assemble_text(text, symtab, sym_enum="member" if named is True else "invalid", member_syms=offset_symbols(tokens) if named == "nm" else frozenset())
        except Unknown as e:
            cache[ck] = {"status": "unknown", "exc": str(e), "symbols": sorted(getattr(e, "symbols", ()))}
    r = cache[ck]
    out["alias"] = r.get("alias")
    if "facts" not in r:
        r["facts"] = _facts(aa, r)
    out.update(r["facts"])
    out["text_modes"] = _text_modes(tokens)
    if r["status"] == "unknown":
        # the assembler branches on an operand value: decide the form value by value
        syms = [x for x in r.get("symbols", []) if len(x) == 3 and x.startswith("in") and x[2].isdigit()]
        idx = [int(x[2]) + 1 for x in syms if int(x[2]) + 1 not in dict(fixed) and not (int(x[2]) == 0 and selector is not None)]
        if not idx or len(fixed) >= 2:
            out.update(verdict="unknown", detail=r["exc"])
            return out
        k = idx[0]
        subs = []
        for v in range(256):
            fx = {**dict(fixed), k: v}
            c2 = sw.run_case(pre, opcode, selector, ("render", "lift"), fixed=fx)
            if c2.status != "ok" or c2.render_exc:
                continue
            subs.append((v, check_form((pre, opcode, selector, c2.n, c2.length, c2.cls, c2.name, c2.tokens, c2.il, named, regpair, tuple(sorted(fx.items()))))))
        bad = [(v, x) for v, x in subs if x["verdict"] not in ("identical", "equivalent")]
        if not bad:
            out["verdict"] = "equivalent"
            return out
        worst = bad[0][1]
        out.update({kk: vv for kk, vv in worst.items() if kk not in ("pre", "opcode", "selector", "named")})
        out["detail"] = f"{worst.get('detail', '')} [for operand byte {k - 1} in {_ranges([v for v, _x in bad])}]"
        out["value_dependent"] = True
        return out
    if r["status"] == "parse-error":
        out.update(verdict="grammar", detail=r["exc"])
        return out
    if r["status"] == "error":
        out.update(verdict="asm-error", detail=f"{r['exc']}: {_norm_msg(r.get('msg', ''))}", stage=r.get("stage"), where=r.get("where", ""))
        return out
    segs = r["segments"]
    if len(segs) != 1 or segs[0][0] != 0:
        out.update(verdict="layout", detail=f"{len(segs)} segments at {[s[0] for s in segs]}")
        return out
    emitted = [BitVec.lift(b) for b in segs[0][1]]
    original = ([BitVec.const(pre)] if pre is not None else []) + [BitVec.const(opcode)] + [BitVec.sym(f"in{j}", 8) for j in range(n - 1)]
    if selector is not None and n > 1:
        original[(1 if pre is not None else 0) + 1] = BitVec.const(selector)
    for k, v in fixed:
        if k < n:
            original[(1 if pre is not None else 0) + k] = BitVec.const(v)
    out["emitted"] = [_bstr(b) for b in emitted]
    if len(emitted) == len(original) and all(list(a.bits[:8]) == list(b.bits[:8]) for a, b in zip(emitted, original)):
        out["verdict"] = "identical"
        return out
    # decode what was emitted
    if not emitted or not emitted[0].is_const():
        out.update(verdict="opcode-symbolic", detail="first emitted byte is not a constant")
        return out
    rows = sw._c09_rows if hasattr(sw, "_c09_rows") else None
    if rows is None:
        rows = sw._c09_rows = isa.py_rows(sw.py)
    pre2 = None
    rest = emitted
    if rows.get(emitted[0].value()) is not None and rows[emitted[0].value()].cls == "PRE" and len(emitted) > 1:
        pre2, rest = emitted[0].value(), emitted[1:]
    if not rest[0].is_const():
        out.update(verdict="opcode-symbolic", detail="emitted opcode byte is not a constant")
        return out
    pad = [BitVec.sym(f"pad{j}", 8) for j in range(MAXLEN - len(rest))]
    total2 = len(emitted)
    try:
        c2 = sw.run_case(pre2, rest[0].value(), None, ("render", "lift"), data=rest + pad, addr=ADDR + length - total2)
    except Unknown as e:
        out.update(verdict="unknown", detail=f"re-decode left the fragment: {e}")
        return out
    if c2.status != "ok":
        out.update(verdict="redecode", detail=f"decoder rejects the emitted bytes: {c2.status}")
        return out
    if c2.length != total2:
        out.update(verdict="length", detail=f"assembler emits {total2} byte(s), decoder consumes {c2.length}", sig2=_mode_sig(c2.tokens))
        return out
    if c2.render_exc or c2.tokens != tokens:
        t2 = "".join(t for _k, t in c2.tokens)
        out.update(verdict="text", detail=f"{_mode_sig(tokens)} -> {_mode_sig(c2.tokens)}" if _mode_sig(tokens) != _mode_sig(c2.tokens) else "operands differ", text2=t2 or c2.render_exc, sig2=_mode_sig(c2.tokens))
        return out
    if canon_il(c2.il) != canon_il(il) or bool(c2.lift_exc):
        d = next((f"{a} != {b}" for a, b in zip(canon_il(il), canon_il(c2.il)) if a != b), f"{len(il)} vs {len(c2.il)} statements")
        out.update(verdict="lift", detail=d[:300])
        return out
    out["verdict"] = "equivalent"
    return out


def _subst(bv: BitVec, name: str, value: int) -> BitVec:
    bits = []
    for b in bv.bits:
        if isinstance(b, tuple) and len(b) == 3 and b[0] == name:
            v = (value >> b[1]) & 1
            bits.append(v ^ 1 if b[2] else v)
        else:
            bits.append(b)
    return BitVec(bits)


def check_name(job: tuple) -> dict:
    """job = (pre, opcode, tokens, reg_name, reg_value).  The form is assembled twice by abstract interpretation: with the register as
    a *symbolic* member of IMEMRegisters (what check_form decides for all registers at once) and with the concrete name `reg_name`
    spelled out (the other numbers stay symbolic).  Spelling the name out must give the symbolic result instantiated at its value:
    no register name may mean something else to the grammar or the transformer."""
    global _W
    if _W is None:
        _winit()
    _sw, aa, cache = _W
    pre, opcode, tokens, reg_name, reg_value = job
    text_s, symtab = build_text(tokens, True)
    ph = next((k for k, v in symtab.items() if v.kind == "name"), None)
    out = {"pre": pre, "opcode": opcode, "name": reg_name, "value": reg_value, "same": True, "skipped": False}
    if ph is None:
        out["skipped"] = True
        return out
    from ..absint import sym_name
    symname = sym_name(symtab[ph].bv)
    ck = (text_s, True, tuple(sorted((k, repr(v.bv)) for k, v in symtab.items())))
    if ck not in cache:
        try:
            cache[ck] = aa.assemble_text(text_s, symtab, sym_enum="member")
        except Unknown as e:
            cache[ck] = {"status": "unknown", "exc": str(e), "symbols": sorted(getattr(e, "symbols", ()))}
    rs = cache[ck]
    text_c = re.sub(r"\b" + re.escape(ph) + r"\b", reg_name, text_s)
    st2 = {k: v for k, v in symtab.items() if k != ph}
    ck2 = ("concrete", text_c, tuple(sorted((k, repr(v.bv)) for k, v in st2.items())))
    if ck2 not in cache:
        try:
            cache[ck2] = aa.assemble_text(text_c, st2, sym_enum="member")
        except Unknown as e:
            cache[ck2] = {"status": "unknown", "exc": str(e)}
    rc = cache[ck2]
    out["text"] = text_c
    if rs["status"] == "unknown" or rc["status"] == "unknown":
        out["skipped"] = True     # the assembler branches on the register value: check_form splits that form value by value
        return out

    def segs(r: dict, inst: bool) -> Any:
        if r["status"] != "ok":
            return (r["status"], r.get("exc"))
        return [(a, [_bstr(_subst(BitVec.lift(b), symname, reg_value) if inst else BitVec.lift(b)) for b in bs]) for a, bs in r["segments"]]
    exp, got = segs(rs, True), segs(rc, False)
    out.update(same=(exp == got), expected=exp, got=got)
    return out


def _text_modes(tokens: list) -> list[str]:
    try:
        ops = parse_operands(tokens)
    except Exception:
        return ["?"]
    return [str(o.get("mode")) for o in ops if o.get("kind") in ("imem", "emem_imem")]


def _facts(aa: AsmAbs, r: dict) -> dict:
    prog = r.get("program")
    if not isinstance(prog, dict):
        return {"carried": None, "chosen_pre": None}
    opss = aa.parsed_ops(prog)
    if len(opss) != 1:
        return {"carried": None, "chosen_pre": None}
    carried = aa.carried_modes(opss[0])
    pre = None
    for ins in r.get("instrs") or []:
        p = ins.attrs.get("_pre")
        pre = p.value() if isinstance(p, BitVec) and p.is_const() else p
    return {"carried": [m for m, _p in carried], "chosen_pre": pre}


def _ranges(vals: list[int]) -> str:
    vals = sorted(vals)
    out, i = [], 0
    while i < len(vals):
        j = i
        while j + 1 < len(vals) and vals[j + 1] == vals[j] + 1:
            j += 1
        out.append(f"0x{vals[i]:02X}" if i == j else f"0x{vals[i]:02X}..0x{vals[j]:02X}")
        i = j + 1
    return ",".join(out)


def _bstr(b: BitVec) -> str:
    from ..absint import sym_name
    return f"{b.value():02X}" if b.is_const() else "<" + sym_name(b) + ">"


# ---------------------------------------------------------------------------

def attribute(r: dict) -> tuple[str, str, str]:
    """(rule, construct key, description) for a failing form: the construct at the first stage whose contract with the decoder breaks."""
    v = r["verdict"]
    alias = r.get("alias") or "?"
    mn = r["name"]
    tm = r.get("text_modes") or []
    if v == "grammar":
        return ("C09.1/grammar", f"{GRAMMAR}: {mn} {r['sig']}", f"rendered text is not a sentence of the grammar ({r['detail']})")
    carried = r.get("carried")
    # an operand whose mode is not carried is encoded without prefix = the decoder's default (BP+n): harmless for BP_N text
    if carried is not None and carried != tm and (any(m != "BP_N" for m in tm) or any(m != "BP_N" for m in carried)):
        how = "drops" if len(carried) < len(tm) else "changes"
        return ("C09.2/mode-carry", f"{ASM_PY}: AsmTransformer.{alias} {how} the addressing mode of an internal-memory operand",
                f"the handler rebuilds the operand from its number only: text modes {tm}, modes carried into the instruction {carried}")
    if v == "asm-error":
        d = r["detail"]
        if "Invalid addressing mode combination" in d:
            return ("C09.2/prefix-pair", f"{SC_ASM_PY}: Assembler._build_instruction has no prefix for the pair ({', '.join(tm)})", "two-operand addressing-mode pair the decoder renders is rejected by the assembler")
        if "Unsupported addressing mode" in d:
            return ("C09.2/prefix-single", f"{SC_ASM_PY}: Assembler._build_instruction has no single-operand prefix for ({', '.join(tm)})", "single-operand addressing mode the decoder renders is rejected by the assembler")
        if "Could not find a matching opcode" in d:
            return ("C09.2/template", f"{ASM_PY}: AsmTransformer.{alias} builds operands matching no template of {mn}", "operands built by the transformer match no opcode-table template")
        return ("C09.2/assemble", f"{ASM_PY}: AsmTransformer.{alias}: {d}", "assembler raises on rendered text")
    pre = r.get("chosen_pre")
    pre_s = f"0x{pre:02X}" if isinstance(pre, int) else ("none" if pre is None else str(pre))
    if v == "length" and any(m in ("BP_PX", "BP_PY") for m in tm):
        ms = sorted({m for m in tm if m in ("BP_PX", "BP_PY")})
        return ("C09.3/encode-length", f"{isa.OPCODES_PY}: IMemOperand.encode emits no operand byte for {'/'.join(ms)} but the decoder consumes one",
                "assembler output is shorter than the instruction the decoder reads")
    if v == "text" and r.get("sig2") is not None and r.get("sig2") != r["sig"]:
        return ("C09.2/prefix-choice", f"{SC_ASM_PY}: Assembler._build_instruction emits prefix {pre_s} for modes ({r['sig']}); the decoder reads ({r['sig2']})",
                "prefix byte chosen by the assembler selects other addressing modes in the decoder")
    rp = r.get("regpair")
    if rp is not None and v in ("lift", "text", "length", "redecode") and rp[1] != rp[0]:
        return ("C09.5/regpair-class", f"{isa.OPCODES_PY}: RegPair.decode accepts a first register outside the opcode's width class, so one text stands for several opcodes of {mn}",
                f"opcode template RegPair(size={rp[0]}) decoded with a {rp[1]}-byte first register; the assembler picks the opcode from the register width")
    if v == "length":
        return ("C09.3/length", f"{alias}: {r['sig']}: {r['detail']}", "emitted byte count differs from what the decoder consumes")
    if v == "text":
        return ("C09.4/text", f"{alias}: {mn} {r['sig']}: {r['detail']}", "emitted bytes disassemble to different text")
    if v == "lift":
        return ("C09.5/lift", f"{alias}: {mn} {r['sig']}", "emitted bytes lift to different IL")
    return ("C09.2/" + v, f"{alias}: {r.get('detail', '')}", v)


def _imem_registers(py: PyProgram) -> list[tuple[str, int]]:
    mod = py.module(isa.OPCODES_PY)
    cls = next((n for n in mod.tree.body if isinstance(n, ast.ClassDef) and n.name == "IMEMRegisters"), None)
    if cls is None:
        raise AnalysisError("IMEMRegisters enum vanished")
    out = []
    for st in cls.body:
        if isinstance(st, ast.Assign) and len(st.targets) == 1 and isinstance(st.targets[0], ast.Name) and isinstance(st.value, ast.Constant) and isinstance(st.value.value, int):
            out.append((st.targets[0].id, st.value.value))
    if len(out) < 20:
        raise AnalysisError(f"IMEMRegisters has only {len(out)} literal members")
    return out


def _regpair(rows: dict, reg_sizes: dict, c: Case) -> tuple | None:
    """(template RegPair size, width of the first rendered register) for reg-pair instructions."""
    row = rows.get(c.opcode)
    if row is None:
        return None
    for o in row.ops:
        if o.ctor == "RegPair" and o.kwargs.get("size") is not None:
            regs = [t for k, t in c.tokens if k == "TReg"]
            if regs and regs[0] in reg_sizes:
                return (o.kwargs["size"], reg_sizes[regs[0]])
    return None


def run(ctx: Ctx) -> None:
    py = PyProgram()
    for f in (isa.OPTABLE, isa.OPCODES_PY, isa.INSTR_PY, ASM_PY, SC_ASM_PY, GRAMMAR):
        ctx.file_used(REPO / f)
    for a in ASSUMPTIONS + ASM_ASSUMPTIONS:
        ctx.assume(a)
    base, pre, _u = sweep(stages=("render", "lift"), with_prefixes="reps" if ctx.tier == "quick" else "all")
    forms = []
    skipped = collections.Counter()
    for c in base + pre:
        if c.status != "ok":
            continue
        if c.cls in OUT_OF_SCOPE:
            skipped[c.cls] += 1
            continue
        if c.render_exc:
            skipped["render raises (C01/C03 territory)"] += 1
            continue
        forms.append(c)
    rows = isa.py_rows(py)
    reg_sizes = {str(k): v for k, v in py.value(isa.OPCODES_PY, "REG_SIZES").items()}
    jobs = []
    for c in forms:
        variants = [True, False] if has_symbolic_name(c.tokens) else [False]
        if has_offset_imem_number(c.tokens):
            variants.append("nm")
        for named in variants:
            jobs.append((c.pre, c.opcode, c.selector, c.n, c.length, c.cls, c.name, c.tokens, c.il, named, _regpair(rows, reg_sizes, c), c.fixed))
    # group jobs with equal text onto the same worker (assembly cached per text)
    jobs.sort(key=lambda j: (str(j[7]), str(j[9])))
    with mp.get_context("fork").Pool(min(16, os.cpu_count() or 4), initializer=_winit) as pool:
        results = pool.map(check_form, jobs, chunksize=24)
        # named internal registers: every register name, in every operand position a name is printed, reads as its number
        regs = _imem_registers(py)
        named_forms: dict = {}
        for c in forms:
            if has_symbolic_name(c.tokens):
                named_forms.setdefault((c.opcode, _mode_sig(c.tokens)), c)
        reps = sorted(named_forms.items(), key=lambda kv: (kv[0][0], str(kv[0][1])))
        if ctx.tier == "quick":
            seen_sig: dict = {}
            for (op, sig), c in reps:
                seen_sig.setdefault(sig, ((op, sig), c))
            reps = list(seen_sig.values())
        njobs = [(c.pre, c.opcode, c.tokens, nm, val) for (_k, c) in reps for nm, val in regs]
        nres = pool.map(check_name, njobs, chunksize=16)
    bad_names: dict = collections.defaultdict(list)
    for r in nres:
        if not r["same"]:
            bad_names[r["name"]].append(r)
    for nm, rs in sorted(bad_names.items()):
        ex = rs[0]
        def show(x: Any) -> str:
            return " ".join(b for _a, bs in x for b in bs) if isinstance(x, list) else f"{x[0]}: {x[1]}"
        ctx.violation("C09.1/register-name", f"{ASM_PY}: internal register name {nm} is not read as register 0x{ex['value']:02X}",
                      f"`{ex['text']}` (register 0x{ex['value']:02X} written by name, as the disassembler prints it) assembles to [{show(ex['got'])}] where an internal register name in that position gives [{show(ex['expected'])}]; {len(rs)} operand shape(s)", ASM_PY)
    ctx.instance("C09.1/register-name", "register name x operand shape: the spelled-out name assembles to the symbolic-member result at its value", len([r for r in nres if not r["skipped"]]), 300 if ctx.tier == "quick" else 3000)
    tally = collections.Counter(r["verdict"] for r in results)
    unk = [r for r in results if r["verdict"] == "unknown"]
    if unk:
        raise AnalysisError(f"{len(unk)} forms left the interpretable fragment, e.g. {unk[0]['text']!r}: {unk[0]['detail']}")
    groups: dict[tuple, list] = collections.defaultdict(list)
    for r in results:
        if r["verdict"] in ("identical", "equivalent"):
            continue
        rule, construct, desc = attribute(r)
        r["desc"] = desc
        groups[(rule, construct)].append(r)
    for (rule, construct), rs in sorted(groups.items()):
        ex = rs[0]
        desc = ex["desc"]
        enc = " ".join(([f"{ex['pre']:02X}"] if ex["pre"] is not None else []) + [f"{ex['opcode']:02X}"])
        ctx.violation(rule, " ".join(construct.split()), f"{desc}: {construct}; {len(rs)} form(s), e.g. bytes {enc}.. `{ex['text']}`" + (f" -> `{ex.get('text2')}`" if ex.get("text2") else "") + (f" [{ex.get('detail')}]" if ex["verdict"] in ("lift",) else ""), ASM_PY)
    ctx.instance("C09/forms", "decoded forms (prefix x opcode x selector class x name/number variant) pushed through grammar, transformer and both assembler passes", len(results), 7000)
    ctx.instance("C09/roundtrip", "forms whose emitted bytes are identical or decode to the same text, length and IL", tally["identical"] + tally["equivalent"], 5000)
    ctx.extra["verdicts"] = dict(tally)
    ctx.extra["out_of_scope"] = {**OUT_OF_SCOPE, "skipped_counts": dict(skipped)}
    ctx.extra["exhaustive"] = True
    for r in results:
        if (r["pre"], r["opcode"]) in ((None, 0x80), (0x23, 0xC8), (None, 0x04), (0x32, 0xC9)) and len(ctx.samples) < 12:
            ctx.sample({k: r.get(k) for k in ("pre", "opcode", "text", "alias", "emitted", "verdict", "detail", "text2")})
