"""C10 - assembling a program lays out code, data and labels consistently.

The argument is compositional: (A) per statement, for every instruction shape the ISA has and every data directive, the size pass one
computes equals the bytes pass two emits, a label operand encodes exactly what its numeric value encodes, and page-local jumps obey the
page rule - decided by abstract interpretation of both passes on minimal program schemas with symbolic operand values; (B) the two pass
loops are the same traversal (same initial pointers, same location handling before the pointer is read, same hand-off key), so by
induction over the statement list every statement lands where pass one said; (C) nothing survives a call: per-assembly state is
re-initialised on entry, the shared template cache is written once and never through, and no source of nondeterminism is used.

  1 SIZE      pass-1 size == pass-2 length; statement address == label address, for every instruction shape / directive      (abstract runs)
  2 LABEL     operand given as forward / backward label == operand given as the label's value                                 (abstract runs)
  3 NEAR      page rule of CALL/JP/JPcc: other page rejected, same page -> low 16 bits; name set == Imm16 templates; on every encode path
  4 PASSES    sibling agreement of _first_pass/_second_pass/_apply_location; cache key unique per statement
  5 STATE     per-assembly fields reset on entry; REVERSE_OPCODES_CACHE single guarded writer, templates never written; determinism lint;
              transformer methods write no state"""
from __future__ import annotations

import ast
import collections
import multiprocessing as mp
import os
import re
from typing import Any

from .. import isa
from ..absint import Unknown
from ..asm_abs import ASM_ASSUMPTIONS, ASM_PY, GRAMMAR, SC_ASM_PY, AsmAbs, SymStr
from ..bits import BitVec
from ..core import REPO, AnalysisError, Ctx
from ..isa_abs import ASSUMPTIONS
from ..isa_sweep import Sweeper, sweep
from ..pyfacts import PyProgram, unparse
from ..rules import key_of
from .c09 import OUT_OF_SCOPE, build_text

LEVEL = "other"
EXPLANATION = (
    "Both assembler passes are interpreted from source (sa/absint.py) on minimal program schemas - `L0: <statement> / L1: NOP` with forward and backward label "
    "operands and their numeric twins - for every instruction text the abstract decoder sweep renders (operand values symbolic) and every data directive; "
    "pass-one sizes (label addresses) are compared with pass-two segment addresses and lengths, label encodings with numeric twins. The pass loops, the location "
    "directive handler, the hand-off cache key, state re-initialisation, the template cache and determinism are decided by structural rules on sc_asm.py/asm.py."
)
TRUSTED = ["CPython ast", "lark (Earley) as the reading of asm.lark", "sa/absint.py + sa/asm_abs.py", *ASSUMPTIONS, *ASM_ASSUMPTIONS]
CLAIM = ("Decides per statement kind (every instruction shape of the ISA with symbolic operands, every data directive) that pass-one size equals pass-two length and label operands encode the label's address, "
         "the page rule for near jumps, and structurally that the two passes traverse and place statements identically and that no state or nondeterminism leaks between assemble() calls. "
         "Layout of whole programs follows by induction over statements; arbitrary program text is not enumerated.")
NOTE = ("Programs are not enumerated: the per-statement facts plus the structural agreement of the two pass loops give the layout property by induction. "
        "Positions where the grammar admits a name but the transformer rejects it (internal-memory operands) are counted as rejections, not violations.")
TECHNIQUE = "abstract interpretation of both assembler passes on per-statement program schemas (all instruction shapes, symbolic operands) + sibling-agreement, state-reset, write-effect and determinism rules"

_W: tuple | None = None


def _winit() -> None:
    global _W
    sw = Sweeper()
    _W = (sw, AsmAbs(sw.ia))


LBL_ADDR = 0x34
PH = re.compile(r"0x9A[0-9A-F]{2}")


def _schema(stmt: str, order: str, lbl: str = "LBL") -> str:
    if order == "fwd":
        return f".ORG 0x10\nL0: {stmt}\nL1: NOP\n.ORG 0x{LBL_ADDR:X}\n{lbl}: NOP\n"
    return f".ORG 0x{LBL_ADDR:X}\n{lbl}: NOP\n.ORG 0x50\nL0: {stmt}\nL1: NOP\n"


def special_label_names(py: PyProgram) -> list[str]:
    """Names the assembler front end itself gives a meaning to: members of the enum classes of the ISA layer that asm.py / sc_asm.py
    refer to.  A user label may be spelled like one of them; its references must still encode the label's address."""
    from ..pyfacts import ClassRef, PyEval
    out: list[str] = []
    used: set[str] = set()
    for rel in (ASM_PY, SC_ASM_PY):
        used |= {n.id for n in ast.walk(py.module(rel).tree) if isinstance(n, ast.Name)}
    mod = py.module(isa.OPCODES_PY)
    ev = PyEval(py, mod)
    for c in [n for n in mod.tree.body if isinstance(n, ast.ClassDef)]:
        if c.name not in used:
            continue
        members = ev.enum_members(ClassRef(mod.rel, c.name))
        if not members:
            continue
        names = [m for m in members if re.fullmatch(r"[A-Z][A-Z0-9_]{2,}", m)]
        if names:
            out += [names[0], names[-1]]
    return out


def _run(aa: AsmAbs, text: str, symtab: dict) -> dict:
    try:
        r = aa.assemble_text(text, symtab, sym_enum="invalid")
    except Unknown as e:
        return {"status": "unknown", "exc": str(e)}
    out = {"status": r["status"], "exc": r.get("exc"), "msg": (r.get("msg") or "")[:200], "stage": r.get("stage")}
    if r["status"] == "ok":
        out["segments"] = [(a, [BitVec.lift(b) for b in bs]) for a, bs in r["segments"]]
        out["symbols"] = dict(r["symbols"] or {})
    return out


def _stmt_facts(r: dict) -> dict | None:
    """address/length of the statement labelled L0 and the address of the statement labelled L1 in both passes."""
    syms = r["symbols"]
    if "L0" not in syms or "L1" not in syms:
        return None
    a0, a1 = syms["L0"], syms["L1"]
    seg0 = [s for s in r["segments"] if s[0] == a0]
    seg1 = [s for s in r["segments"] if s[0] == a1 and s is not (seg0[0] if seg0 else None)]
    return {"p1_addr": a0, "p1_size": a1 - a0, "seg0": seg0[0] if seg0 else None, "seg_after": seg1[0] if seg1 else None}


def _bytes_eq(a: list, b: list) -> bool:
    return len(a) == len(b) and all(list(x.bits[:8]) == list(y.bits[:8]) for x, y in zip(a, b))


def _bs(bs: list) -> str:
    from .c09 import _bstr
    return " ".join(_bstr(b) for b in bs)


def check_stmt(job: tuple) -> list[dict]:
    """job = (kind, stmt text, symtab items)"""
    global _W
    if _W is None:
        _winit()
    _sw, aa = _W
    kind, stmt, symitems = job[:3]
    LBL = job[3] if len(job) > 3 else "LBL"
    symtab = {k: SymStr(k, "num", bv) for k, bv in symitems}
    out: list[dict] = []

    def size_check(tag: str, r: dict, text: str) -> None:
        f = _stmt_facts(r)
        if f is None or f["seg0"] is None:
            if kind == "defs0":
                return
            out.append({"kind": kind, "stmt": stmt, "verdict": "layout", "detail": f"{tag}: no segment at the address pass one assigned to the statement ({text!r})"})
            return
        n2 = len(f["seg0"][1])
        if n2 != f["p1_size"]:
            out.append({"kind": kind, "stmt": stmt, "verdict": "size", "detail": f"{tag}: pass one sized the statement at {f['p1_size']} byte(s), pass two emitted {n2}"})
        elif f["seg_after"] is None:
            out.append({"kind": kind, "stmt": stmt, "verdict": "layout", "detail": f"{tag}: the statement after it is not emitted at the address of its label"})
        else:
            out.append({"kind": kind, "stmt": stmt, "verdict": "ok", "detail": tag})

    base = _run(aa, _schema(stmt, "fwd"), symtab)
    if base["status"] == "unknown":
        return [{"kind": kind, "stmt": stmt, "verdict": "unknown", "detail": base["exc"]}]
    if base["status"] != "ok":
        return [{"kind": kind, "stmt": stmt, "verdict": "rejected", "detail": f"{base['exc']}: {base['msg'][:80]}"}]
    size_check("plain", base, stmt)
    # label variants: every expression position, forward and backward, against the numeric twin
    phs = sorted(set(PH.findall(stmt)))
    consts = [] if phs or stmt.lower().startswith(("defm", "defs")) else sorted(set(re.findall(r"(?<![\w])0x[0-9A-Fa-f]+|(?<![\w])\d+", stmt)))[:2]
    for ph in phs + consts:
        st_lbl = re.sub(r"(?<![\w])" + re.escape(ph) + r"(?![\w])", LBL, stmt, count=1)
        st_num = re.sub(r"(?<![\w])" + re.escape(ph) + r"(?![\w])", f"0x{LBL_ADDR:X}", stmt, count=1)
        if st_lbl == stmt:
            continue
        st2 = {k: v for k, v in symtab.items() if k != ph}
        if LBL != "LBL":
            # only positions that admit a label at all (an internal-memory operand takes register names and numbers, never labels)
            g = _run(aa, _schema(re.sub(r"(?<![\w])" + re.escape(ph) + r"(?![\w])", "LBL", stmt, count=1), "fwd"), st2)
            if g["status"] == "unknown":
                out.append({"kind": kind, "stmt": st_lbl, "verdict": "unknown", "detail": g.get("exc")})
                continue
            if g["status"] != "ok":
                continue
        for order in ("fwd", "bwd"):
            rl = _run(aa, _schema(st_lbl, order, LBL), st2)
            rn = _run(aa, _schema(st_num, order, LBL), st2)
            if "unknown" in (rl["status"], rn["status"]):
                out.append({"kind": kind, "stmt": st_lbl, "verdict": "unknown", "detail": rl.get("exc") or rn.get("exc")})
                continue
            if rn["status"] != "ok":
                out.append({"kind": kind, "stmt": st_num, "verdict": "rejected-num", "detail": f"{rn['exc']}: {rn['msg'][:80]}"})
                continue
            if rl["status"] != "ok":
                out.append({"kind": kind, "stmt": st_lbl, "verdict": "rejected-label", "detail": f"{rl['exc']}: {rl['msg'][:80]}"})
                continue
            size_check(f"label-{order}", rl, st_lbl)
            fl, fn = _stmt_facts(rl), _stmt_facts(rn)
            if fl and fn and fl["seg0"] and fn["seg0"]:
                if rl["symbols"].get(LBL) != LBL_ADDR:
                    out.append({"kind": kind, "stmt": st_lbl, "verdict": "label", "detail": f"label-{order}: {LBL} defined at 0x{LBL_ADDR:X} recorded as {rl['symbols'].get(LBL)}"})
                elif not _bytes_eq(fl["seg0"][1], fn["seg0"][1]):
                    out.append({"kind": kind, "stmt": st_lbl, "verdict": "label", "detail": f"label-{order}: `{st_lbl}` emits {_bs(fl['seg0'][1])}, with the value 0x{LBL_ADDR:X} in its place {_bs(fn['seg0'][1])}"})
                else:
                    out.append({"kind": kind, "stmt": st_lbl, "verdict": "ok", "detail": f"label-{order} == numeric twin"})
    return out


def near_jobs(job: tuple) -> list[dict]:
    """Page rule for one near control-flow mnemonic."""
    global _W
    if _W is None:
        _winit()
    _sw, aa = _W
    mn, is_near = job
    out = []
    same = _run(aa, f".ORG 0x30100\nT: NOP\n {mn} T\n", {})
    other = _run(aa, f".ORG 0x30100\n {mn} T\n.ORG 0x40000\nT: NOP\n", {})
    lit = _run(aa, f".ORG 0x30100\n {mn} 0x0104\n", {})
    low = _run(aa, f".ORG 0x0100\nT: NOP\n.ORG 0x30100\n {mn} T\n", {})
    for tag, r in (("same", same), ("other", other), ("lit", lit), ("low", low)):
        if r["status"] == "unknown":
            return [{"mn": mn, "verdict": "unknown", "detail": r["exc"]}]
    if is_near:
        if same["status"] != "ok":
            out.append({"mn": mn, "verdict": "near", "detail": f"{mn} to a label on the same page is rejected: {same['msg'][:100]}"})
        else:
            seg = [s for s in same["segments"] if s[0] == 0x30101]
            b = seg[0][1] if seg else []
            if len(b) != 3 or not all(x.is_const() for x in b) or [x.value() for x in b[1:]] != [0x00, 0x01]:
                out.append({"mn": mn, "verdict": "near", "detail": f"{mn} T with T=0x30100 on page 0x30000 emits {_bs(b)}, expected the low 16 bits 00 01"})
        if other["status"] == "ok":
            out.append({"mn": mn, "verdict": "near", "detail": f"{mn} to a label on another 64 KiB page (0x40000 from 0x30100) is accepted"})
        elif "page" not in other["msg"]:
            out.append({"mn": mn, "verdict": "near", "detail": f"{mn} to another page fails for an unrelated reason: {other['msg'][:100]}"})
        if low["status"] == "ok":
            out.append({"mn": mn, "verdict": "near", "detail": f"{mn} to a label on page 0 (0x00100) from page 3 is accepted: the low 16 bits reach 0x30100, not the label"})
        if lit["status"] != "ok":
            out.append({"mn": mn, "verdict": "near", "detail": f"{mn} 0x0104 (explicit low-16 operand) on page 3 is rejected: {lit['msg'][:100]}"})
    else:
        if other["status"] != "ok":
            out.append({"mn": mn, "verdict": "near", "detail": f"far form {mn} to another page is rejected: {other['msg'][:100]}"})
        else:
            seg = [s for s in other["segments"] if s[0] == 0x30100]
            b = seg[0][1] if seg else []
            if len(b) != 4 or [x.value() for x in b[1:] if x.is_const()] != [0x00, 0x00, 0x04]:
                out.append({"mn": mn, "verdict": "near", "detail": f"{mn} T with T=0x40000 emits {_bs(b)}, expected 00 00 04"})
    if not out:
        out.append({"mn": mn, "verdict": "ok", "detail": ""})
    return out


LAYOUT_SCHEMAS = [
    # (name, program, {label: first marker byte of the statement it labels}); operand values stay symbolic where a placeholder is used
    ("org-numeric", ".ORG 0x100\nA1: defb 0xA1\n defw 0x9A01\nA2: defb 0xA2\n.ORG 0x200\nA3: defb 0xA3\n", {"A1": 0xA1, "A2": 0xA2, "A3": 0xA3}),
    ("sections-resume", "SECTION data\nD1: defb 0xA1\nSECTION code\nC1: defb 0xA2\n MV A, 0x9A01\nSECTION data\nD2: defb 0xA3\nSECTION code\nC2: defb 0xA4\n", {"D1": 0xA1, "C1": 0xA2, "D2": 0xA3, "C2": 0xA4}),
    ("org-symbol", "SECTION bss\nBUF: defs 16\nSECTION code\n.ORG BUF\nL0: defb 0xA1\n MV X, L0\nL1: defb 0xA2\n", {"L0": 0xA1, "L1": 0xA2}),
    ("same-line", "A0: defb 0xA0 NOP MV A, 0x9A01\nA1: defb 0xA1 MV BA, 0x1234 RET\nA2: defb 0xA2\n", {"A0": 0xA0, "A1": 0xA1, "A2": 0xA2}),
    ("data-mix", "A1: defb 0xA1\n defs 3\nA2: defb 0xA2\n defm \"xyz\"\nA3: defb 0xA3\n defl 0x9A01, 7\nA4: defb 0xA4\n", {"A1": 0xA1, "A2": 0xA2, "A3": 0xA3, "A4": 0xA4}),
    ("bss-silent", "SECTION data\nD1: defb 0xA1, 0xA6\nSECTION bss\nB1: defs 4\nB2: defs 2\nSECTION code\nC1: defb 0xA3\n", {"D1": 0xA1, "C1": 0xA3}),
    # same opcode, same operand classes, different encoded length (with and without a displacement), in both orders
    ("same-opcode-lengths", " MV A, [X]\n MV A, [X+0x05]\nA1: defb 0xA1\n MV [Y-0x03], A\n MV [Y], A\nA2: defb 0xA2\n MV A, [(0x10)]\n MV A, [(0x10)+0x02]\nA3: defb 0xA3\n", {"A1": 0xA1, "A2": 0xA2, "A3": 0xA3}),
    # code placed with .ORG above the default .bss base while .data and .bss exist
    ("high-org", "SECTION data\nD1: defb 0xA2\nSECTION bss\nB1: defs 2\nSECTION code\n.ORG 0xC0000\nH1: defb 0xA1\n MV X, H1\nH2: defb 0xA4\n", {"D1": 0xA2, "H1": 0xA1, "H2": 0xA4}),
    # an origin given by a label that is defined further down: rejecting the program is fine, placing the statements behind it at one
    # address in pass one and at another in pass two is not
    ("may-reject:org-forward-symbol", ".ORG FWD\nF1: defb 0xA1\n MV X, F1\nF2: defb 0xA4\n.ORG 0x300\nFWD: defb 0xA2\n", {"F1": 0xA1, "F2": 0xA4, "FWD": 0xA2}),
    # a label standing alone on its line names the location reached so far (the end of the block above it), also when the next line
    # moves the location with .ORG or SECTION
    ("end-labels", ".ORG 0x100\nA1: defb 0xA1\n defb 0x11\nEND1:\n.ORG 0x200\nA2: defb 0xA2\nEND2:\nSECTION data\nD1: defb 0xA3\n", {"A1": 0xA1, "A2": 0xA2, "D1": 0xA3}),
    # a section name the assembler does not know: rejecting the program is fine, laying it out inconsistently is not
    ("may-reject:custom-section", "SECTION data\nD1: defb 0xA1\nSECTION bss\nB1: defs 4\nSECTION extra\nX1: defb 0xA5\nX2: defb 0xA6\nSECTION code\nC1: defb 0xA3\n", {"D1": 0xA1, "X1": 0xA5, "X2": 0xA6, "C1": 0xA3}),
]


def layout_witness(job: tuple) -> list[dict]:
    global _W
    if _W is None:
        _winit()
    _sw, aa = _W
    name, prog, marks = job
    symw = {"0x9A01": SymStr("0x9A01", "num", _symw(24 if "defl" in prog else 16 if "defw" in prog else 8))}
    r = _run(aa, prog, symw)
    if r["status"] == "unknown":
        return [{"schema": name, "verdict": "unknown", "detail": r["exc"]}]
    if r["status"] != "ok":
        if name.startswith("may-reject:"):
            return [{"schema": name, "verdict": "ok", "detail": f"rejected as a whole ({r['exc']})"}]
        return [{"schema": name, "verdict": "layout", "detail": f"schema program is rejected: {r['exc']}: {r['msg'][:120]}"}]
    out = []
    for lbl, mark in marks.items():
        a1 = r["symbols"].get(lbl)
        segs = [s for s in r["segments"] if s[1] and s[1][0].is_const() and s[1][0].value() == mark]
        if len(segs) != 1:
            out.append({"schema": name, "verdict": "layout", "detail": f"statement labelled {lbl} (marker {mark:#x}) emitted {len(segs)} times"})
        elif segs[0][0] != a1:
            out.append({"schema": name, "verdict": "layout", "detail": f"label {lbl} = {a1:#x} in pass one, but its statement is emitted at {segs[0][0]:#x} in pass two"})
        else:
            out.append({"schema": name, "verdict": "ok", "detail": lbl})
    if name == "bss-silent":
        b1 = r["symbols"].get("B1")
        if any(isinstance(a, int) and b1 is not None and b1 <= a < b1 + 6 for a, _b in r["segments"]):
            out.append({"schema": name, "verdict": "layout", "detail": "a .bss statement emitted bytes"})
    if name == "end-labels":
        for end, base, size in (("END1", "A1", 2), ("END2", "A2", 1)):
            e_, b_ = r["symbols"].get(end), r["symbols"].get(base)
            if e_ is None or b_ is None or e_ != b_ + size:
                out.append({"schema": name, "verdict": "layout", "detail": f"label {end} stands alone after the {size} byte(s) at {base}={b_ if b_ is None else hex(b_)} but is bound to {e_ if e_ is None else hex(e_)} (the location of the *next* block): every reference to it encodes the wrong address"})
    if name == "org-symbol":
        mv = [s for s in r["segments"] if s[1] and s[1][0].is_const() and s[1][0].value() == 0x0C]
        l0 = r["symbols"].get("L0")
        if len(mv) != 1 or [b.value() if b.is_const() else None for b in mv[0][1][1:]] != [l0 & 0xFF, (l0 >> 8) & 0xFF, (l0 >> 16) & 0xFF]:
            out.append({"schema": name, "verdict": "layout", "detail": f"`MV X, L0` after `.ORG BUF` does not encode L0's address {l0:#x}: {_bs(mv[0][1]) if mv else 'not emitted'}"})
    return out


# ---------------------------------------------------------------------------

def run(ctx: Ctx) -> None:
    py = PyProgram()
    for f in (isa.OPTABLE, isa.OPCODES_PY, ASM_PY, SC_ASM_PY, GRAMMAR):
        ctx.file_used(REPO / f)
    for a in ASSUMPTIONS + ASM_ASSUMPTIONS:
        ctx.assume(a)
    statements(ctx, py)
    passes(ctx, py)
    state(ctx, py)
    ctx.extra["exhaustive"] = True


def statements(ctx: Ctx, py: PyProgram) -> None:
    base, _pre, _u = sweep(stages=("render",), with_prefixes="none")
    seen: dict[str, tuple] = {}
    for c in base:
        if c.status != "ok" or c.cls in OUT_OF_SCOPE or c.render_exc:
            continue
        text, symtab = build_text(c.tokens, False)
        text = " ".join(text.split())
        key = text + "|" + repr(sorted((k, repr(v.bv)) for k, v in symtab.items()))
        if key not in seen:
            seen[key] = ("instr", text, tuple((k, v.bv) for k, v in symtab.items()))
    jobs = list(seen.values())
    s8 = (("0x9A01", BitVec.sym("in0", 8)),)
    for d in ("defb 0x9A01", "defb 1, 0x9A01, 3", "defw 0x9A01", "defw 1, 0x9A01", "defl 0x9A01", "defl 0x9A01, 2"):
        width = {"defb": 8, "defw": 16, "defl": 24}[d.split()[0]]
        jobs.append(("data", d, (("0x9A01", _symw(width)),)))
    # the grammar's other def_arg alternative, a string literal, under every data directive
    for d in ('defb "AB", 1', 'defb "A"', 'defw "ABC"', 'defw "A", 2', 'defl "AB"', 'defl "ABCD", 3'):
        jobs.append(("data", d, ()))
    jobs.append(("data", "defs 5", ()))
    jobs.append(("data", 'defm "hello"', ()))
    jobs.append(("data", 'defm "A\\r\\n"', ()))
    jobs.append(("data", 'defm "tab\\tq\\x41\\0"', ()))
    jobs.append(("data", "defs 1", ()))
    # the same label obligations with a label spelled like a name the front end knows (every data directive, a sample of instruction shapes)
    special = special_label_names(py)
    named = [j for j in jobs if j[0] == "data" and PH.search(j[1])] + [j for j in jobs if j[0] == "instr" and PH.search(j[1])][::12]
    n_named = 0
    for nm in special:
        for j in named:
            jobs.append((j[0], j[1], j[2], nm))
            n_named += 1
    ctx.sample({"special_label_names": special, "named_label_jobs": n_named})
    rows = isa.py_rows(py)
    near = sorted({(r.name + (r.cond or "")).upper() for r in rows.values() if r.cls in ("CALL", "JP_Abs") and len(r.ops) == 1 and r.ops[0].ctor == "Imm16"})
    far = sorted({(r.name + (r.cond or "")).upper() for r in rows.values() if r.cls in ("CALL", "JP_Abs") and len(r.ops) == 1 and r.ops[0].ctor == "Imm20"})
    with mp.get_context("fork").Pool(min(16, os.cpu_count() or 4), initializer=_winit) as pool:
        res = [x for lst in pool.map(check_stmt, jobs, chunksize=8) for x in lst]
        nres = [x for lst in pool.map(near_jobs, [(m, True) for m in near] + [(m, False) for m in far]) for x in lst]
        lres = [x for lst in pool.map(layout_witness, LAYOUT_SCHEMAS) for x in lst]
    unk = [r for r in res + nres + lres if r["verdict"] == "unknown"]
    if unk:
        raise AnalysisError(f"{len(unk)} schema runs left the interpretable fragment, e.g. {unk[0]}")
    tally = collections.Counter(r["verdict"] for r in res)
    rej = collections.Counter()
    for r in res:
        v = r["verdict"]
        if v in ("size", "layout"):
            ctx.violation("C10.1/size", key_of(SC_ASM_PY, "Assembler._get_statement_size/_encode_statement", _shape(r["stmt"])), f"`{r['stmt']}`: {r['detail']}", SC_ASM_PY)
        elif v == "label":
            ctx.violation("C10.2/label", key_of(SC_ASM_PY, "Assembler._encode_statement", _shape(r["stmt"])), f"`{r['stmt']}`: {r['detail']}", SC_ASM_PY)
        elif v.startswith("rejected"):
            rej[(v, re.sub(r"0x[0-9A-Fa-f]+|\d+", "N", r["detail"])[:70])] += 1
    n_size = sum(1 for r in res if r["verdict"] in ("ok", "size", "layout") and not r["detail"].endswith("twin"))
    n_lbl = sum(1 for r in res if r["detail"].endswith("twin") or r["verdict"] == "label")
    ctx.instance("C10.1/size", "statement schemas (instruction shapes x plain/label-forward/label-backward, data directives): pass-one size == pass-two length and addresses agree", n_size, 1500)
    ctx.instance("C10.2/label", "label operand (forward and backward) encodes the same bytes as the label's numeric value", n_lbl, 600)
    for r in nres:
        if r["verdict"] == "near":
            ctx.violation("C10.3/near-page", key_of(SC_ASM_PY, "Assembler._normalize_near_control_flow", r["mn"]), r["detail"], SC_ASM_PY)
    ctx.instance("C10.3/near-page", "page rule per mnemonic: near forms (single Imm16 template) same page -> low 16 bits, other page rejected, explicit low-16 literal kept; far forms unrestricted", len(nres), 8)
    for r in lres:
        if r["verdict"] == "layout":
            ctx.violation("C10.4/layout-witness", key_of(SC_ASM_PY, "Assembler._first_pass/_second_pass", r["schema"]), f"layout schema `{r['schema']}`: {r['detail']}", SC_ASM_PY)
    ctx.instance("C10.4/layout-witness", "labelled statements of the layout schemas (numeric/symbolic .ORG, section switching, several statements per line, data mix, .bss) emitted at their pass-one address", len(lres), 17)
    ctx.extra["schema_verdicts"] = dict(tally)
    ctx.extra["rejections"] = {f"{k[0]}: {k[1]}": n for k, n in rej.most_common(12)}
    for r in res[:4] + [r for r in res if r["kind"] == "data"][:4]:
        ctx.sample(r)
    near_structure(ctx, py, set(near))


def _symw(width: int) -> BitVec:
    v = BitVec.const(0)
    for i in range(width // 8):
        v = v | (BitVec.sym(f"in{i}", 8) << (8 * i))
    return v


def _shape(stmt: str) -> str:
    s = re.sub(r"0x[0-9A-Fa-f]+|\b\d+\b", "n", stmt)
    s = re.sub(r"\b(A|IL|BA|I|X|Y|U|S)\b", "r", s)
    return " ".join(s.split())


# ---------------------------------------------------------------------------
# structural rules

def _fn(py: PyProgram, rel: str, cls: str, name: str) -> ast.FunctionDef:
    mod = py.module(rel)
    c = py.cls(mod, cls)
    if c is None or name not in c.methods:
        raise AnalysisError(f"anchor missing: {rel}:{cls}.{name}")
    return c.methods[name]


def near_structure(ctx: Ctx, py: PyProgram, near: set[str]) -> None:
    fn = _fn(py, SC_ASM_PY, "Assembler", "_normalize_near_control_flow")
    names: set[str] | None = None
    for n in ast.walk(fn):
        if isinstance(n, ast.Assign) and isinstance(n.value, (ast.Set, ast.Tuple, ast.List)) and all(isinstance(e, ast.Constant) and isinstance(e.value, str) for e in n.value.elts):
            used = any(isinstance(c, ast.Compare) and any(isinstance(x, ast.Name) and isinstance(n.targets[0], ast.Name) and x.id == n.targets[0].id for x in c.comparators) for c in ast.walk(fn))
            if used:
                names = {e.value for e in n.value.elts}
    if names is None:
        raise AnalysisError("_normalize_near_control_flow: the mnemonic set is no longer a literal collection tested with `in`")
    for m in sorted(near - names):
        ctx.violation("C10.3/near-set", key_of(SC_ASM_PY, "Assembler._normalize_near_control_flow", f"missing {m}"), f"{m} has a single 16-bit immediate template (page-local) but is not in the near control-flow set {sorted(names)}", f"{SC_ASM_PY}:{fn.lineno}")
    for m in sorted(names - near):
        ctx.violation("C10.3/near-set", key_of(SC_ASM_PY, "Assembler._normalize_near_control_flow", f"extra {m}"), f"{m} is in the near control-flow set but has no single-Imm16 CALL/JP template", f"{SC_ASM_PY}:{fn.lineno}")
    # every path to instr.encode in _encode_statement passes through the normalisation
    enc = _fn(py, SC_ASM_PY, "Assembler", "_encode_statement")
    from ..cfg import build_py
    g = build_py(enc)
    norm = [n.id for n in g.stmt_nodes() if _calls(n.ast, "_normalize_near_control_flow")]
    cached = {t.id for a in ast.walk(enc) if isinstance(a, ast.Assign) and "instructions_cache" in unparse(a.value) for t in a.targets if isinstance(t, ast.Name)}   # locals bound to the pass-one instruction
    encs = [n.id for n in g.stmt_nodes() if isinstance(n.ast, ast.AST) and any(isinstance(c, ast.Call) and isinstance(c.func, ast.Attribute) and c.func.attr == "encode" and isinstance(c.func.value, ast.Name) and c.func.value.id in cached for c in _walk_shallow(n.ast))]
    if not encs:
        raise AnalysisError("_encode_statement: instr.encode(...) call not found")
    for e in encs:
        if not any(g.dominates(n, e) for n in norm):
            ctx.violation("C10.3/near-path", key_of(SC_ASM_PY, "Assembler._encode_statement", "instr.encode not dominated by _normalize_near_control_flow"), "an instruction can be encoded without the page-local normalisation", f"{SC_ASM_PY}:{enc.lineno}")
    ctx.instance("C10.3/near-structure", "near mnemonic set == single-Imm16 CALL/JP templates; normalisation dominates instr.encode", len(names) + len(encs), 7)


def _calls(st: Any, name: str, recv_not: set | None = None) -> bool:
    if st is None:
        return False
    nodes = [st] if not isinstance(st, list) else st
    for s in nodes:
        if not isinstance(s, ast.AST):
            continue
        for n in _walk_shallow(s):
            if isinstance(n, ast.Call) and isinstance(n.func, ast.Attribute) and n.func.attr == name:
                if recv_not and isinstance(n.func.value, ast.Name) and n.func.value.id in recv_not:
                    continue
                return True
    return False


def _mentions(st: Any, name: str) -> bool:
    return isinstance(st, ast.AST) and any(isinstance(n, ast.Name) and n.id == name for n in _walk_shallow(st))


def _walk_shallow(s: ast.AST):
    """Walk a statement without descending into the bodies of compound statements (the CFG has nodes for those)."""
    if isinstance(s, (ast.If, ast.While)):
        yield from ast.walk(s.test)
        return
    if isinstance(s, ast.For):
        yield from ast.walk(s.iter)
        return
    if isinstance(s, (ast.Try, ast.With, ast.FunctionDef)):
        if isinstance(s, ast.With):
            for i in s.items:
                yield from ast.walk(i.context_expr)
        return
    yield from ast.walk(s)


def passes(ctx: Ctx, py: PyProgram) -> None:
    p1 = _fn(py, SC_ASM_PY, "Assembler", "_first_pass")
    p2 = _fn(py, SC_ASM_PY, "Assembler", "_second_pass")
    loc = _fn(py, SC_ASM_PY, "Assembler", "_apply_location")
    n = 0
    facts = {}
    for tag, fn in (("pass1", p1), ("pass2", p2)):
        loops = [s for s in ast.walk(fn) if isinstance(s, ast.For)]
        main = [l for l in loops if "lines" in unparse(l.iter)]
        if len(main) != 1:
            raise AnalysisError(f"{fn.name}: expected one loop over program_ast['lines'], found {len(main)}")
        lp = main[0]
        idx = None
        if isinstance(lp.iter, ast.Call) and unparse(lp.iter.func) == "enumerate" and isinstance(lp.target, ast.Tuple) and isinstance(lp.target.elts[0], ast.Name):
            idx = lp.target.elts[0].id
        calls = {c.func.attr: c for c in ast.walk(lp) if isinstance(c, ast.Call) and isinstance(c.func, ast.Attribute) and isinstance(c.func.value, ast.Name) and c.func.value.id == "self"}
        facts[tag] = {"iter": unparse(lp.iter), "idx": idx, "calls": calls, "loop": lp, "fn": fn}
    # S1 same traversal
    n += 1
    if facts["pass1"]["iter"] != facts["pass2"]["iter"]:
        ctx.violation("C10.4/traversal", key_of(SC_ASM_PY, "Assembler._first_pass/_second_pass", "loop iterable"), f"the passes iterate different sequences: {facts['pass1']['iter']} vs {facts['pass2']['iter']}", f"{SC_ASM_PY}:{p2.lineno}")
    # S2 location handling: same call shape, before the pointer read
    for tag in ("pass1", "pass2"):
        f = facts[tag]
        c = f["calls"].get("_apply_location")
        n += 1
        if c is None:
            ctx.violation("C10.4/location", key_of(SC_ASM_PY, f"Assembler.{f['fn'].name}", "no _apply_location call"), f"{f['fn'].name} does not route SECTION/.ORG through _apply_location", f"{SC_ASM_PY}:{f['fn'].lineno}")
            continue
        # arguments by the callee's parameter names, not by position
        params = [a.arg for a in loc.args.args if a.arg != "self"]
        bound = {params[i]: a for i, a in enumerate(c.args) if i < len(params)}
        bound.update({k.arg: k.value for k in c.keywords if k.arg})
        flag = unparse(bound["first_pass"]) if "first_pass" in bound else "?"
        want = "True" if tag == "pass1" else "False"
        if flag != want:
            ctx.violation("C10.4/location", key_of(SC_ASM_PY, f"Assembler.{f['fn'].name}", "first_pass flag"), f"{f['fn'].name} calls _apply_location with first_pass={flag}", f"{SC_ASM_PY}:{c.lineno}")
        # the statement address is read as `<pointer table>[<current section>]`, where the pointer table is the one handed to
        # _apply_location; the read must come after the call in the loop body.  The current section is whatever indexes that read:
        # a local threaded through _apply_location or an attribute of the assembler.
        tables = {unparse(a) for a in bound.values()}
        reads = [s for s in ast.walk(f["loop"]) if isinstance(s, ast.Assign) and isinstance(s.value, ast.Subscript) and unparse(s.value.value) in tables]
        if not reads:
            raise AnalysisError(f"{f['fn'].name}: statement address read `pointers[current_section]` not found")
        secvar, ptrs = unparse(reads[0].value.slice), unparse(reads[0].value.value)
        f["secvar"], f["ptrs"] = secvar, ptrs
        for rd in reads:
            if rd.lineno < c.lineno:
                ctx.violation("C10.4/location", key_of(SC_ASM_PY, f"Assembler.{f['fn'].name}", "pointer read before _apply_location"), "the statement address is read before SECTION/.ORG of the same line is applied", f"{SC_ASM_PY}:{rd.lineno}")
        # each pass replays the program from the top: the current section starts at the default one in *this* pass
        n += 1
        inits = [s2 for s2 in f["fn"].body if isinstance(s2, ast.Assign) and s2.lineno < f["loop"].lineno and any(unparse(t) == secvar for t in s2.targets)]
        if not inits and secvar.startswith("self."):
            # an attribute may equally be reset by assemble() right before it runs this pass
            top = _fn(py, SC_ASM_PY, "Assembler", "assemble")
            calls_here = [x.lineno for x in ast.walk(top) if isinstance(x, ast.Call) and unparse(x.func) == f"self.{f['fn'].name}"]
            if calls_here:
                inits = [s2 for s2 in ast.walk(top) if isinstance(s2, ast.Assign) and s2.lineno < min(calls_here) and any(unparse(t) == secvar for t in s2.targets)
                         and not any(isinstance(o, (ast.If, ast.For, ast.While, ast.Try)) and s2 in ast.walk(o) for o in top.body)]
        if not inits:
            ctx.violation("C10.4/section-start", key_of(SC_ASM_PY, f"Assembler.{f['fn'].name}", "current section not re-initialised"),
                          f"{f['fn'].name} never sets `{secvar}` before its loop: the pass starts in whatever section an earlier pass (or an earlier assemble() on the same object) ended in, "
                          "so the same source assembles to different addresses the second time", f"{SC_ASM_PY}:{f['loop'].lineno}")
        elif unparse(inits[-1].value) not in ("self.DEFAULT_SECTION", "Assembler.DEFAULT_SECTION"):
            ctx.violation("C10.4/section-start", key_of(SC_ASM_PY, f"Assembler.{f['fn'].name}", "current section starts elsewhere"),
                          f"{f['fn'].name} starts in section `{unparse(inits[-1].value)}`, not DEFAULT_SECTION", f"{SC_ASM_PY}:{inits[-1].lineno}")
    # S3 _apply_location: branches on first_pass must agree on what they assign
    for iff in [s for s in ast.walk(loc) if isinstance(s, ast.If) and "first_pass" in unparse(s.test)]:
        n += 1
        a1 = _assigned(iff.body)
        a2 = _assigned(iff.orelse)
        rejects = [any(isinstance(x, ast.Raise) for st in arm for x in ast.walk(st)) for arm in (iff.body, iff.orelse)]
        for name in sorted(set(a1) | set(a2)):
            if name.startswith("self."):
                continue
            v1, v2 = a1.get(name), a2.get(name)
            if v1 == v2:
                continue
            if (v1 is None and rejects[0]) or (v2 is None and rejects[1]):
                continue      # the other pass refuses the program instead of computing the value
            if (v1 is None or v2 is None) and not _live_after(loc, iff, name):
                continue      # a temporary of one arm
            if True:
                ctx.violation("C10.4/location-agree", key_of(SC_ASM_PY, "Assembler._apply_location", f"{name} differs between passes"),
                              f"`{name}` is computed differently in the two passes: pass one {v1 or 'not assigned'}; pass two {v2 or 'not assigned'} - SECTION/.ORG would move the passes to different addresses", f"{SC_ASM_PY}:{iff.lineno}")
    n += 1
    # S4 pointer increments
    inc1 = [s for s in ast.walk(facts["pass1"]["loop"]) if isinstance(s, ast.AugAssign) and isinstance(s.op, ast.Add)]
    inc2 = [s for s in ast.walk(facts["pass2"]["loop"]) if isinstance(s, ast.AugAssign) and isinstance(s.op, ast.Add)]
    if len(inc1) != 1 or len(inc2) != 1:
        raise AnalysisError("pass loops: expected exactly one pointer increment each")
    for tag, inc in (("pass1", inc1[0]), ("pass2", inc2[0])):
        f = facts[tag]
        want = f"{f.get('ptrs')}[{f.get('secvar')}]"
        if "secvar" in f and unparse(inc.target) != want:
            ctx.violation("C10.4/increment", key_of(SC_ASM_PY, f"Assembler.{f['fn'].name}", "increment target"), f"{f['fn'].name} advances `{unparse(inc.target)}`, not the pointer `{want}` it read the statement address from", f"{SC_ASM_PY}:{inc.lineno}")
    if not (isinstance(inc2[0].value, ast.Call) and unparse(inc2[0].value.func) == "len"):
        ctx.violation("C10.4/increment", key_of(SC_ASM_PY, "Assembler._second_pass", "increment is not len(emitted)"), f"pass two advances by {unparse(inc2[0].value)}, not by the number of bytes it emitted", f"{SC_ASM_PY}:{inc2[0].lineno}")
    else:
        emitted = unparse(inc2[0].value.args[0])
        adds = [c for c in ast.walk(facts["pass2"]["loop"]) if isinstance(c, ast.Call) and isinstance(c.func, ast.Attribute) and c.func.attr == "add_binary"]
        if not adds or any(unparse(c.args[0]) != emitted for c in adds):
            ctx.violation("C10.4/increment", key_of(SC_ASM_PY, "Assembler._second_pass", "emitted value"), f"pass two advances by len({emitted}) but adds {[unparse(c.args[0]) for c in adds]} to the image", f"{SC_ASM_PY}:{inc2[0].lineno}")
    # S5 hand-off key: same expression in both passes, and it is the enumerate index (unique per statement)
    k1 = facts["pass1"]["calls"].get("_get_statement_size")
    k2 = facts["pass2"]["calls"].get("_encode_statement")
    n += 1
    if k1 is None or k2 is None or len(k1.args) < 2 or len(k2.args) < 2:
        raise AnalysisError("pass loops: _get_statement_size / _encode_statement calls with a key argument not found")
    key1, key2 = unparse(k1.args[1]), unparse(k2.args[1])
    def _role(tag: str, knode: ast.AST) -> str:
        # the loop index and the loop element are named by role, so that the two functions' own names for them do not matter
        lp_ = facts[tag]["loop"]
        txt = _resolve_in_loop(lp_, knode)
        if isinstance(lp_.target, ast.Tuple):
            for role, el in zip(("<index>", "<line>"), lp_.target.elts):
                if isinstance(el, ast.Name):
                    txt = re.sub(rf"\b{re.escape(el.id)}\b", role, txt)
        return txt
    ctx.extra["handoff_key"] = {"pass1": key1, "pass2": key2, "resolved1": _role("pass1", k1.args[1]), "resolved2": _role("pass2", k2.args[1])}
    if ctx.extra["handoff_key"]["resolved1"] != ctx.extra["handoff_key"]["resolved2"]:
        ctx.violation("C10.4/cache-key", key_of(SC_ASM_PY, "Assembler._first_pass/_second_pass", "hand-off key differs"), f"pass one caches built instructions under `{key1}`, pass two looks them up under `{key2}`", f"{SC_ASM_PY}:{k2.lineno}")
    for tag, key, knode in (("pass1", key1, k1.args[1]), ("pass2", key2, k2.args[1])):
        idx = facts[tag]["idx"]
        injective = (isinstance(knode, ast.Name) and knode.id == idx) or (isinstance(knode, ast.Tuple) and any(isinstance(e, ast.Name) and e.id == idx for e in knode.elts))
        if not injective:
            ctx.violation("C10.4/cache-key", key_of(SC_ASM_PY, f"Assembler.{facts[tag]['fn'].name}", "hand-off key is not the statement index"),
                          f"instructions are handed from pass one to pass two under `{key}`, which is not the loop index `{facts[tag]['idx']}`: the grammar's `line` rule is not newline-terminated, so several statements can share a source line and one key", f"{SC_ASM_PY}:{facts[tag]['fn'].lineno}")
    # the key is what _get_statement_size stores under and _encode_statement loads from
    gs = _fn(py, SC_ASM_PY, "Assembler", "_get_statement_size")
    es = _fn(py, SC_ASM_PY, "Assembler", "_encode_statement")
    st = [s for s in ast.walk(gs) if isinstance(s, ast.Assign) and isinstance(s.targets[0], ast.Subscript) and "instructions_cache" in unparse(s.targets[0].value)]
    ld = [s for s in ast.walk(es) if isinstance(s, ast.Subscript) and "instructions_cache" in unparse(s.value) and isinstance(s.ctx, ast.Load)]
    n += 1
    if not st or not ld:
        raise AnalysisError("instructions_cache store/load sites not found")
    if unparse(st[0].targets[0].slice) != gs.args.args[2].arg or unparse(ld[0].slice) != es.args.args[2].arg:
        ctx.violation("C10.4/cache-key", key_of(SC_ASM_PY, "Assembler._get_statement_size/_encode_statement", "key parameter"), "the cache is not indexed by the key parameter the pass loops pass in", f"{SC_ASM_PY}:{gs.lineno}")
    # grammar fact behind S5
    gtext = (REPO / GRAMMAR).read_text()
    m = re.search(r"^line\s*:\s*(.+)$", gtext, re.M)
    ctx.extra["grammar_line_rule"] = m.group(1).strip() if m else None
    ctx.instance("C10.4/passes", "sibling agreement of the pass loops: traversal, location handling before the address read, first_pass branches assign the same values, increments, hand-off key == statement index", n, 6)


def _resolve_in_loop(loop: ast.For, e: ast.AST) -> str:
    """Inline names assigned exactly once in the loop body (tuple targets excluded)."""
    defs: dict[str, list[ast.AST]] = collections.defaultdict(list)
    for n in ast.walk(loop):
        if isinstance(n, ast.Assign) and len(n.targets) == 1 and isinstance(n.targets[0], ast.Name):
            defs[n.targets[0].id].append(n.value)
    import copy

    def inline(x: ast.AST, depth: int = 0) -> ast.AST:
        class T(ast.NodeTransformer):
            def visit_Name(self, n: ast.Name) -> ast.AST:
                if depth < 5 and isinstance(n.ctx, ast.Load) and len(defs.get(n.id, [])) == 1:
                    return inline(copy.deepcopy(defs[n.id][0]), depth + 1)
                return n
        return T().visit(x)
    return unparse(inline(copy.deepcopy(e)))


def _live_after(fn: ast.FunctionDef, node: ast.AST, name: str) -> bool:
    """Is `name` read anywhere after `node` (by line) in fn?  Temporaries local to one arm are not compared."""
    end = getattr(node, "end_lineno", node.lineno)
    return any(isinstance(x, (ast.Name, ast.Attribute, ast.Subscript)) and isinstance(getattr(x, "ctx", None), ast.Load) and unparse(x) == name and x.lineno > end for x in ast.walk(fn))


def _assigned(body: list) -> dict[str, str]:
    """name -> value expression(s) assigned in a block, with the block's own single-assignment temporaries inlined, so that
    `v = f(x); y = g(v)` and `y = g(f(x))` compare equal.  A try/except that substitutes a fallback shows up as alternatives `a | b`."""
    multi: dict[str, list[ast.AST]] = collections.defaultdict(list)
    for st in body:
        for n in ast.walk(st):
            if isinstance(n, ast.Assign):
                for t in n.targets:
                    multi[unparse(t)].append(n.value)
    single = {k: v[0] for k, v in multi.items() if len(v) == 1 and re.fullmatch(r"[A-Za-z_]\w*", k)}

    def inline(e: ast.AST, depth: int = 0) -> str:
        if depth > 6:
            return unparse(e)

        class T(ast.NodeTransformer):
            def visit_Name(self, n: ast.Name) -> ast.AST:
                if isinstance(n.ctx, ast.Load) and n.id in single and single[n.id] is not e:
                    return ast.parse(inline(single[n.id], depth + 1), mode="eval").body
                return n
        import copy
        return unparse(T().visit(copy.deepcopy(e)))
    return {k: " | ".join(sorted({inline(x) for x in v})) for k, v in multi.items()}


def state(ctx: Ctx, py: PyProgram) -> None:
    mod = py.module(SC_ASM_PY)
    acls = py.cls(mod, "Assembler")
    init = _fn(py, SC_ASM_PY, "Assembler", "__init__")
    p1 = _fn(py, SC_ASM_PY, "Assembler", "_first_pass")
    p2 = _fn(py, SC_ASM_PY, "Assembler", "_second_pass")
    fields = []
    for s in ast.walk(init):
        if isinstance(s, (ast.Assign, ast.AnnAssign)):
            ts = s.targets if isinstance(s, ast.Assign) else [s.target]
            for t in ts:
                if isinstance(t, ast.Attribute) and isinstance(t.value, ast.Name) and t.value.id == "self":
                    fields.append(t.attr)
    n = 0
    # (a) reset on entry: an unconditional top-level statement of _first_pass (or of _second_pass before its loop) re-initialises the field
    for f in fields:
        if f == "_reverse_opcodes":
            continue
        n += 1
        ok = False
        ok_in = set()
        for fn in (p1, p2):
            for st in fn.body:
                if isinstance(st, ast.For):
                    break
                src = unparse(st)
                if re.match(rf"self\.{f}\s*(:[^=]+)?=", src) or src.startswith(f"self.{f}.clear()"):
                    ok = True
                    ok_in.add(fn.name)
        if ok and p1.name not in ok_in:
            # re-initialised by pass two only: then pass one (and every method it reaches) must not read it, or the first pass of the
            # next assemble() on this object works with what the previous program left there
            from ..memo import method_closure
            reach = method_closure(mod, "Assembler", [p1.name])
            cls_node = next(c_ for c_ in ast.walk(mod.tree) if isinstance(c_, ast.ClassDef) and c_.name == "Assembler")
            readers = [m_.name for m_ in cls_node.body if isinstance(m_, ast.FunctionDef) and m_.name in reach
                       and any(isinstance(x, ast.Attribute) and x.attr == f and isinstance(x.value, ast.Name) and x.value.id == "self" and isinstance(x.ctx, ast.Load) for x in ast.walk(m_))]
            if readers:
                ctx.violation("C10.5/reset", key_of(SC_ASM_PY, "Assembler._first_pass", f"self.{f} read by pass one, reset only in pass two"),
                              f"self.{f} is re-initialised at the start of pass two only, but pass one reads it (through {sorted(readers)}): on a reused Assembler the first pass of the next program sees the previous program's {f}, so the two passes disagree", f"{SC_ASM_PY}:{p1.lineno}")
        if not ok and f == "current_address":
            # written in the pass-two loop before every use
            lp = [s for s in p2.body if isinstance(s, ast.For)]
            ok = bool(lp) and any(isinstance(s, ast.Assign) and unparse(s.targets[0]) == "self.current_address" for s in lp[0].body)
        if not ok:
            ctx.violation("C10.5/reset", key_of(SC_ASM_PY, "Assembler._first_pass", f"self.{f} not re-initialised"), f"per-assembly field self.{f} is not re-initialised at the start of a pass: a second assemble() on the same object starts from the previous call's {f}", f"{SC_ASM_PY}:{p1.lineno}")
    # (b) module-level mutable state: single guarded writer, no write through templates
    globs = [s for s in mod.tree.body if isinstance(s, (ast.Assign, ast.AnnAssign)) and isinstance(getattr(s, "value", None), (ast.Dict, ast.List, ast.Set))]
    gnames = []
    for s in globs:
        t = s.targets[0] if isinstance(s, ast.Assign) else s.target
        if isinstance(t, ast.Name):
            gnames.append(t.id)
    if "REVERSE_OPCODES_CACHE" not in gnames:
        raise AnalysisError("REVERSE_OPCODES_CACHE is no longer a module-level container display in sc_asm.py")
    for g in gnames:
        writers = []
        for fn in [x for x in ast.walk(mod.tree) if isinstance(x, ast.FunctionDef)]:
            for c in ast.walk(fn):
                if isinstance(c, ast.Call) and isinstance(c.func, ast.Attribute) and isinstance(c.func.value, ast.Name) and c.func.value.id == g and c.func.attr in ("update", "clear", "pop", "setdefault", "append", "extend", "add", "popitem", "remove", "insert"):
                    writers.append((fn, c))
                if isinstance(c, (ast.Assign, ast.AugAssign, ast.Delete)):
                    ts = c.targets if isinstance(c, (ast.Assign, ast.Delete)) else [c.target]
                    for t in ts:
                        if isinstance(t, ast.Subscript) and isinstance(t.value, ast.Name) and t.value.id == g:
                            writers.append((fn, c))
                if isinstance(c, ast.Global) and g in c.names:
                    writers.append((fn, c))
        n += 1
        for fn, c in writers:
            guarded = fn.name == "__init__" and any(isinstance(i, ast.If) and unparse(i.test) == f"not {g}" and any(x is c for x in ast.walk(i)) for i in ast.walk(fn))
            src_ok = isinstance(c, ast.Call) and c.func.attr == "update" and c.args and unparse(c.args[0]) == "self._build_reverse_opcodes()"
            if not (guarded and src_ok):
                ctx.violation("C10.5/shared-cache", key_of(SC_ASM_PY, fn.name, f"writes {g}"), f"{fn.name} writes the module-level {g} outside the fill-once guard: `{unparse(c)[:80]}` - one assemble() could change the next", f"{SC_ASM_PY}:{c.lineno}")
    bro = _fn(py, SC_ASM_PY, "Assembler", "_build_reverse_opcodes")
    reads = {x.id for x in ast.walk(bro) if isinstance(x, ast.Name) and isinstance(x.ctx, ast.Load)} - {a.arg for a in bro.args.args}
    locals_ = {t.id for s in ast.walk(bro) for t in (ast.walk(s) if isinstance(s, (ast.Assign, ast.For, ast.AnnAssign)) else []) if isinstance(t, ast.Name) and isinstance(t.ctx, ast.Store)}
    free = reads - locals_ - {"isinstance", "tuple", "Opts", "len", "dict", "list", "str", "Any", "Dict", "List", "Optional", "Tuple", "Type"}
    n += 1
    if free - {"OPCODES"} or any(isinstance(x, ast.Attribute) and isinstance(x.value, ast.Name) and x.value.id == "self" for x in ast.walk(bro)):
        ctx.violation("C10.5/shared-cache", key_of(SC_ASM_PY, "Assembler._build_reverse_opcodes", "inputs"), f"the shared template map depends on more than OPCODES: {sorted(free - {'OPCODES'})} / instance state", f"{SC_ASM_PY}:{bro.lineno}")
    # write-through: names bound from the template map must never be stored through
    n += taint_templates(ctx, py)
    # (c) determinism lint
    n += determinism(ctx, py)
    # (d) transformer writes no state
    tmod = py.module(ASM_PY)
    tcls = py.cls(tmod, "AsmTransformer")
    k = 0
    for name, fn in tcls.methods.items():
        k += 1
        for s in ast.walk(fn):
            if isinstance(s, (ast.Assign, ast.AugAssign, ast.AnnAssign)):
                ts = s.targets if isinstance(s, ast.Assign) else [s.target]
                for t in ts:
                    if isinstance(t, ast.Attribute) and isinstance(t.value, ast.Name) and t.value.id == "self":
                        ctx.violation("C10.5/transformer-state", key_of(ASM_PY, f"AsmTransformer.{name}", f"self.{t.attr}"), f"transformer method {name} stores self.{t.attr}: parse results would depend on earlier statements", f"{ASM_PY}:{s.lineno}")
            if isinstance(s, ast.Global):
                ctx.violation("C10.5/transformer-state", key_of(ASM_PY, f"AsmTransformer.{name}", "global"), f"transformer method {name} declares globals {s.names}", f"{ASM_PY}:{s.lineno}")
    # (e) nothing that holds per-assembly objects is memoised across assemblies: the passes resolve symbols by writing into the operand
    #     objects of the program AST, so a remembered AST (or instruction) carries one assembly's values into the next
    scalar = {"int", "str", "bytes", "bool", "float", "None", "Optional[int]", "Optional[str]"}
    for rel in (SC_ASM_PY, ASM_PY):
        m = py.module(rel)
        for fn in [x for x in ast.walk(m.tree) if isinstance(x, (ast.FunctionDef, ast.AsyncFunctionDef))]:
            n += 1
            for d in fn.decorator_list:
                dd = d.func if isinstance(d, ast.Call) else d
                nm = dd.id if isinstance(dd, ast.Name) else getattr(dd, "attr", "")
                if nm in ("lru_cache", "cache", "cached_property", "memoize"):
                    ann = unparse(fn.returns) if fn.returns is not None else "?"
                    if ann in scalar:
                        continue
                    calls = [c for c in ast.walk(m.tree) if isinstance(c, ast.Call) and ((isinstance(c.func, ast.Name) and c.func.id == fn.name) or (isinstance(c.func, ast.Attribute) and c.func.attr == fn.name))]
                    wrapped = [w.args[0] for w in ast.walk(m.tree) if isinstance(w, ast.Call) and unparse(w.func) in ("copy.deepcopy", "deepcopy") and w.args]
                    if calls and all(any(c is w for w in wrapped) for c in calls):
                        continue    # every use takes a private deep copy
                    ctx.violation("C10.5/memo", key_of(rel, fn.name, f"@{nm}"),
                                  f"{fn.name} is memoised with @{nm} and returns `{ann}`: a parsed program / instruction object remembered across assemble() calls is the object pass two has already written resolved values into, so assembling the same text again does not start from the text", f"{rel}:{fn.lineno}")
    ctx.instance("C10.5/state", "per-assembly fields reset, shared cache single guarded writer fed from OPCODES only, templates never written, determinism lint, no memoised AST", n, 8)
    ctx.instance("C10.5/transformer-state", "AsmTransformer methods that store no instance/global state", k, 200)
    ctx.functions_analysed += k + 8


def taint_templates(ctx: Ctx, py: PyProgram) -> int:
    fn = _fn(py, SC_ASM_PY, "Assembler", "_build_instruction")
    tainted = {"template", "self._reverse_opcodes"}
    changed = True
    assigns = [s for s in ast.walk(fn) if isinstance(s, (ast.Assign, ast.For, ast.AnnAssign))]
    while changed:
        changed = False
        for s in assigns:
            if isinstance(s, ast.For):
                src, tgts = s.iter, [s.target]
            else:
                src, tgts = s.value, (s.targets if isinstance(s, ast.Assign) else [s.target])
            if src is None:
                continue
            srcs = _taint_sources(src)
            # zip(provided_ops, template_ops): element-wise, only the positions fed by tainted iterables
            if isinstance(src, ast.Call) and unparse(src.func) == "zip" and isinstance(tgts[0], ast.Tuple):
                for t, a in zip(tgts[0].elts, src.args):
                    if unparse(a) in tainted and isinstance(t, ast.Name) and t.id not in tainted:
                        tainted.add(t.id)
                        changed = True
                continue
            if srcs & tainted:
                for t in tgts:
                    for nm in ast.walk(t):
                        if isinstance(nm, ast.Name) and nm.id not in tainted:
                            tainted.add(nm.id)
                            changed = True
    n = 0
    for s in ast.walk(fn):
        if isinstance(s, (ast.Assign, ast.AugAssign)):
            ts = s.targets if isinstance(s, ast.Assign) else [s.target]
            for t in ts:
                if isinstance(t, (ast.Attribute, ast.Subscript)):
                    root = t.value
                    while isinstance(root, (ast.Attribute, ast.Subscript)):
                        root = root.value
                    n += 1
                    if isinstance(root, ast.Name) and root.id in tainted:
                        ctx.violation("C10.5/template-write", key_of(SC_ASM_PY, "Assembler._build_instruction", unparse(t)), f"`{unparse(s)[:80]}` stores through an object of the shared template map: the next assembly sees the change", f"{SC_ASM_PY}:{s.lineno}")
        if isinstance(s, ast.Call):
            f = s.func
            if isinstance(f, ast.Name) and f.id == "setattr" and s.args:
                root = s.args[0]
                while isinstance(root, (ast.Attribute, ast.Subscript)):
                    root = root.value
                n += 1
                if isinstance(root, ast.Name) and root.id in tainted:
                    ctx.violation("C10.5/template-write", key_of(SC_ASM_PY, "Assembler._build_instruction", unparse(s)[:60]), f"`{unparse(s)[:80]}` sets an attribute on an object of the shared template map", f"{SC_ASM_PY}:{s.lineno}")
            if isinstance(f, ast.Attribute) and f.attr in ("append", "extend", "insert", "pop", "remove", "clear", "update", "sort", "reverse"):
                root = f.value
                while isinstance(root, (ast.Attribute, ast.Subscript)):
                    root = root.value
                if isinstance(root, ast.Name) and root.id in tainted:
                    n += 1
                    ctx.violation("C10.5/template-write", key_of(SC_ASM_PY, "Assembler._build_instruction", unparse(s)[:60]), f"`{unparse(s)[:80]}` mutates a container of the shared template map", f"{SC_ASM_PY}:{s.lineno}")
            # the built instruction must not alias template operand objects
            if isinstance(f, ast.Name) and f.id == "instr_class":
                for kw in s.keywords:
                    if kw.arg == "operands":
                        n += 1
                        names = {x.id for x in ast.walk(kw.value) if isinstance(x, ast.Name)}
                        if names & tainted:
                            ctx.violation("C10.5/template-write", key_of(SC_ASM_PY, "Assembler._build_instruction", "operands alias templates"), f"the instruction is built from template operand objects ({sorted(names & tainted)}): pass two resolves symbols by writing into them", f"{SC_ASM_PY}:{s.lineno}")
    if n < 6:
        raise AnalysisError(f"_build_instruction: only {n} store/setattr/constructor sites inspected; the function changed shape")
    ctx.extra["template_tainted_names"] = sorted(tainted)
    return n


_SCALAR_ATTRS = {"cond", "ops_reversed", "name", "sign", "order", "width", "size", "mode"}


def _taint_sources(src: ast.AST) -> set[str]:
    """Names/attribute chains an expression may alias; projections to immutable scalars (template['opcode'], .cond, ...) and calls that
    build new objects from such scalars alias nothing."""
    out: set[str] = set()

    def rec(n: ast.AST) -> None:
        if isinstance(n, ast.Attribute) and n.attr in _SCALAR_ATTRS:
            return
        if isinstance(n, ast.Subscript) and isinstance(n.slice, ast.Constant) and n.slice.value in ("opcode", "class"):
            return
        if isinstance(n, ast.Compare) or (isinstance(n, ast.Call) and unparse(n.func) in ("isinstance", "len", "repr", "getattr", "type", "int", "str", "bool")):
            if isinstance(n, ast.Call) and unparse(n.func) == "getattr":
                # getattr(t_op, "allowed_modes", None) aliases the attribute value
                if len(n.args) > 1 and isinstance(n.args[1], ast.Constant) and n.args[1].value in _SCALAR_ATTRS:
                    return
                rec(n.args[0])
            return
        if isinstance(n, (ast.Name, ast.Attribute)):
            out.add(unparse(n))
        for c in ast.iter_child_nodes(n):
            rec(c)
    rec(src)
    return out


def determinism(ctx: Ctx, py: PyProgram) -> int:
    n = 0
    for rel in (SC_ASM_PY, ASM_PY):
        mod = py.module(rel)
        for s in ast.walk(mod.tree):
            if isinstance(s, (ast.Import, ast.ImportFrom)):
                names = [a.name for a in s.names] + ([s.module] if isinstance(s, ast.ImportFrom) and s.module else [])
                n += 1
                for nm in names:
                    if nm.split(".")[0] in ("random", "time", "datetime", "uuid", "secrets", "threading"):
                        ctx.violation("C10.5/determinism", key_of(rel, "<module>", f"import {nm}"), f"{rel} imports {nm}: a source of run-to-run variation in the assembler", f"{rel}:{s.lineno}")
            if isinstance(s, ast.For):
                it = s.iter
                n += 1
                if isinstance(it, (ast.Set, ast.SetComp)) or (isinstance(it, ast.Call) and unparse(it.func) in ("set", "frozenset")):
                    ctx.violation("C10.5/determinism", key_of(rel, "<loop>", unparse(it)[:60]), f"iteration over a set ({unparse(it)[:60]}): order is not defined across runs", f"{rel}:{s.lineno}")
            if isinstance(s, ast.Call) and unparse(s.func) in ("id", "hash", "os.getenv", "os.environ.get"):
                n += 1
                ctx.violation("C10.5/determinism", key_of(rel, "<call>", unparse(s)[:60]), f"`{unparse(s)[:60]}` makes assembly depend on the process", f"{rel}:{s.lineno}")
    return n
