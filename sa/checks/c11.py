"""C11 - the memory bus behaves like memory: separate spaces, immutable ROM, LE words.

Decides (shape on every path; not read-after-write over histories/configurations):
  1 GUARD-DOM  canonicalisation: every CPU-facing accessor reduces the address (24-bit, then per-space) before any use;
               every index into a backing array carries its space-specific reduction or a bounds test
  2 INTERVAL   storage partition: the index ranges used for the internal and the external space into one backing array
               are disjoint
  3 SENTINEL   in load/store_internal_value the only `None` (= "fall through to external") source is "not an internal address"
  4 GUARD-DOM  read-only: every CPU-path store into external/overlay data is dominated by the read-only test
               and the 'not handled' verdict of an overlay write is unreachable for a read-only overlay
  5 FORM       multi-byte accessors are little-endian compositions of byte accesses (same loop variable in index and shift)
"""
from __future__ import annotations

import ast
from typing import Any

from .. import cfg as cfgmod
from .. import isa
from ..core import REPO, AnalysisError, Ctx
from ..pyfacts import NotConst, PyEval, PyProgram, attr_chain, unparse
from ..rsfacts import RsInterp, RustProgram, expr_text, pat_text, walk
from ..rules import (def_root, rs_names_reaching, key_of, py_defs, py_guard_text, py_is_call, py_leaves, rs_defs, rs_guard_text, rs_is_call,
                     rs_is_mcall, rs_leaves)

LEVEL = "other"
EXPLANATION = (
    "GUARD-DOM / INTERVAL / SENTINEL / FORM rules over pce500/memory.py, pce500/memory_bus.py and sc62015/core/src/memory.rs: address "
    "canonicalisation dominates every use, every backing-array index is reduced or bounds-tested, index intervals of the two address spaces "
    "into one array must not overlap, the internal accessors may return the fall-through sentinel only for non-internal addresses, CPU-path "
    "stores are dominated by the read-only test, and multi-byte accessors are little-endian byte compositions. "
    "Read-after-write / no-other-location-changes over access histories and configurations are declined."
)
TRUSTED = ["syn / CPython parsers", "sa/cfg.py dominators", "interval evaluation of the index expressions listed in the evidence"]
CLAIM = ("Decides on every path that addresses are canonicalised before use, that backing-array indices are bounded, that internal and external storage do not share cells, "
         "that the internal accessors cannot leak an internal access into the external space, that CPU stores respect read-only ranges, and that word accesses are little-endian byte compositions.")
NOTE = "Behaviour over sequences of accesses and overlay configurations is not decided; device windows of RuntimeBus are out of scope of this check."
TECHNIQUE = "dominator guard analysis + interval analysis of storage indices + sentinel-source rule + accessor form check"

MEM_PY = "pce500/memory.py"
BUS_PY = "pce500/memory_bus.py"
MEM_RS = "core/src/memory.rs"


def run(ctx: Ctx) -> None:
    py = PyProgram()
    rs = RustProgram()
    for f in (MEM_PY, BUS_PY):
        ctx.file_used(REPO / f)
    ctx.file_used(REPO / rs.file_for(MEM_RS))
    canonical_python(ctx, py)
    canonical_rust(ctx, rs)
    partition(ctx, py, rs)
    sentinel(ctx, rs)
    read_only(ctx, py, rs)
    readonly_interval(ctx, rs)
    little_endian(ctx, py, rs)
    lookup_purity_and_handlers(ctx, py)
    overlay_extent_and_precedence(ctx, py, rs)
    lookup_visits_all(ctx, py)


# ---------------------------------------------------------------------------
def canonical_python(ctx: Ctx, py: PyProgram) -> None:
    n = 0
    for qual in ("PCE500Memory.read_byte", "PCE500Memory.write_byte"):
        fn = py.func(MEM_PY, qual)
        g = cfgmod.build_py(fn, qual)
        ctx.functions_analysed += 1
        ctx.cfg_nodes += len(g.nodes)
        param = fn.args.args[1].arg
        masks = [(st, g.node_of(st)) for st in ast.walk(fn) if isinstance(st, ast.AugAssign) and isinstance(st.op, ast.BitAnd) and isinstance(st.target, ast.Name) and st.target.id == param]
        m24 = [nd for st, nd in masks if unparse(st.value) == "0xFFFFFF" or PyEval(py, py.module(MEM_PY)).eval(st.value) == 0xFFFFFF]
        m20 = [nd for st, nd in masks if PyEval(py, py.module(MEM_PY)).eval(st.value) == 0xFFFFF]
        ctx.need(len(m24) == 1 and len(m20) == 1, f"{qual}: expected one 24-bit and one 20-bit address reduction")
        mask_nodes = {nd for _st, nd in masks}
        # every statement that reads `address` is dominated by the 24-bit reduction
        for nd in g.stmt_nodes():
            if nd.id in mask_nodes or nd.ast is None:
                continue
            uses = [x for x in (ast.walk(nd.ast) if isinstance(nd.ast, ast.AST) else []) if isinstance(x, ast.Name) and x.id == param and isinstance(x.ctx, ast.Load)]
            if not uses or not g.is_reachable(nd.id):
                continue
            n += 1
            if not g.dominates(m24[0], nd.id):
                ctx.violation("C11.1/canonical", key_of(MEM_PY, qual, f"use-before-mask:{unparse(nd.ast)[:50]}"), f"`{param}` is used before the 24-bit reduction", f"{MEM_PY}:{nd.line}")
        # every external_memory[address] access and bus access is dominated by the 20-bit reduction
        for x in ast.walk(fn):
            site = None
            if isinstance(x, ast.Subscript) and attr_chain(x.value) == "self.external_memory" and unparse(x.slice) == param:
                site = x
            elif py_is_call(x, "self._bus.read") or py_is_call(x, "self._bus.write"):
                site = x
            if site is not None:
                n += 1
                nd = g.node_of(site)
                if nd is None or not g.dominates(m20[0], nd):
                    ctx.violation("C11.1/canonical", key_of(MEM_PY, qual, f"external:{unparse(site)[:50]}"), "external access not dominated by the 20-bit address reduction", f"{MEM_PY}:{site.lineno}")
    ctx.instance("C11.1/canonical-python", "uses of the address in read_byte/write_byte dominated by the 24-bit reduction; external/bus accesses by the 20-bit one", n, 30)


def canonical_rust(ctx: Ctx, rs: RustProgram) -> None:
    n = 0
    rel = rs.file_for(MEM_RS)
    cpu_facing = ["MemoryImage::read_byte", "MemoryImage::load_with_pc", "MemoryImage::store_with_pc", "MemoryImage::apply_host_write_with_cycle",
                  "MemoryImage::write_external_byte", "MemoryImage::requires_python", "MemoryImage::is_internal", "MemoryImage::internal_index"]
    for qual in cpu_facing:
        fn = rs.fn(MEM_RS, qual)
        g = cfgmod.build_rs(fn.node, qual)
        ctx.functions_analysed += 1
        ctx.cfg_nodes += len(g.nodes)
        params_ = set(fn.params())
        canon = [st for st in fn.body["stmts"] if st.get("k") == "let" and st["pat"].get("k") == "p_ident" and st.get("init") is not None and st["init"].get("k") == "call"
                 and expr_text(st["init"]["f"]).split("::")[-1] == "canonical_address" and len(st["init"]["args"]) == 1 and expr_text(st["init"]["args"][0]) in params_]
        n += 1
        if len(canon) != 1:
            ctx.violation("C11.1/canonical", key_of(rel, qual, "canonical_address"), f"{qual} does not start from `let address = canonical_address(address)`", fn.where)
            continue
        cn = g.node_of(canon[0])
        raw = expr_text(canon[0]["init"]["args"][0])       # the raw address parameter; every other use of that name must come after the reduction
        for nd in g.stmt_nodes():
            if nd.id == cn or nd.ast is None or not g.is_reachable(nd.id):
                continue
            if any(x.get("k") == "path" and x["p"] == raw for x in walk(nd.ast)):
                n += 1
                if not g.dominates(cn, nd.id):
                    ctx.violation("C11.1/canonical", key_of(rel, qual, "address used before the reduction"), f"the address parameter is used before canonical_address(): `{expr_text(nd.ast)[:60]}`", f"{rel}:{nd.line}")
                elif canon[0]["pat"]["name"] != raw:
                    ctx.violation("C11.1/canonical", key_of(rel, qual, "raw address used after the reduction"), f"the unreduced address parameter is used although a reduced copy exists: `{expr_text(nd.ast)[:60]}`", f"{rel}:{nd.line}")
    # every index into self.external / self.internal
    for fn in rs.fns_in(MEM_RS):
        if fn.impl_ty != "MemoryImage" or fn.body is None:
            continue
        d = rs_defs(fn.body)
        g = None
        for x in walk(fn.body):
            if x.get("k") == "index" and expr_text(x["e"]) in ("self.external", "self.internal"):
                arr = expr_text(x["e"])
                idx = x["i"]
                n += 1
                if g is None:
                    g = cfgmod.build_rs(fn.node, fn.qual)
                t = expr_text(idx)
                lv = rs_leaves(idx, d)
                ok = False
                why = ""
                if arr == "self.external":
                    full = t
                    for nm in [p["p"] for p in walk(idx) if p.get("k") == "path"]:
                        for dd in d.get(nm, []):
                            if isinstance(dd, dict):
                                full += " " + expr_text(dd)
                    if "&(EXTERNAL_SPACE-1)" in full.replace(" ", ""):
                        ok, why = True, "masked with EXTERNAL_SPACE-1"
                    elif idx.get("k") == "range":
                        node = g.node_of(x)
                        gs = [rs_guard_text(q) for q in g.guards_of(node)] if node is not None else []
                        reach = rs_names_reaching(idx, d)
                        if any("len()" in q for q in gs) or ({".len()", ".min()"} <= reach):
                            ok, why = True, "slice bounded by min(len) / an explicit length test"
                else:
                    node = g.node_of(x)
                    gs = g.guards_of(node) if node is not None else []
                    if "Self::internal_index" in lv or any(isinstance(dd, tuple) and "internal_index" in str(expr_text(dd[-1]) if isinstance(dd[-1], dict) else dd) for nm in [p["p"] for p in walk(idx) if p.get("k") == "path"] for dd in d.get(nm, [])):
                        ok, why = True, "index produced by internal_index()"
                    elif any(isinstance(a, dict) and pol and "<INTERNAL_SPACE" in expr_text(a).replace(" ", "") for a, pol, _o in gs):
                        ok, why = True, "guarded by offset < INTERNAL_SPACE"
                    elif idx.get("k") == "range" or "INTERNAL_SPACE" in " ".join(lv):
                        ok, why = True, "bounded by INTERNAL_SPACE"
                if not ok:
                    ctx.violation("C11.1/index-bounded", key_of(rel, fn.qual, f"{arr}[{t}]"), f"{arr}[{t}] is indexed without its space reduction / bounds test", f"{rel}:{x['ln']}")
                elif n % 7 == 0:
                    ctx.sample({"site": f"{rel}:{x['ln']}", "index": f"{arr}[{t}]", "why": why})
    ctx.instance("C11.1/canonical-rust", "canonical_address dominates uses in 8 CPU-facing accessors; all self.external/self.internal indices reduced or bounded", n, 40)


# ---------------------------------------------------------------------------
def partition(ctx: Ctx, py: PyProgram, rs: RustProgram) -> None:
    """Index intervals per (backing array, address space)."""
    mod = py.module(MEM_PY)
    init = py.func(MEM_PY, "PCE500Memory.__init__")
    size = None
    for a in ast.walk(init):
        if isinstance(a, ast.Assign) and any(attr_chain(t) == "self.external_memory" for t in a.targets) and isinstance(a.value, ast.Call) and unparse(a.value.func) == "bytearray":
            size = PyEval(py, mod).eval(a.value.args[0])
    ctx.need(isinstance(size, int), "PCE500Memory.__init__: external_memory size not found")
    spaces: dict[str, dict[str, tuple[int, int]]] = {}
    n = 0
    cev = PyEval(py, mod)

    def interval(e: ast.AST, d: dict, params: set, depth: int = 0) -> tuple[int, int] | None:
        """Range of an index expression, through the function's own definitions (names play no role)."""
        if depth > 6:
            return None
        if isinstance(e, ast.Call) and isinstance(e.func, ast.Name) and e.func.id == "len" and e.args and attr_chain(e.args[0]) == "self.external_memory":
            return (size, size)
        if isinstance(e, (ast.Name, ast.Call, ast.BinOp)) and not isinstance(e, ast.Name):
            pass
        try:
            if any(isinstance(x_, ast.Call) for x_ in ast.walk(e)) or (isinstance(e, ast.Name) and e.id in d):
                raise NotConst("not a module constant")
            v = cev.eval(e)
            if isinstance(v, int) and not isinstance(v, bool):
                return (v, v)
        except Exception:  # noqa: BLE001 - not a constant
            pass
        if isinstance(e, ast.Call) and isinstance(e.func, ast.Name) and e.func.id == "int" and len(e.args) == 1:
            return interval(e.args[0], d, params, depth + 1)
        if isinstance(e, ast.Call) and isinstance(e.func, ast.Name) and e.func.id == "len" and e.args and attr_chain(e.args[0]) == "self.external_memory":
            return (size, size)
        if isinstance(e, ast.Name):
            if e.id in params:
                return (0, 0xFFFFF)        # a CPU address after the reduction decided by C11.1/canonical
            vs = [v for v in d.get(e.id, []) if isinstance(v, ast.AST)]
            if not vs:
                return None
            rs_ = [interval(v, d, params, depth + 1) for v in vs]
            if any(r is None for r in rs_):
                return None
            return (min(r[0] for r in rs_), max(r[1] for r in rs_))
        if isinstance(e, ast.BinOp):
            if isinstance(e.op, ast.BitAnd):
                for x in (e.right, e.left):
                    r = interval(x, d, params, depth + 1)
                    if r is not None and r[0] == r[1] and r[0] >= 0:
                        return (0, r[0])
                return None
            l, r = interval(e.left, d, params, depth + 1), interval(e.right, d, params, depth + 1)
            if l is None or r is None:
                return None
            if isinstance(e.op, ast.Add):
                return (l[0] + r[0], l[1] + r[1])
            if isinstance(e.op, ast.Sub):
                return (l[0] - r[1], l[1] - r[0])
        return None
    for qual in ("PCE500Memory.read_byte", "PCE500Memory.write_byte"):
        fn = py.func(MEM_PY, qual)
        d = py_defs(fn)
        params = {a_.arg for a_ in fn.args.args}
        for x in ast.walk(fn):
            if isinstance(x, ast.Subscript) and attr_chain(x.value) == "self.external_memory" and not isinstance(x.slice, ast.Slice):
                n += 1
                iv = interval(x.slice, d, params)
                ctx.need(iv is not None, f"{qual}: range of the index `{unparse(x.slice)}` of external_memory not evaluable")
                # an index built from the array's own length is the internal window; an index that is the CPU address is the external space
                derived_from_len = any(isinstance(c, ast.Call) and isinstance(c.func, ast.Name) and c.func.id == "len" for v in ([x.slice] + [w for w in d.get(unparse(x.slice), []) if isinstance(w, ast.AST)]) for c in ast.walk(v))
                kind = "internal" if derived_from_len else "external"
                if kind == "internal" and not (size - 256 <= iv[0] and iv[1] <= size - 1):
                    ctx.violation("C11.1/canonical", key_of(MEM_PY, qual, "internal offset"), f"the internal-memory index ranges over {iv[0]:#x}..{iv[1]:#x}, outside the 256-byte window {size - 256:#x}..{size - 1:#x}: the internal offset is not reduced to 8 bits", f"{MEM_PY}:{x.lineno}")
                cur = spaces.setdefault("self.external_memory", {}).get(kind)
                spaces["self.external_memory"][kind] = iv if cur is None else (min(cur[0], iv[0]), max(cur[1], iv[1]))
    # any separate internal array?
    for arr, sp in spaces.items():
        if "internal" in sp and "external" in sp:
            a, b = sp["internal"], sp["external"]
            if a[0] <= b[1] and b[0] <= a[1]:
                ctx.violation("C11.2/storage-partition", key_of(MEM_PY, "PCE500Memory", f"{arr}:internal&external"),
                              f"Python keeps the 256-byte internal memory in {arr}[{a[0]:#x}..{a[1]:#x}], inside the range {b[0]:#x}..{b[1]:#x} indexed by external addresses: "
                              f"external {a[0]:#x}..{a[1]:#x} aliases internal memory whenever no overlay covers it", MEM_PY)
    ctx.sample({"python_storage": {k: {s: [hex(v[0]), hex(v[1])] for s, v in sp.items()} for k, sp in spaces.items()}})
    # Rust: two arrays; internal accesses only touch self.internal, external ones only self.external
    st = rs.struct(MEM_RS, "MemoryImage")
    arrays = {f["name"] for f in st["fields"] if f["name"] in ("external", "internal")}
    n += 1
    if arrays != {"external", "internal"}:
        ctx.violation("C11.2/storage-partition", key_of(rs.file_for(MEM_RS), "MemoryImage", "arrays"), f"MemoryImage backing arrays are {sorted(arrays)}; expected separate `external` and `internal`", rs.file_for(MEM_RS))
    for qual, arr_ok in (("MemoryImage::load_internal_value", "self.internal"), ("MemoryImage::store_internal_value", "self.internal"),
                         ("MemoryImage::write_internal_byte", "self.internal"), ("MemoryImage::read_internal_byte", "self.internal")):
        fn = rs.fn(MEM_RS, qual)
        for x in walk(fn.body):
            if x.get("k") == "index" and expr_text(x["e"]) in ("self.external", "self.internal"):
                n += 1
                if expr_text(x["e"]) != arr_ok:
                    ctx.violation("C11.2/storage-partition", key_of(fn.file, qual, expr_text(x)), f"{qual} touches {expr_text(x['e'])}", f"{fn.file}:{x['ln']}")
    ctx.instance("C11.2/storage-partition", "index intervals of internal vs external space per backing array (Python), array separation (Rust)", n, 10)


# ---------------------------------------------------------------------------
def sentinel(ctx: Ctx, rs: RustProgram) -> None:
    n = 0
    for qual in ("MemoryImage::load_internal_value", "MemoryImage::store_internal_value"):
        fn = rs.fn(MEM_RS, qual)
        g = cfgmod.build_rs(fn.node, qual)
        nones = []
        for x in walk(fn.body):
            if x.get("k") == "return" and x.get("e") is not None and expr_text(x["e"]) == "None":
                nones.append(("return None", x))
            if x.get("k") == "try":
                nones.append(("?", x))
        for kind, x in nones:
            n += 1
            if kind == "?":
                if not (x["e"].get("k") == "call" and expr_text(x["e"]["f"]) == "Self::internal_index" and len(x["e"]["args"]) == 1):
                    ctx.violation("C11.3/sentinel", key_of(fn.file, qual, f"{expr_text(x['e'])}?"), f"`{expr_text(x['e'])}?` can make {qual} report 'not internal'", f"{fn.file}:{x['ln']}")
                continue
            node = g.node_of(x)
            gs = [rs_guard_text(q) for q in g.guards_of(node)] if node is not None else []
            kinds = ["internal_index ok" if "internal_index" in q_ else "length test" if ".len()" in q_ else "other test" for q_ in gs]
            ctx.violation("C11.3/sentinel", key_of(fn.file, qual, "return None under " + "; ".join(kinds)),
                          f"{qual} returns the fall-through sentinel for an *internal* address (guards: {gs}): a multi-byte access at internal 0xFE/0xFF "
                          "falls through to the overlay/external path and touches external memory", f"{fn.file}:{x['ln']}", guards=gs)
    ctx.instance("C11.3/sentinel", "sources of the `None` (not-internal) result in load/store_internal_value", n, 4)


# ---------------------------------------------------------------------------
HOST_WRITERS = {
    "MemoryImage::write_external_byte": "loader/test API that installs ROM/RAM images; not on the CPU store path",
    "MemoryImage::write_external_slice": "bulk loader (ROM image)",
    "MemoryImage::copy_external_from": "snapshot restore",
    "MemoryImage::write_internal_ram": "snapshot restore",
    "MemoryImage::load_external": "image loader",
    "MemoryImage::new": "constructor",
}


def read_only(ctx: Ctx, py: PyProgram, rs: RustProgram) -> None:
    n = 0
    rel = rs.file_for(MEM_RS)
    for fn in rs.fns_in(MEM_RS):
        if fn.impl_ty != "MemoryImage" or fn.body is None:
            continue
        writes = []
        for a in walk(fn.body):
            if a.get("k") == "assign":
                l = a["l"]
                lt = expr_text(l)
                deref = l.get("k") == "unary" and l.get("op") == "*" and l["e"].get("k") == "path"
                if lt.startswith("self.external[") or (deref and any("self.external" in expr_text(def_root(dd)) for dd in rs_defs(fn.body).get(l["e"]["p"], []) if isinstance(def_root(dd), dict))):
                    writes.append(a)
            elif a.get("k") == "mcall" and a["m"] == "copy_from_slice" and "self.external" in expr_text(a["recv"]):
                writes.append(a)
        if not writes:
            continue
        if fn.qual in HOST_WRITERS:
            ctx.observe(f"{rel}::{fn.qual} writes external storage without the read-only test (allow-listed: {HOST_WRITERS[fn.qual]})")
            continue
        g = cfgmod.build_rs(fn.node, fn.qual)
        for a in writes:
            n += 1
            node = g.node_of(a)
            gs = g.guards_of(node) if node is not None else []
            ok = any(isinstance(x, dict) and not pol and "is_read_only_range(" in expr_text(x) for x, pol, _o in gs)
            if not ok:
                ctx.violation("C11.4/read-only", key_of(rel, fn.qual, expr_text(a)[:60]), f"{fn.qual} stores into external memory without a dominating `!is_read_only_range(..)`", f"{rel}:{a['ln']}", guards=[rs_guard_text(q) for q in gs])
    # overlay write: data store guarded by !read_only
    ow = rs.fn(MEM_RS, "MemoryOverlay::write")
    g = cfgmod.build_rs(ow.node, ow.qual)
    for a in walk(ow.body):
        if a.get("k") == "assign" and a["l"].get("k") == "index" and any("self.data" in l_ for l_ in rs_leaves(a["l"]["e"], rs_defs(ow.body)) | {expr_text(a["l"]["e"])}):
            n += 1
            gs = g.guards_of(g.node_of(a))
            if not any(isinstance(x, dict) and expr_text(x) == "self.read_only" and not pol for x, pol, _o in gs):
                ctx.violation("C11.4/read-only", key_of(rel, ow.qual, "data[offset] = value"), "overlay data is written without the read_only test", f"{rel}:{a['ln']}")
    # Python: default external store dominated by `write_result is None`; overlay data store by `not overlay.read_only`
    wb = py.func(MEM_PY, "PCE500Memory.write_byte")
    g = cfgmod.build_py(wb, "write_byte")
    # the local that holds the overlay bus verdict is identified by its definition (a call of self._bus.write), not by its name
    verdicts = {t.id for a in ast.walk(wb) if isinstance(a, ast.Assign) and py_is_call(a.value, "self._bus.write") for t in a.targets if isinstance(t, ast.Name)}

    def _unhandled(a: Any, pol: bool) -> bool:
        # established on this path: verdict is None  (`v is not None` false, or `v is None` true)
        if not (isinstance(a, ast.Compare) and len(a.ops) == 1 and isinstance(a.left, ast.Name) and a.left.id in verdicts and isinstance(a.comparators[0], ast.Constant) and a.comparators[0].value is None):
            return False
        return (isinstance(a.ops[0], ast.IsNot) and not pol) or (isinstance(a.ops[0], ast.Is) and pol)
    for st in ast.walk(wb):
        if isinstance(st, ast.Assign) and any(isinstance(t, ast.Subscript) and attr_chain(t.value) == "self.external_memory" and unparse(t.slice) == "address" for t in st.targets):
            n += 1
            gs = g.guards_of(g.node_of(st))
            ok = any(_unhandled(a, pol) for a, pol, _o in gs)
            if not ok:
                ctx.violation("C11.4/read-only", key_of(MEM_PY, "PCE500Memory.write_byte", "external_memory[address] = value"), "the default external store is reachable without consulting the overlay bus (read-only overlays would be bypassed)", f"{MEM_PY}:{st.lineno}", guards=[py_guard_text(q) for q in gs])
    n += 1
    if len(verdicts) != 1:
        ctx.violation("C11.4/read-only", key_of(MEM_PY, "PCE500Memory.write_byte", "write_result"), "write_result is not the overlay bus verdict", f"{MEM_PY}:{wb.lineno}")
    wo = py.func(BUS_PY, "MemoryBus._write_to_overlay")
    g = cfgmod.build_py(wo, "_write_to_overlay")
    for st in ast.walk(wo):
        if isinstance(st, ast.Assign) and any(isinstance(t, ast.Subscript) and attr_chain(t.value) == "overlay.data" for t in st.targets):
            n += 1
            gs = g.guards_of(g.node_of(st))
            if not any(isinstance(a, ast.AST) and unparse(a) == "overlay.read_only" and not pol for a, pol, _o in gs):
                ctx.violation("C11.4/read-only", key_of(BUS_PY, "MemoryBus._write_to_overlay", "overlay.data[offset] = value"), "overlay data is written without the read_only test", f"{BUS_PY}:{st.lineno}")
    # read-only overlays swallow writes: a `return True, None` under `overlay.read_only`
    n += 1
    sw = [r for r in ast.walk(wo) if isinstance(r, ast.Return) and unparse(r.value) == "(True, None)"]
    ok = False
    for r in sw:
        gs = g.guards_of(g.node_of(r))
        if any(isinstance(a, ast.AST) and unparse(a) == "overlay.read_only" and pol for a, pol, _o in gs):
            ok = True
    if not ok:
        ctx.violation("C11.4/read-only", key_of(BUS_PY, "MemoryBus._write_to_overlay", "swallow"), "writes to a read-only overlay are not swallowed (they fall through to the backing memory)", f"{BUS_PY}:{wo.lineno}")
    # ... on every path: the 'not handled, try the next layer' verdict may only be returned when the overlay is known not to be read-only
    for r in ast.walk(wo):
        if isinstance(r, ast.Return) and isinstance(r.value, ast.Tuple) and r.value.elts and unparse(r.value.elts[0]) == "False":
            n += 1
            gs = g.guards_of(g.node_of(r))
            if not any(isinstance(a, ast.AST) and unparse(a) == "overlay.read_only" and not pol for a, pol, _o in gs):
                ctx.violation("C11.4/read-only", key_of(BUS_PY, "MemoryBus._write_to_overlay", "unhandled verdict reachable for a read-only overlay"),
                              "a write into a read-only overlay can return 'not handled' (e.g. an address of the window that has no backing data): the store then lands in the base memory and is read back", f"{BUS_PY}:{r.lineno}", guards=[py_guard_text(q) for q in gs])
    ctx.instance("C11.4/read-only", "CPU-path stores dominated by the read-only test; overlay data stores by !read_only; read-only overlays swallow writes on every path", n, 8)


# ---------------------------------------------------------------------------
def little_endian(ctx: Ctx, py: PyProgram, rs: RustProgram) -> None:
    n = 0
    mod = py.module(MEM_PY)
    # fixed-width accessors
    for qual, calls, width in (("PCE500Memory.read_word", "read_byte", 2), ("PCE500Memory.read_long", "read_byte", 3),
                               ("PCE500Memory.write_word", "write_byte", 2), ("PCE500Memory.write_long", "write_byte", 3)):
        fn = py.func(MEM_PY, qual)
        cs = sorted([c for c in ast.walk(fn) if py_is_call(c, f"self.{calls}")], key=lambda c: c.lineno)
        n += 1
        offs = []
        for c in cs:
            a0 = c.args[0]
            if isinstance(a0, ast.Name):
                offs.append(0)
            elif isinstance(a0, ast.BinOp) and isinstance(a0.op, ast.Add) and isinstance(a0.right, ast.Constant):
                offs.append(a0.right.value)
            else:
                offs.append(None)
        ok = offs == list(range(width))
        if calls == "write_byte":
            shifts = []
            for c in cs:
                v = c.args[1]
                sh = None
                if isinstance(v, ast.BinOp) and isinstance(v.op, ast.BitAnd) and isinstance(v.right, ast.Constant) and v.right.value == 0xFF:
                    if isinstance(v.left, ast.Name):
                        sh = 0
                    elif isinstance(v.left, ast.BinOp) and isinstance(v.left.op, ast.RShift) and isinstance(v.left.left, ast.Name) and isinstance(v.left.right, ast.Constant):
                        sh = v.left.right.value
                shifts.append(sh)
            ok = ok and shifts == [8 * i for i in range(width)]
        else:
            d = py_defs(fn)
            ret = [r for r in ast.walk(fn) if isinstance(r, ast.Return)][0]
            names = [t.targets[0].id for t in fn.body if isinstance(t, ast.Assign) and isinstance(t.targets[0], ast.Name)]
            terms = {}

            def collect(e: ast.AST) -> bool:
                if isinstance(e, ast.BinOp) and isinstance(e.op, ast.BitOr):
                    return collect(e.left) and collect(e.right)
                if isinstance(e, ast.Name):
                    terms[e.id] = 0
                    return True
                if isinstance(e, ast.BinOp) and isinstance(e.op, ast.LShift) and isinstance(e.left, ast.Name) and isinstance(e.right, ast.Constant):
                    terms[e.left.id] = e.right.value
                    return True
                return False
            ok = ok and collect(ret.value) and terms == {nm: 8 * i for i, nm in enumerate(names)}
        if not ok:
            ctx.violation("C11.5/little-endian", key_of(MEM_PY, qual, "composition"), f"{qual} is not the little-endian composition of {width} byte accesses", f"{MEM_PY}:{fn.lineno}")
    for qual, calls in (("PCE500Memory.read_bytes", "read_byte"), ("PCE500Memory.write_bytes", "write_byte")):
        fn = py.func(MEM_PY, qual)
        loops = [l for l in ast.walk(fn) if isinstance(l, ast.For)]
        n += 1
        ok = len(loops) == 1 and unparse(loops[0].iter) == "range(size)"
        if ok:
            i = loops[0].target.id
            body = unparse(loops[0]).replace(" ", "")
            ok = f"self.{calls}(address+{i}" in body and (f"<<{i}*8" in body or f">>{i}*8" in body)
        if not ok:
            ctx.violation("C11.5/little-endian", key_of(MEM_PY, qual, "composition"), f"{qual} is not `for i in range(size)`: byte at address+i <-> bits 8*i", f"{MEM_PY}:{fn.lineno}")
    # other direct storage touches in PCE500Memory multi-byte paths: none allowed
    for qual in ("PCE500Memory.read_word", "PCE500Memory.read_long", "PCE500Memory.write_word", "PCE500Memory.write_long", "PCE500Memory.read_bytes", "PCE500Memory.write_bytes"):
        fn = py.func(MEM_PY, qual)
        n += 1
        if any(isinstance(x, ast.Attribute) and x.attr == "external_memory" for x in ast.walk(fn)):
            ctx.violation("C11.5/little-endian", key_of(MEM_PY, qual, "direct storage"), f"{qual} touches the backing array directly instead of the byte accessors", f"{MEM_PY}:{fn.lineno}")
    # Rust loops
    rel = rs.file_for(MEM_RS)
    for qual in ("MemoryImage::load_with_pc", "MemoryImage::store_with_pc", "MemoryImage::load_internal_value", "MemoryImage::store_internal_value",
                 "MemoryImage::load_overlay_value", "MemoryImage::store_overlay_value"):
        fn = rs.fn(MEM_RS, qual)
        # the byte loop: `for i in 0..<byte count>` whose body shifts by i*8 (the count is whatever local/parameter holds the width)
        def _is_byte_loop(l: dict) -> bool:
            if not (l.get("k") == "for" and l["iter"].get("k") == "range" and l["iter"].get("lo") is not None and expr_text(l["iter"]["lo"]) == "0" and l["pat"].get("k") == "p_ident"):
                return False
            v = l["pat"]["name"]
            return any(b.get("k") == "binary" and b["op"] in ("<<", ">>") and expr_text(b["r"]).replace("(", "").replace(")", "").replace(" ", "") in (f"{v}*8", f"8*{v}") for b in walk(l["body"]))
        loops = [l for l in walk(fn.body) if _is_byte_loop(l)]
        n += 1
        if len(loops) != 1:
            ctx.violation("C11.5/little-endian", key_of(rel, qual, "byte loop"), f"{qual} has no single `for i in 0..bytes` loop", fn.where)
            continue
        i = loops[0]["pat"]["name"]
        body = loops[0]["body"]
        shifts = [b for b in walk(body) if b.get("k") == "binary" and b["op"] in ("<<", ">>")]
        ok_shift = any(expr_text(b["r"]).replace("(", "").replace(")", "") in (f"{i}*8", f"8*{i}") for b in shifts)
        fdefs = rs_defs(fn.body)
        idx_ok = any((x.get("k") == "index" and i in rs_names_reaching(x["i"], fdefs)) or (x.get("k") == "call" and "canonical_address" in expr_text(x) and i in expr_text(x)) or
                     (x.get("k") == "mcall" and x["m"] == "wrapping_add" and i in expr_text(x)) for x in walk(body))
        if not (ok_shift and idx_ok):
            ctx.violation("C11.5/little-endian", key_of(rel, qual, "byte loop body"), f"{qual}: byte at base+{i} is not paired with bits 8*{i}", fn.where)
        bts = [dd for dd in rs_defs(fn.body).get("bytes", []) if isinstance(dd, dict)]
        if bts:
            ctx.sample({"fn": qual, "bytes": expr_text(bts[0])})
    ctx.instance("C11.5/little-endian", "multi-byte accessors are little-endian byte compositions (Python 6 accessors + direct-storage ban, Rust 6 loops)", n, 18)


def readonly_interval(ctx: Ctx, rs: RustProgram) -> None:
    """The Rust read-only test is an interval-overlap predicate on inclusive ranges: MemoryImage::is_read_only_range is run by the
    interpreter for every (start, len) of a small grid around one range and compared with `[start, start+len-1]` meets `[lo, hi]`.
    An off-by-one at either end lets a store land on the first or last byte of the ROM."""
    from ..rsfacts import _RsReturn

    class _It(RsInterp):
        def call_hook(self, path: str, args: list, env: dict, e: dict) -> Any:
            if path.split("::")[-1] == "canonical_address":
                return args[0] & 0xFFFFFF
            return NotImplemented
    it = _It(rs, MEM_RS)
    fn = rs.fn(MEM_RS, "MemoryImage::is_read_only_range")
    ps = [p for p in fn.params() if p != "self"]
    ctx.need(len(ps) == 2, f"is_read_only_range: unexpected parameters {ps}")
    lo, hi = 0x40, 0x4F
    n = 0
    bad = []
    for start in range(lo - 6, hi + 7):
        for ln in range(0, 5):
            n += 1
            env = {"self": {"readonly_ranges": [(lo, hi)]}, ps[0]: start, ps[1]: ln}
            try:
                try:
                    got = it.block(fn.body, env)
                except _RsReturn as r:
                    got = r.v
            except Exception as e:  # noqa: BLE001
                raise AnalysisError(f"is_read_only_range left the evaluable fragment: {type(e).__name__}: {e}")
            want = ln > 0 and start <= hi and start + ln - 1 >= lo
            if bool(got) != want:
                bad.append((start, ln, bool(got), want))
    if bad:
        s0, l0, g0, w0 = bad[0]
        ctx.violation("C11.4/read-only", key_of(fn.file, fn.qual, "interval overlap"),
                      f"is_read_only_range is not the overlap of [start, start+len-1] with the inclusive range: for the range {lo:#x}..{hi:#x}, start={s0:#x} len={l0} gives {g0}, should be {w0} ({len(bad)} of {n} grid points differ) - a store on an end byte of a read-only range is not blocked", fn.where)
    ctx.instance("C11.4/readonly-interval", "is_read_only_range on a (start, len) grid around one inclusive range == interval overlap", n, 100)


def lookup_purity_and_handlers(ctx: Ctx, py: PyProgram) -> None:
    """(a) a load is a function of the address and the memory contents: the lookup functions do not read an attribute of their own object
    that they also assign (state carried from one access to the next); (b) the read and the write handler of one window index the same
    backing store with the same expression under the same bounds, so a store is read back at - and only at - the address it went to."""
    n = 0
    for rel, q in ((BUS_PY, "MemoryBus.read"), (BUS_PY, "MemoryBus.write"), (MEM_PY, "PCE500Memory.read_byte")):
        fn = py.func(rel, q)
        g = cfgmod.build_py(fn, q)
        assigned = {}
        for a in ast.walk(fn):
            if isinstance(a, (ast.Assign, ast.AugAssign, ast.AnnAssign)):
                ts = a.targets if isinstance(a, ast.Assign) else [a.target]
                for t in ts:
                    if isinstance(t, ast.Attribute) and isinstance(t.value, ast.Name) and t.value.id == "self":
                        assigned.setdefault(t.attr, []).append(a)
        for x in ast.walk(fn):
            if isinstance(x, ast.Attribute) and isinstance(x.ctx, ast.Load) and isinstance(x.value, ast.Name) and x.value.id == "self" and x.attr in assigned:
                n += 1
                node = g.node_of(x)
                doms = [g.node_of(a) for a in assigned[x.attr]]
                if node is None or not any(d is not None and d != node and g.dominates(d, node) for d in doms):
                    ctx.violation("C11.6/lookup-state", key_of(rel, q, f"self.{x.attr} carried between accesses"),
                                  f"{q} reads self.{x.attr} which it also assigns, without assigning it first in the same call: the result of an access depends on the accesses before it", f"{rel}:{x.lineno}")
        n += 1
    # (b) handler pairs defined as closures next to each other
    init = py.func(MEM_PY, "PCE500Memory.__init__")
    closures = {f.name: f for f in ast.walk(init) if isinstance(f, ast.FunctionDef) and f is not init}
    pairs = 0
    for c in ast.walk(init):
        if isinstance(c, ast.Call) and unparse(c.func).endswith("MemoryOverlay"):
            kw = {k.arg: k.value for k in c.keywords}
            r, w = kw.get("read_handler"), kw.get("write_handler")
            if isinstance(r, ast.Name) and isinstance(w, ast.Name) and r.id in closures and w.id in closures:
                pairs += 1
                rf, wf = closures[r.id], closures[w.id]

                def accesses(f: ast.FunctionDef) -> set[tuple]:
                    gg = cfgmod.build_py(f, f.name)
                    d = py_defs(f)
                    out = set()
                    for sub in ast.walk(f):
                        if isinstance(sub, ast.Subscript) and (attr_chain(sub.value) or "").startswith("self._"):
                            idx = sub.slice
                            txt = unparse(idx)
                            if isinstance(idx, ast.Name) and len([v for v in d.get(idx.id, []) if isinstance(v, ast.AST)]) == 1:
                                txt = unparse([v for v in d[idx.id] if isinstance(v, ast.AST)][0])
                            node = gg.node_of(sub)
                            guards = tuple(sorted(py_guard_text(q_) for q_ in gg.guards_of(node) if "offset" in py_guard_text(q_) or "address" in py_guard_text(q_))) if node is not None else ()
                            out.add((attr_chain(sub.value), " ".join(txt.split()), guards))
                    return out
                ra, wa = accesses(rf), accesses(wf)
                n += 1
                if ra != wa:
                    ctx.violation("C11.6/handler-pair", key_of(MEM_PY, "PCE500Memory.__init__", f"{r.id} / {w.id} index differently"),
                                  f"the read handler {r.id} uses {sorted(ra)} and the write handler {w.id} uses {sorted(wa)}: a store is not read back at the address it went to, or shows up at other addresses", f"{MEM_PY}:{rf.lineno}")
    if pairs < 1:
        raise AnalysisError("PCE500Memory.__init__: no overlay with a read/write closure pair found (memory card window expected)")
    ctx.instance("C11.6/lookup-purity", "lookup functions carry no state between accesses; read/write handler pairs index their store identically", n, 4)


def overlay_extent_and_precedence(ctx: Ctx, py: PyProgram, rs: RustProgram) -> None:
    """(a) A data overlay answers exactly the bytes it holds: wherever Python builds MemoryOverlay(start=S, end=E, data=bytearray(X))
    with S, E and the length of X related symbolically, E - S + 1 == len (an end that is one too far makes the byte after a ROM image
    read-only; one too short exposes the last byte to the base memory).  (b) Layers are consulted in the same order for stores as for
    loads: in the Rust store path the overlay dispatch comes before the base map's read-only test, so a writable overlay placed
    inside a read-only range keeps its stores (loads already come from the overlay)."""
    from .. import linform
    mod = py.module(MEM_PY)
    n = 0
    for fn in [f for f in ast.walk(mod.tree) if isinstance(f, ast.FunctionDef)]:
        defs = {a.targets[0].id: a.value for a in ast.walk(fn) if isinstance(a, ast.Assign) and len(a.targets) == 1 and isinstance(a.targets[0], ast.Name)}
        ann = {a.arg: unparse(a.annotation) for a in fn.args.args if a.annotation is not None}
        for c in ast.walk(fn):
            if not (isinstance(c, ast.Call) and unparse(c.func).endswith("MemoryOverlay")):
                continue
            kw = {k.arg: k.value for k in c.keywords}
            if not {"start", "end", "data"} <= set(kw):
                continue
            d = kw["data"]
            hops = 0
            while isinstance(d, ast.Name) and d.id in defs and hops < 3:
                d = defs[d.id]
                hops += 1
            if not (isinstance(d, ast.Call) and unparse(d.func) == "bytearray" and len(d.args) == 1):
                continue
            x = d.args[0]
            xs = x
            while isinstance(xs, ast.Name) and xs.id in defs:
                xs = defs[xs.id]
            is_int = isinstance(xs, ast.Name) and ann.get(xs.id) == "int"
            length = xs if is_int else ast.Call(func=ast.Name(id="len", ctx=ast.Load()), args=[xs], keywords=[])
            # len(<copy of the data>) is the length of the data
            class _Len(ast.NodeTransformer):
                def visit_Call(self, node: ast.Call) -> Any:
                    self.generic_visit(node)
                    if isinstance(node.func, ast.Name) and node.func.id == "len" and len(node.args) == 1 and isinstance(node.args[0], ast.Name):
                        v = defs.get(node.args[0].id)
                        if isinstance(v, ast.Call) and unparse(v.func) in ("bytearray", "bytes") and len(v.args) == 1 and not (isinstance(v.args[0], ast.Name) and ann.get(v.args[0].id) == "int"):
                            return ast.Call(func=node.func, args=[v.args[0]], keywords=[])
                    return node
            import copy
            defs = {k_: _Len().visit(copy.deepcopy(v_)) for k_, v_ in defs.items()}
            try:
                ends = linform.alternatives(_Len().visit(copy.deepcopy(kw["end"])), defs)
                starts = linform.alternatives(kw["start"], defs)
                lens = linform.alternatives(length, defs)
            except linform.NotLinear as e:
                raise AnalysisError(f"{fn.name}: overlay bounds outside the linear fragment: {e}")
            if len(starts) != 1 or len(lens) != 1:
                continue
            s0, l0 = next(iter(starts)), next(iter(lens))
            want = linform._add(linform._add(s0, l0), (1, frozenset()), -1)       # S + len - 1
            # only when the bounds are expressed through the data length at all (a fixed window filled by a caller-sized image is not)
            if not any(dict(e_[1]).keys() & dict(l0[1]).keys() for e_ in ends):
                continue
            n += 1
            bad = [e_ for e_ in ends if set(dict(e_[1])) >= set(dict(want[1])) and e_ != want]
            if bad:
                ctx.violation("C11.6/overlay-extent", key_of(MEM_PY, f"PCE500Memory.{fn.name}", "overlay end != start + len(data) - 1"),
                              f"{fn.name} builds an overlay with end = {linform.show(bad[0])} over data of length {linform.show(l0)} starting at {linform.show(s0)}: the inclusive end should be {linform.show(want)}; "
                              "the window is longer than its image, so the byte behind a read-only image silently drops stores (or, if shorter, the last byte falls through to the base memory)", f"{MEM_PY}:{c.lineno}")
    # (a2) who may change a window's write protection: the card's writable flag is set where a card is loaded (from the caller's
    # argument) and in the constructor - presence toggles, resets and accesses leave it alone
    WRITABLE_OWNERS = {"__init__": "power-on default", "load_memory_card": "the caller states whether the card is write-protected"}
    pm = py.need_cls(mod, "PCE500Memory")
    k_w = 0
    for mname, m in pm.methods.items():
        for a in ast.walk(m):
            if isinstance(a, (ast.Assign, ast.AnnAssign, ast.AugAssign)):
                for t in (a.targets if isinstance(a, ast.Assign) else [a.target]):
                    if isinstance(t, ast.Attribute) and attr_chain(t.value) == "self" and "writable" in t.attr:
                        k_w += 1
                        if mname not in WRITABLE_OWNERS:
                            ctx.violation("C11.4/write-protect-owner", key_of(MEM_PY, f"PCE500Memory.{mname}", f"self.{t.attr} changed outside the loader"),
                                          f"PCE500Memory.{mname} assigns `{unparse(a)[:60]}`: the write-protect state given when the card was loaded is changed by something else, so stores into a "
                                          "read-only window start to stick (a write to a read-only window changes what is read)", f"{MEM_PY}:{a.lineno}")
    ctx.need(k_w >= 2, f"PCE500Memory: stores to the card write-protect flag not found ({k_w})")
    ctx.instance("C11.4/write-protect-owner", "stores to the memory card's writable flag, each in the constructor or the loader", k_w, 2)
    ctx.instance("C11.6/overlay-extent", "data overlays built from a start and a data length: inclusive end == start + len - 1", n, 2)
    # (b)
    rel = rs.file_for(MEM_RS)
    m = 0
    for fn in rs.fns_in(MEM_RS):
        if fn.impl_ty != "MemoryImage" or fn.body is None:
            continue
        ov = [c for c in walk(fn.body) if c.get("k") == "mcall" and expr_text(c["recv"]) == "self" and "overlay" in c["m"] and c["m"].startswith("store")]
        ro = [c for c in walk(fn.body) if c.get("k") == "mcall" and expr_text(c["recv"]) == "self" and c["m"] == "is_read_only_range"]
        if not ov or not ro:
            continue
        g = cfgmod.build_rs(fn.node, fn.qual)
        for r_ in ro:
            m += 1
            rn = g.node_of(r_)
            if rn is None or not any(g.node_of(o) is not None and g.dominates(g.node_of(o), rn) for o in ov):
                ctx.violation("C11.4/overlay-before-readonly", key_of(rel, fn.qual, "read-only test before the overlay dispatch"),
                              f"{fn.qual} tests is_read_only_range before it offers the store to the overlays: a writable overlay mapped inside a read-only range loses every store while loads still come from the overlay", f"{rel}:{r_['ln']}")
    ctx.instance("C11.4/overlay-before-readonly", "Rust store paths that consult both overlays and the read-only map: overlay dispatch dominates the read-only test", m, 1)
    # (c) loads and stores look an address up in the overlays in the same form: if one path hands the overlay dispatch the address
    # after the RAM-mirror reduction and the other before it, an overlay inside the mirrored window receives stores it never answers
    forms: dict[str, tuple] = {}
    for fn in rs.fns_in(MEM_RS):
        if fn.impl_ty != "MemoryImage" or fn.body is None:
            continue
        for c in walk(fn.body):
            if c.get("k") == "mcall" and expr_text(c["recv"]) == "self" and c["m"] in ("load_overlay_value", "store_overlay_value") and c["args"]:
                a0 = c["args"][0]
                reduced = []
                if a0.get("k") == "path":
                    for l_ in walk(fn.body):
                        if l_.get("k") == "let" and l_.get("pat", {}).get("k") == "p_ident" and l_["pat"]["name"] == a0["p"] and l_.get("ln", 0) < c.get("ln", 0) and l_.get("init") is not None:
                            reduced += [x["m"] for x in walk(l_["init"]) if x.get("k") == "mcall" and expr_text(x["recv"]) == "self"]
                else:
                    reduced = [x["m"] for x in walk(a0) if x.get("k") == "mcall" and expr_text(x["recv"]) == "self"]
                forms[c["m"]] = (tuple(sorted(set(reduced))), fn.qual, c["ln"])
    ctx.need({"load_overlay_value", "store_overlay_value"} <= set(forms), "Rust overlay dispatch calls not found")
    if forms["load_overlay_value"][0] != forms["store_overlay_value"][0]:
        lo, st_ = forms["load_overlay_value"], forms["store_overlay_value"]
        ctx.violation("C11.1/overlay-address-form", key_of(rel, "MemoryImage load/store", "overlay lookup address reduced differently"),
                      f"{lo[1]} looks the overlays up with the address after {list(lo[0]) or 'no reduction'}, {st_[1]} after {list(st_[0]) or 'no reduction'}: an overlay in the window where the two forms differ "
                      "receives stores but is never read (the byte written is not the byte next read)", f"{rel}:{lo[2]}")
    ctx.instance("C11.1/overlay-address-form", "Rust load and store paths hand the overlay dispatch the address in the same form", 2, 2)


def lookup_visits_all(ctx: Ctx, py: PyProgram) -> None:
    """The overlay lookup of MemoryBus.read / write considers *every* registered overlay: the loop that tests `overlay.contains(address)`
    runs over the list add_overlay() appends to (possibly through an order-preserving wrapper), not over a subset picked by position
    (a slice, a bisect window, an index) - overlays may nest and overlap, so no window computed from start addresses alone is complete."""
    mod = py.module(BUS_PY)
    cls = next((c for c in ast.walk(mod.tree) if isinstance(c, ast.ClassDef) and c.name == "MemoryBus"), None)
    if cls is None:
        raise AnalysisError("MemoryBus class vanished")
    meths = {m.name: m for m in cls.body if isinstance(m, ast.FunctionDef)}
    add = meths.get("add_overlay")
    if add is None:
        raise AnalysisError("MemoryBus.add_overlay vanished")
    storage = {unparse(c.func.value) for c in ast.walk(add) if isinstance(c, ast.Call) and isinstance(c.func, ast.Attribute) and c.func.attr in ("append", "insert", "add")}
    if not storage:
        raise AnalysisError("MemoryBus.add_overlay: overlay storage not found")
    WRAP = {"tuple", "list", "reversed", "sorted", "iter"}
    cur_defs: dict = {}

    def whole(e: ast.AST, depth: int = 0) -> str | None:
        """None if `e` denotes the whole storage, else what makes it a subset"""
        if unparse(e) in storage:
            return None
        if isinstance(e, ast.Call) and isinstance(e.func, ast.Name) and e.func.id in WRAP and e.args:
            return whole(e.args[0], depth)
        if isinstance(e, ast.Call) and isinstance(e.func, ast.Attribute) and isinstance(e.func.value, ast.Name) and e.func.value.id == "self" and e.func.attr in meths and depth < 3:
            h = meths[e.func.attr]
            rets = [r.value for r in ast.walk(h) if isinstance(r, ast.Return) and r.value is not None]
            for r in rets:
                w = whole(r, depth + 1)
                if w:
                    return f"{h.name}() returns `{unparse(r)[:60]}` ({w})"
            return None if rets else f"{h.name}() returns nothing"
        if isinstance(e, (ast.Tuple, ast.List)) and any(isinstance(x, ast.Starred) and whole(x.value, depth) is None for x in e.elts):
            return None                                # (first, *all): every overlay is still visited (the order is another rule's business)
        if isinstance(e, ast.Name) and cur_defs.get(e.id) and depth < 4:
            for v in cur_defs[e.id]:
                if not isinstance(v, ast.AST):
                    raise AnalysisError(f"MemoryBus lookup iterates `{e.id}`, bound by unpacking: cannot tell whether that is every registered overlay")
                w = whole(v, depth + 1)
                if w:
                    return w
            return None
        if isinstance(e, ast.Subscript):
            if isinstance(e.slice, ast.Slice) and e.slice.lower is None and e.slice.upper is None and e.slice.step is None:
                return whole(e.value, depth)          # xs[:] is a copy of the whole list
            return "a slice/index of the overlay list"
        raise AnalysisError(f"MemoryBus lookup iterates `{unparse(e)[:60]}`: cannot tell whether that is every registered overlay")
    n = 0
    for q in ("read", "write"):
        fn = meths.get(q)
        if fn is None:
            raise AnalysisError(f"MemoryBus.{q} vanished")
        loops = [l for l in ast.walk(fn) if isinstance(l, ast.For) and any(isinstance(c, ast.Call) and isinstance(c.func, ast.Attribute) and c.func.attr == "contains" for c in ast.walk(l))]
        if not loops:
            raise AnalysisError(f"MemoryBus.{q}: overlay lookup loop not found")
        cur_defs.clear()
        cur_defs.update(py_defs(fn))
        for l in loops:
            n += 1
            w = whole(l.iter)
            if w:
                ctx.violation("C11.1/lookup-visits-all", key_of(BUS_PY, f"MemoryBus.{q}", "lookup over a subset of the overlays"),
                              f"MemoryBus.{q} looks the address up in a subset of the registered overlays: {w}. With nested or overlapping overlays an address inside a registered window falls through to the base map (ROM contents vanish, stores to a read-only window are kept)", f"{BUS_PY}:{l.lineno}")
    ctx.instance("C11.1/lookup-visits-all", "overlay lookup loops of MemoryBus.read/write iterate the whole overlay list", n, 2)
