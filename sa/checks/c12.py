"""C12 - interrupts are taken only when enabled and pending, and are undone by RETI.

Decides (structure on every path, not interleavings):
  1 GUARD-DOM   every delivery effect is dominated by pending and master-enable(IMR bit 7) and source selected
  2 REACH-DEF   the master-enable gate variable is defined only from IMR & IRM
  3 SEQ-PAIR    the five-byte frame (PC3,F1,IMR1) is pushed in the same order everywhere and popped in reverse by RETI;
                IMR is written back with bit 7 cleared; same vector constant
  4 GUARD-DOM   low power: the instruction executor is not reached while halted; OFF returns unless ONK
  5 VALUE       the saved IMR is the IMR as read; interrupt context is left only on RETI; every timer ISR latch arms the dispatcher
"""
from __future__ import annotations

import ast
from typing import Any

from .. import cfg as cfgmod
from .. import isa
from ..core import REPO, AnalysisError, Ctx
from ..pyfacts import PyEval, PyProgram, attr_chain, unparse
from ..rsfacts import RustProgram, expr_text, pat_text, walk
from ..rules import (def_root, key_of, py_bit_test, py_defs, py_guard_text, py_is_call, py_leaves, rs_bit_test, rs_defs,
                     rs_guard_text, rs_is_call, rs_is_mcall, rs_leaves)

LEVEL = "other"
EXPLANATION = (
    "GUARD-DOM / REACH-DEF / SEQ-PAIR over the control-flow graphs of CoreRuntime::deliver_pending_irq, CoreRuntime::step "
    "(incl. its catch_unwind closure), the Ir/RetI arms of execute_with, PCE500Emulator.step, IR.lift and RETI.lift: every "
    "delivery effect (stack pushes, IMR write-back, vector jump, in-interrupt flag) must be dominated by the pending flag, a "
    "master-enable test whose every reaching definition is `IMR & bit7`, and a per-source `ISR & X /\\ IMR & X` selection; "
    "the pushed frame layout and its reverse pop order are compared across the five sites. Decides the gate and frame "
    "structure on every path; does NOT decide promptness/not-lost/interleavings."
)
TRUSTED = ["syn / CPython parsers", "statement CFG + dominator construction in sa/cfg.py",
           "Python try-bodies: exceptional edges are ignored for the HALT must-pass-through rule (statements in the HALT block are assumed not to raise)"]
CLAIM = ("Decides on every control-flow path that interrupt delivery effects are guarded by pending + master enable + source mask/status, "
         "that the gate variable is defined only from IMR bit 7, that the 5-byte frame and RETI's pops mirror each other in both cores, "
         "and that a halted/off CPU cannot reach the instruction executor. Schedule-quantified clauses (promptness, not-lost, interleavings) are declined.")
NOTE = "Structural necessary conditions only; values of IMR/ISR at run time and event interleavings are out of reach of this technique."
TECHNIQUE = "dominator-based guard analysis + reaching-definition check + ordered call-sequence comparison on Python/Rust CFGs"

EMU = "pce500/emulator.py"


def run(ctx: Ctx) -> None:
    py = PyProgram()
    rs = RustProgram()
    for f in (EMU, isa.INSTR_PY, isa.OPCODES_PY, isa.CONST_PY):
        ctx.file_used(REPO / f)
    for s in (isa.LIB_RS, isa.EVAL_RS, "core/src/timer.rs"):
        ctx.file_used(REPO / rs.file_for(s))
    rust_gate(ctx, rs)
    python_gate(ctx, py)
    python_frame_values(ctx, py)
    frames(ctx, py, rs)
    low_power(ctx, py, rs)
    pending_not_lost(ctx, py, rs)
    reti_source_stable(ctx, rs)
    reti_clears_delivered(ctx, rs)
    vector_read_at_delivery(ctx, py, rs)
    python_entry_atomic(ctx, py)


# ---------------------------------------------------------------------------
def _imem_tag(leaves: set[str]) -> set[str]:
    tags = set()
    for l in leaves:
        if "IMR" in l and ("OFFSET" in l or "IMEMRegisters" in l):
            tags.add("IMR")
        if "ISR" in l and ("OFFSET" in l or "IMEMRegisters" in l):
            tags.add("ISR")
    return tags


def rust_gate(ctx: Ctx, rs: RustProgram) -> None:
    fn = rs.fn(isa.LIB_RS, "CoreRuntime::deliver_pending_irq")
    rel = fn.file
    g = cfgmod.build_rs(fn.node, fn.qual)
    ctx.functions_analysed += 1
    ctx.cfg_nodes += len(g.nodes)
    defs = rs_defs(fn.body)
    ev = rs.evaluator(isa.LIB_RS)
    master = rs.eval_const(isa.LIB_RS, "IMR_MASTER")

    def ceval(e: dict) -> Any:
        return ev.eval(e)

    sites = []
    for n in walk(fn.body):
        if rs_is_mcall(n, "push_stack", "self"):
            sites.append(("push", n))
        elif rs_is_mcall(n, "set_pc", "self.state"):
            sites.append(("set_pc", n))
        elif n.get("k") == "assign" and expr_text(n["l"]) == "self.timer.in_interrupt" and expr_text(n["r"]) == "true":
            sites.append(("in_interrupt", n))
        elif rs_is_mcall(n, "store", "self.memory") and "IMR" in "".join(rs_leaves(n["args"][0], defs)):
            sites.append(("imr_writeback", n))
    ctx.instance("C12.1/rust-gate-sites", "delivery effect sites in deliver_pending_irq (3 pushes, IMR write-back, set_pc, in_interrupt)", len(sites), 6)

    # the source-selection let-else
    sel_ok = 0
    for kind, site in sites:
        node = g.node_of(site)
        ctx.need(node is not None, f"deliver_pending_irq: site {kind}@{site['ln']} has no CFG node")
        guards = g.guards_of(node)
        texts = [rs_guard_text(x) for x in guards]
        where = f"{rel}:{site['ln']}"
        skey = key_of(rel, fn.qual, f"{kind}:{expr_text(site)[:80]}")
        # G1 pending
        if not any(isinstance(a, dict) and expr_text(a) == "self.timer.irq_pending" and pol for a, pol, _o in guards):
            ctx.violation("C12.1/gate-pending", skey, f"{kind} is not dominated by `self.timer.irq_pending`", where, guards=texts)
        # G2 master enable
        ok_master = False
        for a, pol, _o in guards:
            cands = [a]
            if isinstance(a, dict) and a.get("k") == "path" and a["p"] in defs:
                dl = defs[a["p"]]
                if any(not isinstance(d, dict) for d in dl):
                    continue
                cands = dl
                results = [rs_bit_test(d, pol, ceval) for d in cands]
            else:
                results = [rs_bit_test(a, pol, ceval)]
            if results and all(r is not None and r[1] == master and "IMR" in _imem_tag(rs_leaves(r[0], defs)) for r in results):
                ok_master = True
                if isinstance(a, dict) and a.get("k") == "path" and len(cands) > 0:
                    ctx.sample({"site": f"{kind}@{where}", "master_gate": expr_text(a), "defs": [expr_text(d) for d in cands]})
        if not ok_master:
            ctx.violation("C12.1/gate-master", skey, f"{kind} is not dominated by a master-enable test `IMR & 0x{master:02X} != 0` whose every definition comes from IMR", where, guards=texts)
        # G3 source selected: a let-else / if-let on a value whose definition is the selection chain
        sel = [a for a, pol, o in guards if isinstance(a, tuple) and a[0] == "let-else" and pol]
        if not sel:
            ctx.violation("C12.1/gate-source", skey, f"{kind} is not dominated by the per-source selection (`let Some((mask, name)) = src else return`)", where, guards=texts)
        else:
            sel_ok += 1
    # the selection chain itself
    # the selected source: the local that the `let Some((mask, name)) = <it> else { return }` gate destructures
    sel_names = [expr_text(st["init"]) for st in walk(fn.body) if st.get("k") == "let" and st.get("else") is not None and isinstance(st.get("init"), dict) and st["init"].get("k") == "path"]
    ctx.need(len(sel_names) == 1, f"deliver_pending_irq: the let-else that destructures the selected source was not found ({sel_names})")
    sel_name = sel_names[0]
    chain_pairs = rust_selection_chain(ctx, rs, fn, defs, ceval, sel_name)
    ctx.instance("C12.1/rust-source-chain", "per-source selection: Some((X,name)) only under (isr & X != 0) && (imr & X' != 0), X == X'", len(chain_pairs), 4)
    # mask recorded for RETI is the selected mask
    pushed = [n for n in walk(fn.body) if rs_is_mcall(n, "push", "self.timer.delivered_masks")]
    ctx.need(len(pushed) == 1, "deliver_pending_irq: delivered_masks.push site not found")
    arg = pushed[0]["args"][0]
    roots = [def_root(d) for d in defs.get(arg["p"], [])] if arg.get("k") == "path" else []
    if not (roots and all(isinstance(r, dict) and expr_text(r) == sel_name for r in roots)):
        ctx.violation("C12.1/mask-recorded", key_of(rel, fn.qual, "delivered_masks.push"), "mask recorded for RETI is not the selected source mask", f"{rel}:{pushed[0]['ln']}")
    ctx.instance("C12.1/mask-recorded", "delivered_masks.push(mask) uses the mask bound by the selection", 1, 1)


def rust_selection_chain(ctx: Ctx, rs: RustProgram, fn, defs, ceval, sel_name: str = "src") -> list:
    """let src = if (isr & X != 0) && (imr & Y != 0) { Some((X, name)) } else if ... else { None }"""
    rel = fn.file
    src_defs = [d for d in defs.get(sel_name, []) if isinstance(d, dict) and d.get("k") == "if"]
    ctx.need(len(src_defs) == 1, "deliver_pending_irq: `let src = if ...` selection chain not found")
    pairs = []
    e = src_defs[0]
    while isinstance(e, dict) and e.get("k") == "if":
        atoms = cfgmod.decompose("rs", e["cond"], True)
        tests = [rs_bit_test(a, p, ceval) for a, p in atoms]
        tagged = []
        for t in tests:
            if t is None:
                continue
            tagged.append((_imem_tag(rs_leaves(t[0], defs)), t[1]))
        then = e["then"]["stmts"]
        val = then[-1]["e"] if then and then[-1]["k"] == "expr_stmt" else None
        where = f"{rel}:{e['ln']}"
        if val is None or not (val.get("k") == "call" and expr_text(val["f"]) == "Some"):
            raise AnalysisError(f"selection chain branch at {where} has unsupported shape")
        tup = val["args"][0]
        mask_v = ceval(tup["elems"][0])
        name = ceval(tup["elems"][1])
        isr_masks = [m for tags, m in tagged if tags == {"ISR"}]
        imr_masks = [m for tags, m in tagged if tags == {"IMR"}]
        key = key_of(rel, fn.qual, f"src-chain:{name}")
        if isr_masks != [mask_v]:
            ctx.violation("C12.1/source-pair", key, f"source {name}: selected mask {mask_v:#x} but the status test checks ISR masks {isr_masks}", where)
        if imr_masks != [mask_v]:
            ctx.violation("C12.1/source-pair", key, f"source {name}: selected mask {mask_v:#x} but the mask-register test checks IMR masks {imr_masks}", where)
        pairs.append((name, mask_v))
        ctx.sample({"source": name, "isr_mask": isr_masks, "imr_mask": imr_masks, "recorded_mask": mask_v})
        e = e.get("else")
        if isinstance(e, dict) and e.get("k") == "block" and len(e["stmts"]) == 1 and e["stmts"][0].get("k") == "expr_stmt" and e["stmts"][0]["e"].get("k") == "if":
            e = e["stmts"][0]["e"]
    # masks must agree with the ISR constants by name
    want = {"KEY": rs.eval_const(isa.LIB_RS, "ISR_KEYI"), "ONK": rs.eval_const(isa.LIB_RS, "ISR_ONKI"),
            "MTI": rs.eval_const(isa.LIB_RS, "ISR_MTI"), "STI": rs.eval_const(isa.LIB_RS, "ISR_STI")}
    for name, m in pairs:
        if want.get(name) != m:
            ctx.violation("C12.1/source-pair", key_of(rel, fn.qual, f"src-chain:{name}:const"), f"source {name} selects mask {m:#x}, ISR constant is {want.get(name)}", rel)
    return pairs


# ---------------------------------------------------------------------------
def python_gate(ctx: Ctx, py: PyProgram) -> None:
    mod = py.module(EMU)
    fn = py.func(EMU, "PCE500Emulator.step")
    g = cfgmod.build_py(fn, "PCE500Emulator.step")
    ctx.functions_analysed += 1
    ctx.cfg_nodes += len(g.nodes)
    defs = py_defs(fn)
    ev = PyEval(py, mod)
    irm = int(ev.eval(ast.parse("int(IMRFlag.IRM)", mode="eval").body))

    def ceval(e: ast.AST) -> Any:
        return PyEval(py, mod).eval(e)

    sites: list[tuple[str, ast.AST]] = []
    for n in ast.walk(fn):
        if py_is_call(n, "memory.write_bytes"):
            sites.append(("push", n))
        elif py_is_call(n, "cpu.regs.set") and n.args and attr_chain(n.args[0]) == "RegisterName.PC":
            sites.append(("set_pc", n))
        elif isinstance(n, ast.Assign) and any(attr_chain(t) == "self._in_interrupt" for t in n.targets) and isinstance(n.value, ast.Constant) and n.value.value is True:
            sites.append(("in_interrupt", n))
        elif py_is_call(n, "memory.write_byte") and n.args and "IMEMRegisters.IMR" in py_leaves(n.args[0], defs):
            sites.append(("imr_writeback", n))
    ctx.instance("C12.1/python-gate-sites", "delivery effect sites in PCE500Emulator.step (3 pushes, IMR write-back, set PC, in_interrupt)", len(sites), 6)
    reported_defs = set()
    for kind, site in sites:
        node = g.node_of(site)
        ctx.need(node is not None, f"step: site {kind}@{site.lineno} has no CFG node")
        guards = g.guards_of(node)
        texts = [py_guard_text(x) for x in guards]
        where = f"{EMU}:{site.lineno}"
        skey = key_of(EMU, "PCE500Emulator.step", f"{kind}:{unparse(site)[:80]}")
        if not any(isinstance(a, ast.AST) and "_irq_pending" in unparse(a) and pol for a, pol, _o in guards):
            ctx.violation("C12.1/gate-pending", skey, f"{kind} is not dominated by the pending flag", where, guards=texts)
        # master-enable
        found = False
        for a, pol, _o in guards:
            if isinstance(a, ast.Name) and a.id in defs and pol:
                dl = defs[a.id]
                good = []
                bad = []
                for d in dl:
                    r = py_bit_test(d, True, ceval) if isinstance(d, ast.AST) else None
                    if r is not None and r[1] == irm and "IMEMRegisters.IMR" in py_leaves(r[0], defs):
                        good.append(d)
                    else:
                        bad.append(d)
                if good:
                    found = True
                    for d in bad:
                        dtxt = unparse(d) if isinstance(d, ast.AST) else str(d)
                        k = key_of(EMU, "PCE500Emulator.step", f"master-enable gate also defined as {dtxt}")
                        if k not in reported_defs:
                            reported_defs.add(k)
                            ctx.violation("C12.2/gate-def", k,
                                          f"master-enable gate `{a.id}` is also defined as `{dtxt}` (not from IMR bit 7): an interrupt can be delivered with IRM clear",
                                          f"{EMU}:{getattr(d, 'lineno', site.lineno)}", good=[unparse(x) for x in good])
                    ctx.sample({"site": f"{kind}@{where}", "master_gate": a.id, "defs": [unparse(d) if isinstance(d, ast.AST) else str(d) for d in dl]})
            else:
                r = py_bit_test(a, pol, ceval) if isinstance(a, ast.AST) else None
                if r is not None and r[1] == irm and "IMEMRegisters.IMR" in py_leaves(r[0], defs):
                    found = True
        if not found:
            ctx.violation("C12.1/gate-master", skey, f"{kind} is not dominated by a master-enable test on IMR bit 7", where, guards=texts)
        # source gate: (imr & isr) != 0
        src_ok = False
        for a, pol, _o in guards:
            if isinstance(a, ast.Compare) and isinstance(a.left, ast.BinOp) and isinstance(a.left.op, ast.BitAnd):
                lv = py_leaves(a.left, defs)
                nz = (isinstance(a.ops[0], ast.NotEq) and pol) or (isinstance(a.ops[0], ast.Eq) and not pol)
                if nz and "IMEMRegisters.IMR" in lv and "IMEMRegisters.ISR" in lv:
                    src_ok = True
                    # ... and nothing else narrows it: every factor of the conjunction is IMR, ISR or a constant.  A factor taken
                    # from bookkeeping (the latched source) lets a masked request of one source starve an enabled one of another.
                    factors: list[ast.expr] = []

                    def flat(e: ast.expr) -> None:
                        if isinstance(e, ast.BinOp) and isinstance(e.op, ast.BitAnd):
                            flat(e.left)
                            flat(e.right)
                        else:
                            factors.append(e)
                    flat(a.left)
                    for f_ in factors:
                        fl = py_leaves(f_, defs)
                        if isinstance(f_, ast.Constant) or "IMEMRegisters.IMR" in fl or "IMEMRegisters.ISR" in fl:
                            continue
                        k_ = key_of(EMU, "PCE500Emulator.step", "delivery gate narrowed by a factor that is neither IMR nor ISR")
                        if k_ not in reported_defs:
                            reported_defs.add(k_)
                            ctx.violation("C12.1/gate-source", k_, f"the delivery test `{unparse(a)[:90]}` contains the factor `{unparse(f_)[:40]}` ({sorted(fl)[:3]}), which is not IMR or ISR: an enabled, pending request is held back whenever that bookkeeping value names another source", where, guards=texts)
        if not src_ok:
            ctx.violation("C12.1/gate-source", skey, f"{kind} is not dominated by a mask/status test `(IMR & ISR) != 0`", where, guards=texts)
    ctx.instance("C12.2/python-gate-defs", "definitions of the master-enable gate variable reaching the delivery test", len(reported_defs) + 1, 1)


def python_frame_values(ctx: Ctx, py: PyProgram) -> None:
    """(a) the IMR byte put on the stack is the IMR as read (the IRM mask is applied only to the value written back);
    (b) leaving interrupt context is tied to RETI specifically; (c) every latched timer status bit arms the dispatcher
    under no stricter condition than the latch itself."""
    fn = py.func(EMU, "PCE500Emulator.step")
    g = cfgmod.build_py(fn, "PCE500Emulator.step")
    defs = py_defs(fn)
    n = 0
    # (a)
    pushes = [c for c in ast.walk(fn) if py_is_call(c, "memory.write_bytes") and len(c.args) == 3 and unparse(c.args[0]) == "1"]
    imr_push = []
    for c in pushes:
        v = c.args[2]
        lv = py_leaves(v, defs)
        if "IMEMRegisters.IMR" in lv:
            imr_push.append(c)
    ctx.need(len(imr_push) == 1, f"step: expected one 1-byte push of IMR, found {len(imr_push)}")
    v = imr_push[0].args[2]
    chain = [v]
    if isinstance(v, ast.Name):
        chain = [d for d in defs.get(v.id, []) if isinstance(d, ast.AST)]
    n += 1
    for d in chain:
        if "IMRFlag.IRM" in unparse(d) or "0x7F" in unparse(d).upper().replace("0X", "0x") or "127" in unparse(d):
            ctx.violation("C12.3/frame-imr-value", key_of(EMU, "PCE500Emulator.step", "IMR pushed after masking IRM"),
                          f"the IMR byte saved on the stack is `{unparse(d)[:90]}`: IRM is already cleared in the saved copy, so RETI restores IMR with interrupts disabled", f"{EMU}:{imr_push[0].lineno}")
    wb = [c for c in ast.walk(fn) if py_is_call(c, "memory.write_byte") and c.args and "IMEMRegisters.IMR" in py_leaves(c.args[0], defs)]
    ctx.need(len(wb) >= 1, "step: IMR write-back not found")
    n += 1
    if not any("IMRFlag.IRM" in unparse(c.args[1]) or any("IMRFlag.IRM" in unparse(d) for nm in [x.id for x in ast.walk(c.args[1]) if isinstance(x, ast.Name)] for d in defs.get(nm, []) if isinstance(d, ast.AST) and d not in chain) for c in wb):
        ctx.violation("C12.3/frame-imr-value", key_of(EMU, "PCE500Emulator.step", "IMR write-back does not clear IRM itself"),
                      "the IMR write-back value carries no IRM mask of its own (it reuses the pushed value): either the saved copy or the live IMR is wrong", f"{EMU}:{wb[0].lineno}")
    # (b)
    clears = [a for a in ast.walk(fn) if isinstance(a, ast.Assign) and any(attr_chain(t) == "self._in_interrupt" for t in a.targets) and isinstance(a.value, ast.Constant) and a.value.value is False]
    ctx.need(len(clears) >= 1, "step: `self._in_interrupt = False` not found")
    for a in clears:
        n += 1
        gs = g.guards_of(g.node_of(a))
        texts = []
        for x, pol, _o in gs:
            if isinstance(x, ast.AST) and pol:
                t = unparse(x)
                for nm in [y.id for y in ast.walk(x) if isinstance(y, ast.Name)]:
                    for d in defs.get(nm, []):
                        if isinstance(d, ast.AST):
                            t += " <- " + unparse(d)
                texts.append(t)
        if not any("RETI" in t for t in texts):
            ctx.violation("C12.3/reti-only", key_of(EMU, "PCE500Emulator.step", "interrupt context left on something other than RETI"),
                          f"`self._in_interrupt = False` is guarded by {texts[-2:]} - not by a test for RETI: a plain RET inside a handler ends the interrupt context and a key interrupt is taken with IRM clear", f"{EMU}:{a.lineno}")
    # (c)
    tk = py.func(EMU, "PCE500Emulator._tick_timers")
    gt = cfgmod.build_py(tk, "_tick_timers")
    latches = [c for c in ast.walk(tk) if py_is_call(c, "self._set_isr_bits") and c.args and ("MTI" in unparse(c.args[0]) or "STI" in unparse(c.args[0]))]
    arms = [a for a in ast.walk(tk) if isinstance(a, ast.Assign) and any(attr_chain(t) == "self._irq_pending" for t in a.targets) and isinstance(a.value, ast.Constant) and a.value.value is True]
    ctx.need(len(latches) >= 2 and len(arms) >= 2, f"_tick_timers: expected ISR latches and pending arms for MTI and STI, found {len(latches)}/{len(arms)}")
    for c in latches:
        n += 1
        src = "MTI" if "MTI" in unparse(c.args[0]) else "STI"
        lg = {(unparse(x), pol) for x, pol, _o in gt.guards_of(gt.node_of(c)) if isinstance(x, ast.AST)}
        ok = False
        for a in arms:
            ag = {(unparse(x), pol) for x, pol, _o in gt.guards_of(gt.node_of(a)) if isinstance(x, ast.AST)}
            # armed under the same conditions as the latch (or weaker); a further `source is X` selection of the same source is not stricter
            extra = {t for t, _p in ag - lg if not t.replace(" ", "").startswith("sourceis")}
            if not extra and any(src in t for t, _p in ag | lg):
                ok = True
        if not ok:
            ctx.violation("C12.1/latch-arms", key_of(EMU, "PCE500Emulator._tick_timers", f"{src} latch without arming the dispatcher"),
                          f"the {src} status bit is latched in ISR, but `_irq_pending = True` for it is under a stricter condition: a request latched while masked is not delivered once the program unmasks it", f"{EMU}:{c.lineno}")
    # ... and the same for the ON key: wherever host code latches ONKI through _set_isr_bits, `_irq_pending = True` follows under no
    # stricter condition (a press inside a handler must still be delivered after RETI)
    ecls = py.need_cls(py.module(EMU), "PCE500Emulator")
    for mname, m in ecls.methods.items():
        lat = [c for c in ast.walk(m) if py_is_call(c, "self._set_isr_bits") and c.args and "ONK" in unparse(c.args[0])]
        if not lat:
            continue
        gm = cfgmod.build_py(m, mname)
        arms_ = [a for a in ast.walk(m) if (isinstance(a, ast.Assign) and any(attr_chain(t) == "self._irq_pending" for t in a.targets) and isinstance(a.value, ast.Constant) and a.value.value is True)
                 or (isinstance(a, ast.Expr) and isinstance(a.value, ast.Call) and unparse(a.value.func) == "setattr" and len(a.value.args) == 3 and unparse(a.value.args[0]) == "self"
                     and isinstance(a.value.args[1], ast.Constant) and a.value.args[1].value == "_irq_pending" and isinstance(a.value.args[2], ast.Constant) and a.value.args[2].value is True)]
        for c in lat:
            n += 1
            lg = {(unparse(x), pol) for x, pol, _o in gm.guards_of(gm.node_of(c)) if isinstance(x, ast.AST)}
            ok = any(not ({(unparse(x), pol) for x, pol, _o in gm.guards_of(gm.node_of(a)) if isinstance(x, ast.AST)} - lg) for a in arms_)
            if not ok:
                ctx.violation("C12.1/latch-arms", key_of(EMU, f"PCE500Emulator.{mname}", "ONK latch without arming the dispatcher"),
                              f"{mname} latches ISR.ONKI but sets `_irq_pending = True` only under a stricter condition (or not at all): an ON-key press while a handler runs stays in ISR, enabled and unmasked, and is "
                              "never taken", f"{EMU}:{c.lineno}")
    ctx.instance("C12.3/python-frame-values", "saved IMR is the unmasked IMR; leaving interrupt context requires RETI; every timer / ON-key ISR latch arms the dispatcher", n, 6)


# ---------------------------------------------------------------------------
def _classify_rs(leaves: set[str]) -> str:
    if any("IMR" in l for l in leaves):
        return "IMR"
    if ".pc()" in leaves or any(l.endswith("RegName::PC") for l in leaves):
        return "PC"
    if any(l.endswith("RegName::F") for l in leaves):
        return "F"
    return "?"


def frames(ctx: Ctx, py: PyProgram, rs: RustProgram) -> None:
    seqs: dict[str, list[tuple[str, int]]] = {}
    wheres: dict[str, str] = {}
    # Rust deliver_pending_irq
    fn = rs.fn(isa.LIB_RS, "CoreRuntime::deliver_pending_irq")
    defs = rs_defs(fn.body)
    ev = rs.evaluator(isa.LIB_RS)
    seq = []
    for n in walk(fn.body):
        if rs_is_mcall(n, "push_stack", "self"):
            ctx.need(expr_text(n["args"][0]) == "RegName::S", "deliver_pending_irq pushes on a stack other than S")
            seq.append((n["ln"], _classify_rs(rs_leaves(n["args"][1], defs)), ev.eval(n["args"][2]) // 8))
    seqs["rust.deliver_pending_irq"] = [(a, b) for _l, a, b in sorted(seq)]
    wheres["rust.deliver_pending_irq"] = fn.where
    # Rust Ir arm
    arm = isa.rs_arm_for(rs, "Ir")
    adefs = rs_defs(arm["body"])
    ev2 = rs.evaluator(isa.EVAL_RS)
    seq = []
    for n in walk(arm["body"]):
        if rs_is_call(n, "push_stack"):
            ctx.need(expr_text(n["args"][2]) == "RegName::S", "Ir arm pushes on a stack other than S")
            seq.append((n["ln"], _classify_rs(rs_leaves(n["args"][3], adefs)), ev2.eval(n["args"][4]) // 8))
    seqs["rust.Ir"] = [(a, b) for _l, a, b in sorted(seq)]
    wheres["rust.Ir"] = f"{rs.file_for(isa.EVAL_RS)}:{arm['ln']}"
    # Python IR.lift
    irl = py.func(isa.INSTR_PY, "IR.lift")
    idefs = py_defs(irl)
    seq = []
    for n in ast.walk(irl):
        if py_is_call(n, "il.push"):
            lv = py_leaves(n.args[1], idefs)
            what = "PC" if "RegPC" in lv else "F" if "RegF" in lv else "IMR" if "RegIMR" in lv else "?"
            seq.append((n.lineno, what, PyEval(py, py.module(isa.INSTR_PY)).eval(n.args[0])))
    seqs["python.IR.lift"] = [(a, b) for _l, a, b in sorted(seq)]
    wheres["python.IR.lift"] = f"{isa.INSTR_PY}:{irl.lineno}"
    # Python step
    st = py.func(EMU, "PCE500Emulator.step")
    sdefs = py_defs(st)
    seq = []
    for n in ast.walk(st):
        if py_is_call(n, "memory.write_bytes"):
            lv = py_leaves(n.args[2], sdefs)
            what = "IMR" if "IMEMRegisters.IMR" in lv else "PC" if "RegisterName.PC" in lv else "F" if "RegisterName.F" in lv else "?"
            seq.append((n.lineno, what, PyEval(py, py.module(EMU)).eval(n.args[0])))
    seqs["python.step"] = [(a, b) for _l, a, b in sorted(seq)]
    wheres["python.step"] = f"{EMU}:{st.lineno}"
    ref = [("PC", 3), ("F", 1), ("IMR", 1)]
    for name, s in seqs.items():
        if s != ref:
            ctx.violation("C12.3/frame-push", f"{name}::push-sequence", f"{name} pushes {s}, expected {ref} (resume PC, flags, interrupt mask)", wheres[name])
    ctx.sample({"push_sequences": seqs})
    # pops: RETI.lift
    rl = py.func(isa.INSTR_PY, "RETI.lift")
    rdefs = py_defs(rl)
    pops = []
    for n in ast.walk(rl):
        if py_is_call(n, "il.pop"):
            pops.append(n)
    pops.sort(key=lambda n: (n.lineno, n.col_offset))
    pseq = []
    for p in pops:
        size = p.args[0].value
        # who consumes it
        owner = None
        for c in ast.walk(rl):
            if isinstance(c, ast.Call) and any(p is a or any(p is x for x in ast.walk(a)) for a in c.args) and c is not p:
                f = c.func
                if isinstance(f, ast.Attribute) and f.attr == "lift_assign":
                    lv = py_leaves(f.value, rdefs)
                    owner = "IMR" if "RegIMR" in lv else "F" if "RegF" in lv else "?"
                elif isinstance(f, ast.Attribute) and f.attr == "ret":
                    owner = "PC"
                if owner:
                    break
        pseq.append((owner, size))
    if pseq != list(reversed(ref)):
        ctx.violation("C12.3/frame-pop", "python.RETI.lift::pop-sequence", f"RETI.lift pops {pseq}, expected {list(reversed(ref))}", f"{isa.INSTR_PY}:{rl.lineno}")
    # Rust RetI: loads in order bound to names, sinks by provenance
    arm = isa.rs_arm_for(rs, "RetI")
    rdefs2 = rs_defs(arm["body"])
    loads = []
    for stt in arm["body"]["stmts"]:
        if stt.get("k") == "let" and stt.get("init") is not None and stt["pat"].get("k") == "p_ident":
            if any(rs_is_mcall(n, "load", "bus") for n in walk(stt["init"])):
                loads.append(stt["pat"]["name"])
    ctx.need(len(loads) == 5, f"RetI arm: expected 5 byte loads from the stack, found {loads}")

    def reach_names(e: Any, seen: set | None = None) -> set[str]:
        seen = seen or set()
        out = set()
        for n in walk(e):
            if n.get("k") == "path" and n["p"] in rdefs2 and n["p"] not in seen:
                out.add(n["p"])
                seen.add(n["p"])
                for d in rdefs2[n["p"]]:
                    if isinstance(d, dict):
                        out |= reach_names(d, seen)
        return out
    sinks = {}
    for n in walk(arm["body"]):
        if rs_is_mcall(n, "set_reg", "state") and expr_text(n["args"][0]) in ("RegName::IMR", "RegName::F"):
            sinks[expr_text(n["args"][0]).split("::")[-1]] = reach_names(n["args"][1]) & set(loads)
        elif rs_is_mcall(n, "set_pc", "state"):
            sinks["PC"] = reach_names(n["args"][0]) & set(loads)
    want = {"IMR": {loads[0]}, "F": {loads[1]}, "PC": set(loads[2:])}
    if sinks != want:
        ctx.violation("C12.3/frame-pop", "rust.RetI::pop-provenance", f"RetI restores {sinks} from stack loads {loads}; expected IMR<-1st, F<-2nd, PC<-3rd..5th", f"{rs.file_for(isa.EVAL_RS)}:{arm['ln']}")
    ctx.sample({"reti_python": pseq, "reti_rust_loads": loads, "reti_rust_sinks": {k: sorted(v) for k, v in sinks.items()}})
    ctx.instance("C12.3/frame-layout", "push order/widths at 4 entry sites + reverse pops at 2 RETI sites", len(seqs) + 2, 6)
    # IMR written back with bit 7 cleared: the mask applied
    n_clear = 0
    for label, body, d, rev in (("rust.deliver_pending_irq", fn.body, defs, ev), ("rust.Ir", arm_ir(rs)["body"], None, ev2)):
        d = d or rs_defs(body)
        hit = False
        for n in walk(body):
            if n.get("k") == "binary" and n["op"] == "&":
                for x, m in ((n["l"], n["r"]), (n["r"], n["l"])):
                    try:
                        mv = rev.eval(m)
                    except Exception:
                        continue
                    if mv == 0x7F and "IMR" in "".join(rs_leaves(x, d)):
                        hit = True
        n_clear += 1
        if not hit:
            ctx.violation("C12.3/irm-cleared", f"{label}::imr&0x7F", f"{label} does not clear IMR bit 7 (no `imr & 0x7F`) after pushing the frame", wheres[label])
    for label, f, d in (("python.IR.lift", irl, idefs), ("python.step", st, sdefs)):
        hit = False
        mod = py.module(isa.INSTR_PY if label.endswith("lift") else EMU)
        for n in ast.walk(f):
            consts = []
            if isinstance(n, ast.BinOp) and isinstance(n.op, ast.BitAnd):
                consts = [n.left, n.right]
            elif isinstance(n, ast.Call) and isinstance(n.func, ast.Attribute) and n.func.attr == "and_expr":
                consts = [a for a in n.args for a in (a.args[1:] if isinstance(a, ast.Call) and isinstance(a.func, ast.Attribute) and a.func.attr == "const" else [])]
            for c in consts:
                try:
                    v = PyEval(py, mod).eval(c)
                except Exception:
                    continue
                if isinstance(v, int) and v & 0xFF == 0x7F:
                    hit = True
        n_clear += 1
        if not hit:
            ctx.violation("C12.3/irm-cleared", f"{label}::imr&0x7F", f"{label} does not clear IMR bit 7 after pushing the frame", wheres[label])
    ctx.instance("C12.3/irm-cleared", "IMR written back with bit 7 cleared at the 4 entry sites", n_clear, 4)


def arm_ir(rs: RustProgram) -> dict:
    return isa.rs_arm_for(rs, "Ir")


# ---------------------------------------------------------------------------
def low_power(ctx: Ctx, py: PyProgram, rs: RustProgram) -> None:
    fn = rs.fn(isa.LIB_RS, "CoreRuntime::step")
    rel = fn.file
    # the catch_unwind closure that holds the per-instruction body
    clos = [c for c in walk(fn.body) if c.get("k") == "closure" and any(rs_is_mcall(n, "execute", "self.executor") for n in walk(c["body"]))]
    ctx.need(len(clos) >= 1, "CoreRuntime::step: closure containing executor.execute not found")
    clo = clos[0]
    g = cfgmod.build_rs_closure(clo, "CoreRuntime::step::closure")
    ctx.cfg_nodes += len(g.nodes)
    ctx.functions_analysed += 1
    n_sites = 0
    for n in walk(clo["body"]):
        if rs_is_mcall(n, "execute", "self.executor"):
            n_sites += 1
            node = g.node_of(n)
            ctx.need(node is not None, "execute site has no CFG node")
            guards = g.guards_of(node)
            if not any(isinstance(a, dict) and expr_text(a) == "self.state.is_halted()" and not pol for a, pol, _o in guards):
                ctx.violation("C12.4/halt-no-exec", key_of(rel, "CoreRuntime::step", "self.executor.execute"),
                              "the instruction executor can be reached while the CPU is halted (no dominating `!self.state.is_halted()`)",
                              f"{rel}:{n['ln']}", guards=[rs_guard_text(x) for x in guards])
            ctx.sample({"site": f"execute@{rel}:{n['ln']}", "guards": [rs_guard_text(x) for x in guards][:6]})
    # HALT ends when a status bit is pending - masked or not: the wake-up is guarded by the status register only, never by the mask
    cdefs = rs_defs(clo["body"])
    try:
        imr_off = rs.eval_const(isa.LIB_RS, "IMEM_IMR_OFFSET")
    except Exception:  # noqa: BLE001 - the constant may live elsewhere; the architectural offset is 0xFB
        imr_off = 0xFB
    for n in walk(clo["body"]):
        if rs_is_mcall(n, "set_halted", "self.state") and n["args"] and expr_text(n["args"][0]) == "false":
            node = g.node_of(n)
            ctx.need(node is not None, "set_halted(false) has no CFG node")
            n_sites += 1
            gs = [(a, pol) for a, pol, _o in g.guards_of(node) if isinstance(a, dict)]
            leaves = [rs_leaves(a, cdefs) for a, _p in gs]
            if not any("IMEM_ISR_OFFSET" in lv or "#252" in lv for lv in leaves):
                ctx.violation("C12.4/halt-wake-isr", key_of(rel, "CoreRuntime::step", "set_halted(false)"), "the Rust HALT wake-up is not guarded by a pending status bit", f"{rel}:{n['ln']}")
            for (a, pol), lv in zip(gs, leaves):
                if any("IMR" in x.upper() for x in lv) or f"#{imr_off}" in lv:
                    ctx.violation("C12.4/halt-wake-masked", key_of(rel, "CoreRuntime::step", "HALT wake-up depends on the interrupt mask"),
                                  f"the Rust HALT wake-up runs only when `{expr_text(a)[:80]}` is {str(pol).lower()}, which reads the interrupt mask: a status bit that becomes pending while masked no longer ends HALT "
                                  "(the CPU resumes exactly when a status bit becomes pending; delivery, not wake-up, is what the mask gates)", f"{rel}:{n['ln']}")
    # OFF: in the outer for loop, from `is_off()` true the closure statement is reached only through set_power_state(Running)
    g2 = cfgmod.build_rs(fn.node, fn.qual)
    ctx.cfg_nodes += len(g2.nodes)
    clo_node = g2.node_of(clo)
    ctx.need(clo_node is not None, "step: closure statement has no CFG node")
    off_guards = [nd.id for nd in g2.nodes if nd.kind == "guard" and isinstance(nd.guard[0], dict) and expr_text(nd.guard[0]) == "self.state.is_off()" and nd.guard[1]]
    ctx.need(len(off_guards) == 1, "step: `if self.state.is_off()` not found")
    wake = [g2.node_of(n) for n in walk(fn.body) if rs_is_mcall(n, "set_power_state", "self.state") and "Running" in expr_text(n["args"][0])]
    wake = [w for w in wake if w is not None]
    ctx.need(wake, "step: set_power_state(Running) not found")
    n_sites += 1
    if clo_node in g2.reachable_from(off_guards[0], avoid=wake):
        ctx.violation("C12.4/off-no-exec", key_of(rel, "CoreRuntime::step", "is_off->execute"),
                      "a powered-off CPU can reach the instruction body without passing set_power_state(Running)", f"{rel}:{fn.ln}")
    # the wake is itself guarded by ONK
    for w in wake:
        gs = g2.guards_of(w)
        ev = rs.evaluator(isa.LIB_RS)
        defs = rs_defs(fn.body)
        ok = False
        for a, pol, _o in gs:
            if isinstance(a, dict) and pol and a.get("k") == "binary" and a["op"] == "!=" and a["l"].get("k") == "path":
                for d in defs.get(a["l"]["p"], []):
                    if isinstance(d, dict) and d.get("k") == "binary" and d["op"] == "&":
                        try:
                            if ev.eval(d["r"]) == rs.eval_const(isa.LIB_RS, "ISR_ONKI"):
                                ok = True
                        except Exception:
                            pass
        n_sites += 1
        if not ok:
            ctx.violation("C12.4/off-wake-onk", key_of(rel, "CoreRuntime::step", "set_power_state(Running)"),
                          "leaving OFF is not guarded by the ON-key status bit", f"{rel}:{fn.ln}", guards=[rs_guard_text(x) for x in gs])
    # OFF clears pending state
    off_region = g2.reachable_from(off_guards[0], avoid=[clo_node])
    cleared = [n for n in walk(fn.body) if n.get("k") == "assign" and expr_text(n["l"]) == "self.timer.irq_pending" and expr_text(n["r"]) == "false" and g2.node_of(n) in off_region]
    n_sites += 1
    if not cleared:
        ctx.violation("C12.4/off-clears-pending", key_of(rel, "CoreRuntime::step", "is_off: irq_pending=false"), "the OFF branch does not reset the pending flag", rel)

    # OFF stops the clocks: on the powered-off path the cycle counter is not advanced and the timers are not ticked
    for a in walk(fn.body):
        is_time = (a.get("k") in ("assign", "opassign") and a["l"].get("k") == "field" and a["l"].get("name") == "cycle_count") or \
                  (a.get("k") == "mcall" and a["m"] in ("tick_timers", "tick_timers_with_keyboard", "advance_cycles"))
        if not is_time:
            continue
        node = g2.node_of(a)
        if node is None:
            continue
        n_sites += 1
        if any(isinstance(x, dict) and pol and expr_text(x).replace(" ", "") == "self.state.is_off()" for x, pol, _o in g2.guards_of(node)):
            ctx.violation("C12.4/off-stops-time", key_of(rel, "CoreRuntime::step", "time advances while the CPU is off"),
                          f"`{expr_text(a)[:80]}` runs on the powered-off path: timer targets are absolute cycle numbers, so both timers keep running across OFF and expire as soon as the ON key wakes the machine", f"{rel}:{a['ln']}")

    # Python: execute_instruction dominated by ... must pass `halted = False` from the halted guard
    st = py.func(EMU, "PCE500Emulator.step")
    gp = cfgmod.build_py(st, "PCE500Emulator.step")
    halted_guards = [nd.id for nd in gp.nodes if nd.kind == "guard" and isinstance(nd.guard[0], ast.AST) and "state" in unparse(nd.guard[0]) and "halted" in unparse(nd.guard[0]) and nd.guard[1]]
    ctx.need(len(halted_guards) == 1, "PCE500Emulator.step: halted test not found")
    wakes = [gp.node_of(n) for n in ast.walk(st) if isinstance(n, ast.Assign) and any(attr_chain(t) == "self.cpu.state.halted" for t in n.targets) and isinstance(n.value, ast.Constant) and n.value.value is False]
    ctx.need(wakes, "PCE500Emulator.step: `self.cpu.state.halted = False` not found")
    exec_nodes = [gp.node_of(n) for n in ast.walk(st) if py_is_call(n, "cpu.execute_instruction")]
    ctx.need(len(exec_nodes) >= 2, "PCE500Emulator.step: execute_instruction sites not found")
    reach = gp.reachable_from(halted_guards[0], avoid=wakes, follow_exc=False)
    for en in exec_nodes:
        n_sites += 1
        if en in reach:
            ctx.violation("C12.4/halt-no-exec", key_of(EMU, "PCE500Emulator.step", "cpu.execute_instruction"),
                          "a halted CPU can reach execute_instruction without the wake-up assignment", f"{EMU}:{gp.nodes[en].line}")
    # the wake-up is guarded by ISR != 0
    for w in wakes:
        gs = gp.guards_of(w)
        d = py_defs(st)
        ok = any(isinstance(a, ast.Compare) and pol and isinstance(a.ops[0], ast.NotEq) and "IMEMRegisters.ISR" in py_leaves(a.left, d) for a, pol, _o in gs)
        n_sites += 1
        if not ok:
            ctx.violation("C12.4/halt-wake-isr", key_of(EMU, "PCE500Emulator.step", "halted=False"), "HALT wake-up is not guarded by a pending status bit (ISR != 0)",
                          f"{EMU}:{gp.nodes[w].line}", guards=[py_guard_text(x) for x in gs])
        for a, pol, _o in gs:
            if isinstance(a, ast.AST) and any("IMR" in x for x in py_leaves(a, d)):
                ctx.violation("C12.4/halt-wake-masked", key_of(EMU, "PCE500Emulator.step", "HALT wake-up depends on the interrupt mask"),
                              f"the HALT wake-up runs only when `{unparse(a)[:80]}` is {str(pol).lower()}, which reads the interrupt mask: a status bit pending while masked no longer ends HALT", f"{EMU}:{gp.nodes[w].line}")
    # HALT/OFF park the CPU whatever is pending: the wake-up (which also re-arms the dispatcher from the live ISR) is the machine loop's
    # job on the next step; an intrinsic that skips the halted state when ISR != 0 bypasses that re-arming
    INTR = "sc62015/pysc62015/intrinsics.py"
    ctx.file_used(REPO / INTR)
    imod = py.module(INTR)
    stores = []
    for f_ in [x for x in ast.walk(imod.tree) if isinstance(x, ast.FunctionDef)]:
        for i_, st_ in enumerate(f_.body):
            for a in ast.walk(st_):
                if isinstance(a, ast.Assign) and any(isinstance(t, ast.Attribute) and t.attr == "halted" for t in a.targets):
                    stores.append((f_, st_, a))
    ctx.need(bool(stores), "intrinsics.py: no store to state.halted found")
    for f_, top, a in stores:
        n_sites += 1
        if isinstance(a.value, ast.Constant) and a.value.value is False:
            continue                        # a reset path clearing the flag
        if not (isinstance(a.value, ast.Constant) and a.value.value is True) or top is not a:
            ctx.violation("C12.4/halt-unconditional", key_of(INTR, f_.name, "halted set conditionally"),
                          f"{f_.name} sets `{unparse(a)[:70]}`{' under a condition' if top is not a else ''}: HALT/OFF must park the CPU unconditionally - with a request already latched the CPU runs on without the "
                          "wake-up step that re-arms the dispatcher, so a second pending source is never delivered and the idle loop spins", f"{INTR}:{a.lineno}")
    ctx.instance("C12.4/low-power", "executor unreachable while halted/off; wake-up guarded by status bits (Rust closure + outer loop, Python step); HALT/OFF set halted unconditionally", n_sites, 9)


# ---------------------------------------------------------------------------
RS_PENDING_CLEARERS = {
    # frozen from reading the Rust core: every store of `false` to the pending latch and why it cannot lose a request
    "TimerContext::reset": "power-on/reset state",
    "TimerContext::clear_pending_for_reset": "soft RESET instruction clears IMR/ISR together with the latch",
    "TimerContext::apply_snapshot_info": "restore: cleared only when the restored ISR is empty",
    "TimerContext::drain_pending_irq": "hand-over of the latch to the caller that delivers",
    "CoreRuntime::install_imr_isr_hook": "firmware wrote ISR with no request bit left",
    "CoreRuntime::step": "OFF / RESET / IR intrinsic bookkeeping inside the executed instruction",
    "CoreRuntime::deliver_pending_irq": "delivery",
}


def pending_not_lost(ctx: Ctx, py: PyProgram, rs: RustProgram) -> None:
    """A request that is pending but masked must survive until firmware unmasks it.  Two ownership rules decide the structural part:
    the pending latch is cleared only by delivery, reset or restore; and host-side code never removes a status bit from ISR (only
    firmware writes do) - the emulator's own ISR writes are OR-only."""
    mod = py.module(EMU)
    cls = next(n for n in mod.tree.body if isinstance(n, ast.ClassDef) and n.name == "PCE500Emulator")
    methods = {m.name: m for m in cls.body if isinstance(m, ast.FunctionDef)}
    callers: dict[str, set[str]] = {}
    for name, m in methods.items():
        for c in ast.walk(m):
            if isinstance(c, ast.Call) and isinstance(c.func, ast.Attribute) and attr_chain(c.func.value) == "self" and c.func.attr in methods:
                callers.setdefault(c.func.attr, set()).add(name)

    def reset_only(name: str, seen: frozenset = frozenset()) -> bool:
        if name in ("__init__", "reset"):
            return True
        cs = callers.get(name, set())
        return bool(cs) and name not in seen and all(reset_only(c, seen | {name}) for c in cs)

    n = 0
    for name, m in methods.items():
        for blk in _blocks(m):
            for st in blk:
                if isinstance(st, ast.Assign) and any(attr_chain(t) == "self._irq_pending" for t in st.targets):
                    v = st.value
                    if isinstance(v, ast.Constant) and v.value is True:
                        continue
                    n += 1
                    if not isinstance(v, ast.Constant):
                        if name == "load_snapshot":
                            continue
                        ctx.violation("C12.2/pending-clear-sites", key_of(EMU, name, "computed pending"), f"{name} overwrites the pending latch with `{unparse(v)}` outside snapshot restore", f"{EMU}:{st.lineno}")
                        continue
                    delivery = any(isinstance(o, ast.Assign) and any(attr_chain(t) == "self._in_interrupt" for t in o.targets) and isinstance(o.value, ast.Constant) and o.value.value is True for o in blk)
                    if delivery or reset_only(name):
                        continue
                    ctx.violation("C12.2/pending-clear-sites", key_of(EMU, name, "pending latch cleared"),
                                  f"PCE500Emulator.{name} clears the pending latch (self._irq_pending = False) although it neither delivers the interrupt nor resets the machine: a request that is pending but masked at that moment is dropped and is not taken when firmware unmasks it", f"{EMU}:{st.lineno}")
    ctx.instance("C12.2/pending-clear-sites", "stores of a non-True value to PCE500Emulator._irq_pending: delivery / reset / restore only", n, 3)

    # host-side ISR writes are OR-only
    n = 0
    for name, m in methods.items():
        d = py_defs(m)
        for c in ast.walk(m):
            if py_is_call(c, "write_byte") or py_is_call(c, "write_bytes"):
                if not (isinstance(c.func, ast.Attribute) and attr_chain(c.func.value) == "self.memory"):
                    continue
                args = list(c.args)
                addr = args[0] if c.func.attr == "write_byte" else (args[1] if len(args) > 1 else None)
                val = args[1] if c.func.attr == "write_byte" else (args[2] if len(args) > 2 else None)
                if addr is None or val is None or "ISR" not in _imem_tag(py_leaves(addr, d) | {unparse(addr)}):
                    continue
                n += 1
                params = {a.arg for a in m.args.args + m.args.kwonlyargs}
                vl = {x.id for x in ast.walk(val) if isinstance(x, ast.Name)}
                if vl and vl <= params:
                    continue   # the caller supplies the whole register value (machine set-up API), nothing is read-modified
                if reset_only(name):
                    continue
                if not _or_only(val, d, m):
                    ctx.violation("C12.2/isr-host-writes", key_of(EMU, name, "ISR written with a non-OR value"),
                                  f"PCE500Emulator.{name} writes ISR with `{unparse(val)}`, which is not old|bits: host-side code can remove a latched status bit, losing a request that is pending but masked (only firmware acknowledges requests)", f"{EMU}:{c.lineno}")
    ctx.instance("C12.2/isr-host-writes", "host-side writes to the ISR cell in PCE500Emulator are read-modify-write OR", n, 1)

    # Rust: who clears TimerContext.irq_pending
    n = 0
    seen_fns = set()
    for sfile in (isa.LIB_RS, "core/src/timer.rs"):
        rel = rs.file_for(sfile)
        for fn in [f for (r, _q), f in rs.fns.items() if r == rel]:   # test modules are not indexed
            for a in walk(fn.body):
                if a.get("k") == "assign" and expr_text(a["l"]).replace(" ", "").endswith("irq_pending") and expr_text(a["r"]).strip() == "false":
                    n += 1
                    seen_fns.add(fn.qual)
                    if fn.qual not in RS_PENDING_CLEARERS:
                        ctx.violation("C12.2/pending-clear-sites", key_of(fn.file, fn.qual, "pending latch cleared"),
                                      f"{fn.qual} clears TimerContext.irq_pending; the functions confirmed to do so without losing a request are {sorted(RS_PENDING_CLEARERS)}", fn.where)
    ctx.instance("C12.2/rust-pending-clear-sites", "stores of false to irq_pending in the Rust core, each in a confirmed delivery/reset/restore/ack function", n, 6)


def _blocks(fn: ast.AST):
    for node in ast.walk(fn):
        for f in ("body", "orelse", "finalbody"):
            b = getattr(node, f, None)
            if isinstance(b, list) and b and isinstance(b[0], ast.stmt):
                yield b
        if isinstance(node, ast.Try):
            for h in node.handlers:
                yield h.body


def _or_only(val: ast.expr, d: dict, fn: ast.AST, depth: int = 0) -> bool:
    """val == (old | x) [& 0xFF] where old is a read of the same cell (through locals)."""
    if depth > 6:
        return False
    if isinstance(val, ast.BinOp) and isinstance(val.op, ast.BitAnd):
        for a, b in ((val.left, val.right), (val.right, val.left)):
            if isinstance(b, ast.Constant) and b.value == 0xFF:
                return _or_only(a, d, fn, depth + 1)
        return False
    if isinstance(val, ast.BinOp) and isinstance(val.op, ast.BitOr):
        return _reads_isr(val.left, d, depth) or _reads_isr(val.right, d, depth)
    if isinstance(val, ast.Name):
        defs = d.get(val.id, [])
        return bool(defs) and all(_or_only(x, d, fn, depth + 1) for x in defs)
    return False


def _reads_isr(e: ast.expr, d: dict, depth: int = 0) -> bool:
    if depth > 6:
        return False
    if isinstance(e, ast.BinOp) and isinstance(e.op, ast.BitAnd):
        for a, b in ((e.left, e.right), (e.right, e.left)):
            if isinstance(b, ast.Constant) and b.value == 0xFF:
                return _reads_isr(a, d, depth + 1)
        return False
    if isinstance(e, ast.Name):
        defs = d.get(e.id, [])
        return bool(defs) and all(_reads_isr(x, d, depth + 1) for x in defs)
    if isinstance(e, ast.Call) and isinstance(e.func, ast.Attribute) and e.func.attr == "read_byte" and e.args:
        return "ISR" in _imem_tag(py_leaves(e.args[0], d) | {unparse(e.args[0])})
    return False


def reti_source_stable(ctx: Ctx, rs: RustProgram) -> None:
    """The Rust RETI epilogue clears the status bit named by `irq_source` (falling back to the mask recorded at delivery).  So between
    delivery and RETI nothing the step loop runs may re-point `irq_source` at another source: a TimerContext method that assigns
    `irq_source = Some(..)` when a source fires may be called from CoreRuntime::step only under `!self.timer.in_interrupt` -
    otherwise an expiry inside another source's handler makes RETI clear the *new* request (lost untaken) and leaves the old one
    set (its handler runs twice).  Necessary for 'a pending request is not lost', given this epilogue."""
    firing: set[str] = set()
    for fn in rs.fns_in("core/src/timer.rs"):
        if fn.body is None or fn.impl_ty != "TimerContext":
            continue
        g = None
        for n in walk(fn.body):
            if n.get("k") == "assign" and expr_text(n["l"]).replace(" ", "") == "self.irq_source" and expr_text(n["r"]).startswith("Some("):
                g = g or cfgmod.build_rs(fn.node, fn.qual)
                node = g.node_of(n)
                guards = [expr_text(a).replace(" ", "") for a, pol, _o in (g.guards_of(node) if node is not None else []) if isinstance(a, dict)]
                pols = {expr_text(a).replace(" ", ""): pol for a, pol, _o in (g.guards_of(node) if node is not None else []) if isinstance(a, dict)}
                if pols.get("self.in_interrupt") is False or pols.get("self.irq_source.is_none()") is True:
                    continue
                firing.add(fn.name)
    ctx.need(len(firing) >= 2, f"TimerContext methods assigning irq_source on expiry: found only {sorted(firing)}")
    step = rs.fn(isa.LIB_RS, "CoreRuntime::step")
    clos = [c for c in walk(step.body) if c.get("k") == "closure" and any(rs_is_mcall(n, "execute", "self.executor") for n in walk(c["body"]))]
    ctx.need(len(clos) >= 1, "CoreRuntime::step: closure containing executor.execute not found")
    g = cfgmod.build_rs_closure(clos[0], "CoreRuntime::step::closure")
    n = 0
    for c in walk(clos[0]["body"]):
        if c.get("k") == "mcall" and c["m"] in firing and expr_text(c["recv"]).replace(" ", "") == "self.timer":
            n += 1
            node = g.node_of(c)
            ctx.need(node is not None, f"step: call of {c['m']} has no CFG node")
            pols = {expr_text(a).replace(" ", ""): pol for a, pol, _o in g.guards_of(node) if isinstance(a, dict)}
            if pols.get("self.timer.in_interrupt") is not False:
                ctx.violation("C12.2/reti-source-stable", key_of(step.file, "CoreRuntime::step", f"{c['m']} while a handler runs"),
                              f"`self.timer.{c['m']}(..)` at line {c['ln']} can run while in_interrupt is set: when another source fires there it re-points irq_source, the handler's RETI then clears the new "
                              "request's status bit (the request is lost without being taken) and leaves the delivered one set (its handler is entered again)", f"{step.file}:{c['ln']}")
    ctx.instance("C12.2/reti-source-stable", "calls from CoreRuntime::step to TimerContext methods that re-point irq_source on expiry: each only outside interrupt context", n, 1)
    ctx.sample({"irq_source_assigning_methods": sorted(firing)})


def reti_clears_delivered(ctx: Ctx, rs: RustProgram) -> None:
    """The status bit the Rust RETI epilogue clears is the one that was *delivered*: the mask it takes apart (`if let Some(m) = <mask>`)
    in front of the ISR store is an `a.or(b).or_else(c)` chain of alternatives; the first must be the per-delivery record
    (`delivered_masks`, pushed by deliver_pending_irq), not `irq_source`, which host code (press_on_key) and the per-step arming
    re-point at KEY/ONK while a handler runs - RETI would then clear a request that was never taken."""
    step = rs.fn(isa.LIB_RS, "CoreRuntime::step")
    clos = [c for c in walk(step.body) if c.get("k") == "closure" and any(rs_is_mcall(n, "execute", "self.executor") for n in walk(c["body"]))]
    ctx.need(len(clos) >= 1, "CoreRuntime::step: closure containing executor.execute not found")
    clo = clos[0]
    g = cfgmod.build_rs_closure(clo, "CoreRuntime::step::closure")
    d = rs_defs(clo["body"])
    n = 0
    for st in walk(clo["body"]):
        if not (st.get("k") == "mcall" and st["m"] == "store" and st["args"] and any("ISR" in x.upper() for x in rs_leaves(st["args"][0], d))):
            continue
        node = g.node_of(st)
        if node is None:
            continue
        gs = [(a, pol) for a, pol, _o in g.guards_of(node) if isinstance(a, dict)]
        if not any(pol and expr_text(a).replace(" ", "") in ("opcode==1", "opcode==0x01") for a, pol in gs):
            continue            # not the RETI epilogue
        for a, pol in gs:
            if not (a.get("k") == "let_cond" and pol and a["e"].get("k") == "path"):
                continue
            for df in d.get(a["e"]["p"], []):
                if not isinstance(df, dict):
                    continue
                chain = []
                e = df
                while e.get("k") == "mcall" and e["m"] in ("or", "or_else") and e["args"]:
                    chain.append(e["args"][0])
                    e = e["recv"]
                chain.append(e)
                chain.reverse()
                leaves = [rs_leaves(c, d) for c in chain]
                if not any(any("delivered_masks" in x for x in lv) for lv in leaves):
                    continue        # some other optional value on the path
                n += 1
                first = leaves[0]
                if not any("delivered_masks" in x for x in first):
                    what = "irq_source" if any("irq_source" in x for x in first) else expr_text(chain[0])[:50]
                    ctx.violation("C12.2/reti-clears-delivered", key_of(step.file, "CoreRuntime::step", "RETI clears the bit named by irq_source before the delivery record"),
                                  f"the RETI epilogue clears the status bit taken first from `{what}` and only then from the mask recorded at delivery: press_on_key / arm_pending_irq_from_isr re-point irq_source while a handler "
                                  "runs, so RETI clears a request that was never delivered (it is lost) and leaves the delivered one set (its handler runs again)", f"{step.file}:{st['ln']}")
    ctx.instance("C12.2/reti-clears-delivered", "RETI epilogue of CoreRuntime::step: the cleared mask comes from the delivery record first", n, 1)


def vector_read_at_delivery(ctx: Ctx, py: PyProgram, rs: RustProgram) -> None:
    """Execution continues at the vector *as it is in memory when the interrupt is taken*: the value handed to set_pc in the Rust
    delivery is made of memory loads at the vector address performed by the delivery (directly, or in a helper that does nothing but
    load) - not a copy kept in a field of the runtime, which goes stale when firmware or the host rewrites the vector."""
    fn = rs.fn(isa.LIB_RS, "CoreRuntime::deliver_pending_irq")
    defs = rs_defs(fn.body)
    n = 0
    for c in walk(fn.body):
        if not rs_is_mcall(c, "set_pc", "self.state"):
            continue
        n += 1
        from ..rules import rs_canon
        t = rs_canon(c["args"][0], defs)
        if "INTERRUPT_VECTOR_ADDR" in t and "load(" in t:
            continue
        # through a helper method of the runtime?
        helpers = [x for x in walk(c["args"][0])] + [v for x in walk(c["args"][0]) if x.get("k") == "path" for v in defs.get(x["p"], []) if isinstance(v, dict)]
        called = {x["m"] for h in helpers for x in walk(h) if x.get("k") == "mcall" and expr_text(x["recv"]) == "self"}
        verdict = f"the PC value `{t[:80]}` is not loaded from INTERRUPT_VECTOR_ADDR in the delivery"
        ok = False
        for m in sorted(called):
            try:
                h = rs.fn(isa.LIB_RS, f"CoreRuntime::{m}")
            except AnalysisError:
                continue
            body_t = expr_text(h.body)
            loads = "INTERRUPT_VECTOR_ADDR" in body_t and "load(" in body_t
            fields_written = {expr_text(a["l"]) for a in walk(h.body) if a.get("k") in ("assign", "opassign") and expr_text(a["l"]).startswith("self.")}
            fields_read = {expr_text(x) for x in walk(h.body) if x.get("k") == "field" and expr_text(x).startswith("self.") and expr_text(x) in fields_written}
            if loads and not fields_written:
                ok = True
            elif fields_written:
                verdict = f"CoreRuntime::{m} answers from the field(s) {sorted(fields_written)} it fills on first use: after the vector bytes at INTERRUPT_VECTOR_ADDR are rewritten, later interrupts still enter the old handler"
        if not ok:
            ctx.violation("C12.2/vector-live", key_of(fn.file, fn.qual, "interrupt vector not read from memory at delivery"), f"{fn.qual}: {verdict}", f"{fn.file}:{c['ln']}")
    ctx.instance("C12.2/vector-live", "set_pc sites of the Rust delivery: the value is loaded from the vector address by the delivery itself", n, 1)


def python_entry_atomic(ctx: Ctx, py: PyProgram) -> None:
    """Interrupt entry is atomic: once the frame is being pushed, nothing before `PC := vector` may fail.  The delivery block of
    PCE500Emulator.step sits in a blanket handler, so an exception there leaves S lowered and IRM cleared while the main program
    simply continues.  Decided part (a contradiction rule): a field the class itself treats as possibly None (it assigns None to it)
    is not dereferenced (`self.F.attr`) between the first push and the PC write unless a test of that field guards the use; locally
    handled `try` blocks are not part of the sequence."""
    EMU_ = "pce500/emulator.py"
    mod = py.module(EMU_)
    cls = next((c for c in ast.walk(mod.tree) if isinstance(c, ast.ClassDef) and c.name == "PCE500Emulator"), None)
    if cls is None:
        raise AnalysisError("PCE500Emulator vanished")
    nullable = set()
    for a in ast.walk(cls):
        if isinstance(a, (ast.Assign, ast.AnnAssign)) and isinstance(getattr(a, "value", None), ast.Constant) and a.value.value is None:
            for t in (a.targets if isinstance(a, ast.Assign) else [a.target]):
                ch = attr_chain(t)
                if ch and ch.startswith("self.") and ch.count(".") == 1:
                    nullable.add(ch)
    fn = py.func(EMU_, "PCE500Emulator.step")

    def is_pc_set(st: ast.AST) -> bool:
        return any(isinstance(c, ast.Call) and attr_chain(c.func) in ("self.cpu.regs.set",) and c.args and attr_chain(c.args[0]) == "RegisterName.PC" for c in ast.walk(st))

    def is_push(st: ast.AST) -> bool:
        return isinstance(st, ast.Expr) and isinstance(st.value, ast.Call) and attr_chain(st.value.func) in ("self.memory.write_bytes",)
    region = None
    for blk in ast.walk(fn):
        for fld in ("body", "orelse", "finalbody"):
            stmts = getattr(blk, fld, None)
            if isinstance(stmts, list) and any(is_push(s_) for s_ in stmts) and any(isinstance(s_, ast.Expr) and is_pc_set(s_) for s_ in stmts):
                i0 = next(i for i, s_ in enumerate(stmts) if is_push(s_))
                i1 = max(i for i, s_ in enumerate(stmts) if isinstance(s_, ast.Expr) and is_pc_set(s_))
                region = stmts[i0:i1 + 1]
    if region is None:
        raise AnalysisError("PCE500Emulator.step: delivery sequence (pushes .. PC := vector) not found")
    n = 0

    def scan(node: ast.AST, guarded: frozenset) -> None:
        nonlocal n
        if isinstance(node, ast.Try) and any(h.type is None or unparse(h.type) in ("Exception", "BaseException") for h in node.handlers):
            return                                   # handled on the spot: cannot abort the entry sequence
        if isinstance(node, (ast.If, ast.IfExp)):
            tested = frozenset(ch for x in ast.walk(node.test) for ch in [attr_chain(x)] if ch in nullable)
            scan(node.test, guarded)
            for sub in ([node.body] if isinstance(node, ast.IfExp) else node.body):
                scan(sub, guarded | tested)
            for sub in ([node.orelse] if isinstance(node, ast.IfExp) else node.orelse):
                scan(sub, guarded | tested)
            return
        if isinstance(node, ast.Attribute) and isinstance(node.value, ast.Attribute):
            base = attr_chain(node.value)
            if base in nullable:
                n += 1
                if base not in guarded:
                    ctx.violation("C12.1/entry-atomic", key_of(EMU_, "PCE500Emulator.step", f"{base}.{node.attr} dereferenced inside the entry sequence"),
                                  f"`{unparse(node)}` is evaluated between the first push and `PC := vector`, but {base} may be None (the class assigns None to it): the AttributeError is swallowed by the "
                                  "delivery's blanket handler, leaving S lowered and IRM cleared with the handler never entered", f"{EMU_}:{node.lineno}")
        for ch_ in ast.iter_child_nodes(node):
            scan(ch_, guarded)
    for st in region:
        scan(st, frozenset())
    ctx.instance("C12.1/entry-atomic", "statements between the first push and PC := vector in the Python delivery (dereferences of possibly-None fields counted)", len(region), 10)
