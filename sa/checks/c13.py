"""C13 - timers fire exactly on period boundaries however time advances.

Decides (shape on every path of one tick; not firing *sequences*):
  1 GUARD-DOM  a timer is marked fired only under enabled, period > 0, cycle >= next (its own next/period)
  2 INTERVAL   every write of the next-fire target in the fire branch leaves next > cycle at exit:
               either `next += period` inside `while cycle >= next` (exit edge = cycle < next) or
               `next = cycle + period` under period > 0; the fired mark is outside the catch-up loop (once per tick)
  3 TABLE      MTI -> ISR bit 0, STI -> ISR bit 1 in both cores
  4 GUARD-DOM  every tick call site is suppressed inside a handler (in_interrupt false) and the WAIT loops tick every cycle
  5 EXACT      snapshot restore puts the saved next-fire targets back unconditionally and unchanged
"""
from __future__ import annotations

import ast
from typing import Any

from .. import cfg as cfgmod
from .. import isa
from ..core import REPO, AnalysisError, Ctx
from ..pyfacts import PyEval, PyProgram, attr_chain, unparse
from ..rsfacts import RustProgram, expr_text, walk
from ..rules import key_of, py_defs, py_guard_text, py_is_call, py_leaves, rs_defs, rs_guard_text, rs_is_mcall, rs_leaves

LEVEL = "other"
EXPLANATION = (
    "GUARD-DOM + difference-fact (INTERVAL) rules on the CFGs of TimerScheduler.advance and TimerContext::tick_timers: the fired "
    "mark of each timer must be dominated by enabled and period>0 and cycle>=next on that timer's own fields, every write to the "
    "next-fire target must be of a form whose exit implies next > cycle (catch-up loop exit edge, or re-base by a positive period), "
    "and the mark must be outside the catch-up loop. Plus ISR bit agreement and in-handler suppression at all tick call sites. "
    "Identical firing sequences over arbitrary gap patterns are declined (arithmetic over histories)."
)
TRUSTED = ["syn / CPython parsers", "sa/cfg.py CFG + dominators", "meta-argument: ticked every cycle, cycle>=next iff cycle==next, so `once per tick` + `next>cycle at exit` gives once per boundary"]
CLAIM = ("Decides per tick, on every path, that a timer fires only when enabled with positive period and cycle>=next, that after any tick its target is strictly in the future, "
         "that one tick marks a timer at most once, that firing sets the documented ISR bit, and that ticking is suppressed inside handlers in both cores.")
NOTE = "Sequence equality between the Python scheduler and the Rust timer under arbitrary gaps is not decided (the Rust core has a non-phase-preserving mode chosen by its CLI)."
TECHNIQUE = "dominator guard analysis + difference-bound reasoning over next/cycle writes on Python and Rust CFGs"

SCHED = "pce500/scheduler.py"
EMU = "pce500/emulator.py"
TIMER_RS = "core/src/timer.rs"


def run(ctx: Ctx) -> None:
    py = PyProgram()
    rs = RustProgram()
    for f in (SCHED, EMU, isa.CONST_PY):
        ctx.file_used(REPO / f)
    for s in (TIMER_RS, isa.LIB_RS):
        ctx.file_used(REPO / rs.file_for(s))
    python_advance(ctx, py)
    rust_tick(ctx, rs)
    isr_bits(ctx, py, rs)
    tick_sites(ctx, py, rs)
    tick_discipline(ctx, py)
    target_ownership(ctx, py, rs)
    from ..snaprules import timer_restore_findings
    found, nn = timer_restore_findings(py)
    for key, what, ln in found:
        ctx.violation("C13.5/restore-targets", key, what, f"{EMU}:{ln}")
    ctx.instance("C13.5/restore-targets", "load_snapshot puts the saved next-fire targets back unconditionally and unchanged", nn, 2)


# ---------------------------------------------------------------------------
def _cmp_ge(atom: Any, lang: str) -> tuple[str, str] | None:
    """`a >= b` -> (text a, text b); also `b <= a`."""
    if lang == "py":
        if isinstance(atom, ast.Compare) and len(atom.ops) == 1:
            l, r = unparse(atom.left), unparse(atom.comparators[0])
            if isinstance(atom.ops[0], ast.GtE):
                return l, r
            if isinstance(atom.ops[0], ast.LtE):
                return r, l
        return None
    e = atom
    while isinstance(e, dict) and e.get("k") == "paren":
        e = e["e"]
    if isinstance(e, dict) and e.get("k") == "binary":
        if e["op"] == ">=":
            return expr_text(e["l"]), expr_text(e["r"])
        if e["op"] == "<=":
            return expr_text(e["r"]), expr_text(e["l"])
    return None


def _cmp_gt0(atom: Any, lang: str) -> str | None:
    if lang == "py":
        if isinstance(atom, ast.Compare) and len(atom.ops) == 1 and isinstance(atom.ops[0], ast.Gt) and unparse(atom.comparators[0]) == "0":
            return unparse(atom.left)
        return None
    e = atom
    while isinstance(e, dict) and e.get("k") == "paren":
        e = e["e"]
    if isinstance(e, dict) and e.get("k") == "binary" and e["op"] == ">" and expr_text(e["r"]) == "0":
        return expr_text(e["l"])
    return None


def check_timer(ctx: Ctx, lang: str, g: cfgmod.CFG, file: str, qual: str, timer: str, fired_sites: list, next_field: str,
                period_field: str, cycle_name: str, enabled_text: str, next_writes: list, gtext) -> None:
    ctx.need(fired_sites, f"{qual}: no fired mark for {timer}")
    for site, line in fired_sites:
        node = g.node_of(site)
        ctx.need(node is not None, f"{qual}: fired site has no CFG node")
        guards = g.guards_of(node)
        texts = [gtext(x) for x in guards]
        key = key_of(file, qual, f"fired:{timer}")
        where = f"{file}:{line}"
        # enabled
        en = False
        for a, pol, _o in guards:
            t = unparse(a) if (lang == "py" and isinstance(a, ast.AST)) else (expr_text(a) if isinstance(a, dict) else "")
            if t == enabled_text and pol:
                en = True
        if not en:
            ctx.violation("C13.1/fire-guard", key + ":enabled", f"{timer} can be marked fired while the timers are disabled (no dominating `{enabled_text}`)", where, guards=texts)
        if not any(pol and _cmp_gt0(a, lang) == period_field for a, pol, _o in guards):
            ctx.violation("C13.1/fire-guard", key + ":period", f"{timer} can be marked fired with a zero period (no dominating `{period_field} > 0`)", where, guards=texts)
        if not any(pol and _cmp_ge(a, lang) == (cycle_name, next_field) and o != "while" for a, pol, o in guards):
            ctx.violation("C13.1/fire-guard", key + ":due", f"{timer} can be marked fired before its target (no dominating `{cycle_name} >= {next_field}`)", where, guards=texts)
        if any(o == "while" and pol for _a, pol, o in guards):
            ctx.violation("C13.2/fire-once", key + ":once", f"{timer} is marked fired inside the catch-up loop: one tick can report the same boundary more than once", where, guards=texts)
        ctx.sample({"timer": timer, "lang": lang, "fired_at": where, "guards": texts})
    # next writes
    ctx.need(next_writes, f"{qual}: no write to {next_field} found")
    for site, line, rhs_leaves, form in next_writes:
        node = g.node_of(site)
        guards = g.guards_of(node)
        texts = [gtext(x) for x in guards]
        key = key_of(file, qual, f"next-write:{timer}:{form}")
        where = f"{file}:{line}"
        if form == "incr":
            inside = any(pol and o == "while" and _cmp_ge(a, lang) == (cycle_name, next_field) for a, pol, o in guards)
            if not inside:
                ctx.violation("C13.2/next-future", key, f"`{next_field} += {period_field}` is not inside `while {cycle_name} >= {next_field}`: after the tick the target may still be <= cycle (or skip a boundary)", where, guards=texts)
            if not any(pol and _cmp_gt0(a, lang) == period_field for a, pol, _o in guards):
                ctx.violation("C13.2/next-future", key + ":progress", f"catch-up loop on {next_field} is not guarded by `{period_field} > 0` (no progress)", where, guards=texts)
        elif form == "rebase":
            if not any(pol and _cmp_gt0(a, lang) == period_field for a, pol, _o in guards):
                ctx.violation("C13.2/next-future", key, f"`{next_field} = {cycle_name} + {period_field}` without a dominating `{period_field} > 0`: target may equal the current cycle", where, guards=texts)
        else:
            ctx.violation("C13.2/next-future", key, f"write to {next_field} of unrecognised form ({sorted(rhs_leaves)}): cannot show the target is strictly in the future after the tick", where, guards=texts)


def python_advance(ctx: Ctx, py: PyProgram) -> None:
    fn = py.func(SCHED, "TimerScheduler.advance")
    g = cfgmod.build_py(fn, "TimerScheduler.advance")
    ctx.functions_analysed += 1
    ctx.cfg_nodes += len(g.nodes)
    cycle = fn.args.args[1].arg
    n = 0
    for timer, src, nxt, per in (("MTI", "TimerSource.MTI", "self._next_mti", "self.mti_period"), ("STI", "TimerSource.STI", "self._next_sti", "self.sti_period")):
        returned = {unparse(r.value) for r in ast.walk(fn) if isinstance(r, ast.Return) and isinstance(r.value, ast.Name)}
        fired = [(c, c.lineno) for c in ast.walk(fn) if isinstance(c, ast.Call) and isinstance(c.func, ast.Attribute) and c.func.attr in ("append", "add") and unparse(c.func.value) in returned and c.args and unparse(c.args[0]) == src]
        fired += [(y, y.lineno) for y in ast.walk(fn) if isinstance(y, ast.Yield) and y.value is not None and unparse(y.value) == src]
        writes = []
        for st in ast.walk(fn):
            tgt = None
            if isinstance(st, ast.AugAssign) and attr_chain(st.target) == nxt:
                lv = {unparse(st.value)}
                form = "incr" if isinstance(st.op, ast.Add) and unparse(st.value) == per else "other"
                writes.append((st, st.lineno, lv | {nxt}, form))
            elif isinstance(st, ast.Assign) and any(attr_chain(t) == nxt for t in st.targets):
                v = st.value
                form = "other"
                if isinstance(v, ast.BinOp) and isinstance(v.op, ast.Add):
                    ops = {unparse(v.left), unparse(v.right)}
                    if ops == {nxt, per}:
                        form = "incr"
                    elif ops == {cycle, per}:
                        form = "rebase"
                writes.append((st, st.lineno, {unparse(v)}, form))
        check_timer(ctx, "py", g, SCHED, "TimerScheduler.advance", timer, fired, nxt, per, cycle, "self.enabled", writes, py_guard_text)
        n += len(fired) + len(writes)
    # whether a timer is due is decided from the live fields only: the declared settings (enabled, periods) and the targets this
    # function itself moves.  A test on any other attribute is a stored summary of them (an "earliest target" cache ..): the periods
    # are plain public fields that the machine assigns directly, so no writer refreshes the summary and a timer switched on later
    # never fires.
    cls_ = next(c_ for c_ in ast.walk(py.module(SCHED).tree) if isinstance(c_, ast.ClassDef) and c_.name == "TimerScheduler")
    declared = {st.target.id for st in cls_.body if isinstance(st, ast.AnnAssign) and isinstance(st.target, ast.Name)}
    moved = {t.attr for st in ast.walk(fn) if isinstance(st, (ast.Assign, ast.AugAssign)) for t in (st.targets if isinstance(st, ast.Assign) else [st.target])
             if isinstance(t, ast.Attribute) and isinstance(t.value, ast.Name) and t.value.id == "self"}
    d_ = py_defs(fn)

    def attrs_of(e: ast.AST, depth: int = 0) -> set[str]:
        out = set()
        for x in ast.walk(e):
            if isinstance(x, ast.Attribute) and isinstance(x.value, ast.Name) and x.value.id == "self":
                out.add(x.attr)
            if isinstance(x, ast.Name) and x.id in d_ and depth < 4:
                for v in d_[x.id]:
                    if isinstance(v, ast.AST):
                        out |= attrs_of(v, depth + 1)
        return out
    for t_ in [x for x in ast.walk(fn) if isinstance(x, (ast.If, ast.While))]:
        n += 1
        extra = sorted(a for a in attrs_of(t_.test) if a not in declared and a not in moved)
        if extra:
            ctx.violation("C13.1/live-fields", key_of(SCHED, "TimerScheduler.advance", f"due test reads {extra}"),
                          f"TimerScheduler.advance tests `{unparse(t_.test)[:70]}`, which reads {['self.' + a for a in extra]}: neither a declared setting nor a target this function moves, i.e. a stored summary "
                          "that assignments to the public period fields do not refresh - a timer enabled at run time is never found due", f"{SCHED}:{t_.lineno}")
    ctx.instance("C13.1-2/python-advance", "fired marks + next-target writes in TimerScheduler.advance (2 timers)", n, 4)


def _tick_flags(fn: Any) -> tuple[str, str]:
    """The two locals tick_timers returns as (MTI fired, STI fired): the function's result tuple of two plain names (its last
    expression), identified by position in the result, not by what the locals are called."""
    last = fn.body["stmts"][-1]
    e = last.get("e") if last.get("k") == "expr_stmt" else None
    if isinstance(e, dict) and e.get("k") == "tuple" and len(e["elems"]) == 2 and all(x.get("k") == "path" for x in e["elems"]):
        return e["elems"][0]["p"], e["elems"][1]["p"]
    raise AnalysisError("tick_timers: the (mti, sti) result tuple of two locals was not found")


def rust_tick(ctx: Ctx, rs: RustProgram) -> None:
    fn = rs.fn(TIMER_RS, "TimerContext::tick_timers")
    g = cfgmod.build_rs(fn.node, fn.qual)
    ctx.functions_analysed += 1
    ctx.cfg_nodes += len(g.nodes)
    params = fn.params()
    ctx.need(len(params) >= 3, "tick_timers: unexpected signature")
    cycle = params[2]
    n = 0
    flag_mti, flag_sti = _tick_flags(fn)
    for timer, flag, nxt, per in (("MTI", flag_mti, "self.next_mti", "self.mti_period"), ("STI", flag_sti, "self.next_sti", "self.sti_period")):
        fired = [(a, a["ln"]) for a in walk(fn.body) if a.get("k") == "assign" and expr_text(a["l"]) == flag and expr_text(a["r"]) == "true"]
        writes = []
        for a in walk(fn.body):
            if a.get("k") == "assign" and expr_text(a["l"]) == nxt:
                r = a["r"]
                form = "other"
                if r.get("k") == "mcall" and r["m"] in ("wrapping_add", "saturating_add", "checked_add") and len(r["args"]) == 1:
                    ops = {expr_text(r["recv"]), expr_text(r["args"][0])}
                elif r.get("k") == "binary" and r["op"] == "+":
                    ops = {expr_text(r["l"]), expr_text(r["r"])}
                else:
                    ops = set()
                if ops == {nxt, per}:
                    form = "incr"
                elif ops == {cycle, per}:
                    form = "rebase"
                writes.append((a, a["ln"], ops or {expr_text(r)}, form))
            elif a.get("k") == "opassign" and expr_text(a["l"]) == nxt:
                form = "incr" if a["op"] == "+" and expr_text(a["r"]) == per else "other"
                writes.append((a, a["ln"], {expr_text(a["r"])}, form))
        check_timer(ctx, "rs", g, fn.file, fn.qual, timer, fired, nxt, per, cycle, "self.enabled", writes, rs_guard_text)
        n += len(fired) + len(writes)
    ctx.instance("C13.1-2/rust-tick", "fired marks + next-target writes in TimerContext::tick_timers (2 timers, phase-preserving and re-base forms)", n, 6)
    # the returned tuple is the fired flags in (mti, sti) order
    rets = [e for e in walk(fn.body) if e.get("k") == "tuple" and [expr_text(x) for x in e["elems"]] == [flag_mti, flag_sti]]
    ctx.instance("C13.1/rust-return", "tick_timers returns (fired_mti, fired_sti)", len(rets), 1)
    # sibling operator agreement already enforced through _cmp_ge on both sides


def isr_bits(ctx: Ctx, py: PyProgram, rs: RustProgram) -> None:
    ev = PyEval(py, py.module(isa.CONST_PY))
    isr = {k: int(v.value) for k, v in ev.enum_members(ev.name("ISRFlag")).items()}
    fn = rs.fn(TIMER_RS, "TimerContext::tick_timers")
    g = cfgmod.build_rs(fn.node, fn.qual)
    rev = rs.evaluator(TIMER_RS)
    n = 0
    flag_mti, flag_sti = _tick_flags(fn)
    # the local that is written to ISR
    isr_vars = {expr_text(c["args"][1]) for c in walk(fn.body) if rs_is_mcall(c, "write_internal_byte") and len(c["args"]) == 2 and c["args"][1].get("k") == "path"}
    for a in walk(fn.body):
        if a.get("k") == "opassign" and a["op"] == "|" and expr_text(a["l"]) in isr_vars:
            node = g.node_of(a)
            gs = [expr_text(x) for x, pol, _o in g.guards_of(node) if isinstance(x, dict) and pol]
            val = rev.eval(a["r"])
            last = gs[-1] if gs else ""
            which = {flag_mti: "MTI", flag_sti: "STI"}.get(last)
            n += 1
            if which is None or isr[which] != val:
                ctx.violation("C13.3/isr-bit", key_of(fn.file, fn.qual, f"ISR |= {val:#x}"), f"ISR bit {val:#x} is set under guard `{last}`; ISRFlag says MTI={isr['MTI']:#x} STI={isr['STI']:#x}", f"{fn.file}:{a['ln']}")
    # the byte written back is the ISR *as read from memory in this tick* with the fired bits OR-ed in: a copy of ISR kept in a field of
    # the timer context (a mirror some hosts refresh and others do not) misses the firmware's own acknowledgements, so a bit the handler
    # cleared is considered still set and never latched again
    d = rs_defs(fn.body)
    for v in sorted(isr_vars):
        n += 1
        seen, todo, mirror = set(), [v], None
        while todo:
            nm = todo.pop()
            if nm in seen:
                continue
            seen.add(nm)
            for e in d.get(nm, []):
                if not isinstance(e, dict):
                    continue
                for x in walk(e):
                    if x.get("k") == "field" and expr_text(x).startswith("self."):
                        mirror = expr_text(x)
                    if x.get("k") == "path" and x["p"] in d:
                        todo.append(x["p"])
        if mirror:
            ctx.violation("C13.3/isr-from-memory", key_of(fn.file, fn.qual, "ISR write-back starts from a stored copy"),
                          f"{fn.qual} builds the ISR byte it writes from `{mirror}` instead of the byte read from memory in this tick: once firmware clears a status bit in memory the copy still has it, "
                          "so later boundaries are reported as fired without the status bit ever being set again", fn.file)
    # the ISR write targets ISR_OFFSET
    wr = [c for c in walk(fn.body) if rs_is_mcall(c, "write_internal_byte", "memory")]
    for c in wr:
        n += 1
        if rev.eval(c["args"][0]) != 0xFC:
            ctx.violation("C13.3/isr-bit", key_of(fn.file, fn.qual, "write_internal_byte"), "timer status bits are written somewhere other than ISR (0xFC)", f"{fn.file}:{c['ln']}")
    # Python _tick_timers
    tf = py.func(EMU, "PCE500Emulator._tick_timers")
    gp = cfgmod.build_py(tf, "_tick_timers")
    mod = py.module(EMU)
    for c in ast.walk(tf):
        if py_is_call(c, "self._set_isr_bits"):
            node = gp.node_of(c)
            val = PyEval(py, mod).eval(c.args[0])
            src = [unparse(a.comparators[0]) for a, pol, _o in gp.guards_of(node) if isinstance(a, ast.Compare) and pol and len(a.ops) == 1 and isinstance(a.ops[0], (ast.Is, ast.Eq))
                   and isinstance(a.left, ast.Name) and unparse(a.comparators[0]).startswith("TimerSource.")]
            if not src:
                continue  # KEYI path, checked in C14
            n += 1
            which = src[-1].split(".")[-1]
            if isr.get(which) != val:
                ctx.violation("C13.3/isr-bit", key_of(EMU, "_tick_timers", f"_set_isr_bits({val:#x})"), f"source {which} sets ISR {val:#x}, ISRFlag.{which}={isr.get(which)}", f"{EMU}:{c.lineno}")
    # the latch itself: _set_isr_bits(mask) leaves ISR = old | mask whatever the interrupt mask register holds (a status bit latches
    # when the timer fires; IMR only gates delivery) - the method is interpreted for timer masks x IMR values x old ISR values
    from ..pyfacts import ClassHost, NotConst
    ecls = py.need_cls(mod, "PCE500Emulator")
    ctx.need("_set_isr_bits" in ecls.methods, "PCE500Emulator._set_isr_bits vanished")
    imem = PyEval(py, mod).eval(ast.parse("INTERNAL_MEMORY_START", mode="eval").body)
    bad = None
    for mask in (isr["MTI"], isr["STI"], isr["MTI"] | isr["STI"]):
        for imr in (0x00, 0x01, 0x02, 0x80, 0x83):
            for old in (0x00, 0x04, 0x03):
                n += 1
                cells = {imem + 0xFC: old, imem + 0xFB: imr}
                writes: list = []

                class _Mem:
                    _sa_host = True

                    def read_byte(self, a: int, *_a: Any, **_k: Any) -> int:
                        return cells.get(a, 0)

                    def write_byte(self, a: int, v: int, *_a: Any, **_k: Any) -> None:
                        writes.append((a, v))
                        cells[a] = v
                me = ClassHost(py, mod, ecls, memory=_Mem(), _irq_pending=False, _key_irq_latched=False, trace=None, perfetto_enabled=False)
                try:
                    me._sa_call(ecls, ecls.methods["_set_isr_bits"], (mask,), {})
                except NotConst as e:
                    raise AnalysisError(f"_set_isr_bits left the evaluable fragment: {e}")
                if cells.get(imem + 0xFC) != (old | mask) and bad is None:
                    bad = (mask, imr, old, cells.get(imem + 0xFC))
    if bad:
        mask, imr, old, got = bad
        ctx.violation("C13.3/isr-latch", key_of(EMU, "PCE500Emulator._set_isr_bits", "status bit not latched"),
                      f"_set_isr_bits({mask:#04x}) with ISR={old:#04x}, IMR={imr:#04x} leaves ISR={got:#04x}, not {old | mask:#04x}: the scheduler has already moved the target past the boundary, so the fire is consumed "
                      "without its status bit ever being set (the Rust tick latches regardless of IMR)", f"{EMU}:{ecls.methods['_set_isr_bits'].lineno}")
    ctx.instance("C13.3/isr-bit", "firing sets ISR bit 0 (MTI) / bit 1 (STI) in both cores; the Python latch ORs the mask for every IMR value", n, 50)


def tick_sites(ctx: Ctx, py: PyProgram, rs: RustProgram) -> None:
    n = 0
    # Rust: every call of tick_timers_with_keyboard in lib.rs is dominated by !in_interrupt
    for qual in ("CoreRuntime::step", "CoreRuntime::tick_timers_and_keyboard"):
        fn = rs.fn(isa.LIB_RS, qual)
        graphs = [(cfgmod.build_rs(fn.node, qual), fn.body)]
        for c in walk(fn.body):
            if c.get("k") == "closure" and any(rs_is_mcall(x, "tick_timers_with_keyboard") for x in walk(c["body"])):
                graphs.append((cfgmod.build_rs_closure(c), c["body"]))
        seen = set()
        for g, body in graphs:
            for c in walk(body):
                if rs_is_mcall(c, "tick_timers_with_keyboard") and id(c) not in seen:
                    node = g.node_of(c)
                    if node is None:
                        continue
                    gs = g.guards_of(node)
                    if not any(isinstance(a, dict) and expr_text(a) == "self.timer.in_interrupt" and not pol for a, pol, _o in gs):
                        # may be guarded in the enclosing graph (closure inside fn)
                        continue
                    seen.add(id(c))
        total = [c for c in walk(fn.body) if rs_is_mcall(c, "tick_timers_with_keyboard")]
        for c in total:
            n += 1
            if id(c) not in seen:
                ctx.violation("C13.4/tick-suppressed", key_of(fn.file, qual, f"tick_timers_with_keyboard@{len(seen)}"), "a timer tick call site is not suppressed inside an interrupt handler (`!self.timer.in_interrupt`)", f"{fn.file}:{c['ln']}")
    # Rust per-cycle loop: `for cyc in prev_cycle + 1..=new_cycle` feeds cyc
    fn = rs.fn(isa.LIB_RS, "CoreRuntime::step")
    loops = [f for f in walk(fn.body) if f.get("k") == "for" and f["iter"].get("k") == "range" and f["iter"].get("closed") and "prev_cycle" in expr_text(f["iter"]["lo"]) and "new_cycle" in expr_text(f["iter"]["hi"])]
    n += 1
    if not loops or not any(rs_is_mcall(c, "tick_timers_with_keyboard") and expr_text(c["args"][1]) == loops[0]["pat"]["name"] for c in walk(loops[0]["body"])):
        ctx.violation("C13.4/tick-every-cycle", key_of(fn.file, "CoreRuntime::step", "for cyc in prev+1..=new"), "the instruction/WAIT cycle loop does not tick the timers once per cycle", fn.where)
    # Python: _tick_timers call sites
    for qual in ("PCE500Emulator.step", "PCE500Emulator._simulate_wait"):
        f = py.func(EMU, qual)
        g = cfgmod.build_py(f, qual)
        for c in ast.walk(f):
            if py_is_call(c, "self._tick_timers"):
                n += 1
                gs = g.guards_of(g.node_of(c))
                t = [(unparse(a), pol) for a, pol, _o in gs if isinstance(a, ast.AST)]
                if not any("_in_interrupt" in x and not pol for x, pol in t):
                    ctx.violation("C13.4/tick-suppressed", key_of(EMU, qual, "_tick_timers()"), "timer tick is not suppressed inside an interrupt handler", f"{EMU}:{c.lineno}", guards=[py_guard_text(x) for x in gs])
                if not any("_timer_enabled" in x and pol for x, pol in t):
                    ctx.violation("C13.4/tick-enabled", key_of(EMU, qual, "_tick_timers():enabled"), "timer tick ignores the timer-enable switch", f"{EMU}:{c.lineno}")
    sw = py.func(EMU, "PCE500Emulator._simulate_wait")
    incs = [a for a in ast.walk(sw) if isinstance(a, ast.AugAssign) and attr_chain(a.target) == "self.cycle_count" and isinstance(a.op, ast.Add) and unparse(a.value) == "1"]
    n += 1
    loop_ok = any(isinstance(l, ast.For) and any(x is incs[0] for x in ast.walk(l)) and any(py_is_call(c, "self._tick_timers") for c in ast.walk(l)) for l in ast.walk(sw)) if incs else False
    if not loop_ok:
        ctx.violation("C13.4/tick-every-cycle", key_of(EMU, "_simulate_wait", "cycle_count += 1; tick"), "_simulate_wait does not advance one cycle and tick per iteration", f"{EMU}:{sw.lineno}")
    ctx.instance("C13.4/tick-sites", "tick call sites suppressed in handlers; WAIT/cycle loops tick each cycle (Rust 3 sites + loop, Python 3 sites + loop)", n, 8)


def tick_discipline(ctx: Ctx, py: PyProgram) -> None:
    """(a) every source the scheduler reports as fired is latched: _tick_timers loops over the whole result of advance();
    (b) within one step, time is advanced only after the tick for the current cycle (no cycle_count write dominates a tick call), so
    every cycle value is handed to the scheduler exactly once; (c) the period/target properties store what they are given
    (a period of 0 means "never fires" and must stay 0)."""
    fn = py.func(EMU, "PCE500Emulator._tick_timers")
    n = 0
    defs = py_defs(fn)
    adv = [c for c in ast.walk(fn) if isinstance(c, ast.Call) and unparse(c.func).endswith("_scheduler.advance")]
    ctx.need(len(adv) == 1, "_tick_timers: expected one scheduler.advance call")
    holders = {t.id for a in ast.walk(fn) if isinstance(a, ast.Assign) and any(x is adv[0] for x in ast.walk(a.value)) for t in a.targets if isinstance(t, ast.Name)}
    loops = [l for l in ast.walk(fn) if isinstance(l, ast.For) and any(isinstance(x, ast.Name) and x.id in holders for x in ast.walk(l.iter))]
    ctx.need(len(loops) >= 1, "_tick_timers: loop over the fired sources not found")
    for lp in loops:
        n += 1
        it = lp.iter
        plain = isinstance(it, ast.Name) or (isinstance(it, ast.Call) and unparse(it.func) in ("list", "tuple", "iter") and len(it.args) == 1 and isinstance(it.args[0], ast.Name))
        if not plain:
            ctx.violation("C13.6/all-fired-latched", key_of(EMU, "PCE500Emulator._tick_timers", "loop over a part of the fired sources"),
                          f"_tick_timers iterates `{unparse(it)}` instead of everything advance() reported: when both timers reach a boundary on the same cycle one of them consumes its boundary without setting its ISR bit", f"{EMU}:{lp.lineno}")
    # (b)
    st = py.func(EMU, "PCE500Emulator.step")
    g = cfgmod.build_py(st, "step")
    ticks = [c for c in ast.walk(st) if isinstance(c, ast.Call) and unparse(c.func) == "self._tick_timers"]
    incs = [a for a in ast.walk(st) if isinstance(a, (ast.AugAssign, ast.Assign)) and any(attr_chain(t) == "self.cycle_count" for t in ([a.target] if isinstance(a, ast.AugAssign) else a.targets))]
    ctx.need(len(ticks) >= 2 and len(incs) >= 2, f"step: expected tick call sites and cycle_count updates on the normal and halted paths, found {len(ticks)}/{len(incs)}")
    for t in ticks:
        tn = g.node_of(t)
        for a in incs:
            n += 1
            an = g.node_of(a)
            if tn is not None and an is not None and an != tn and g.dominates(an, tn):
                ctx.violation("C13.6/tick-before-advance", key_of(EMU, "PCE500Emulator.step", "cycle counter advanced before the tick of the same step"),
                              f"`{unparse(a)}` (line {a.lineno}) runs before `_tick_timers()` (line {t.lineno}) on every path: the cycle value in between is never handed to the scheduler, a boundary on it fires a cycle late", f"{EMU}:{t.lineno}")
    # (c)
    k = 0
    for rel, cname, pref in ((EMU, "PCE500Emulator", "_timer_"), (SCHED, "TimerScheduler", "")):
        cls = py.need_cls(py.module(rel), cname)
        for node in cls.node.body:
            if isinstance(node, ast.FunctionDef) and node.name.startswith(pref) and any(unparse(d).endswith(".setter") for d in node.decorator_list):
                prm = [a_.arg for a_ in node.args.args if a_.arg != "self"]
                p0 = prm[0] if prm else "value"
                for a in ast.walk(node):
                    if isinstance(a, ast.Assign):
                        k += 1
                        v = unparse(a.value).replace(" ", "")
                        if v not in (p0, f"int({p0})", f"bool({p0})"):
                            ctx.violation("C13.6/setter-exact", key_of(rel, f"{cname}.{node.name}.setter", "value rewritten"),
                                          f"the {cname}.{node.name} setter stores `{unparse(a.value)}` instead of the value it is given: a period of 0 (timer off), a restored snapshot target or a target beyond some bound is silently changed, "
                                          "so the timer fires off its period grid", f"{rel}:{a.lineno}")
    ctx.need(k >= 6, f"timer property setters not found ({k})")
    ctx.instance("C13.6/tick-discipline", "all fired sources latched; tick precedes the cycle advance; timer setters store their argument", n + k, 8)


def target_ownership(ctx: Ctx, py: PyProgram, rs: RustProgram) -> None:
    """Who may move a timer's next-fire target.  (a) Python: TimerScheduler.advance both moves the targets and reports what fired, so
    every call of it must be the one in _tick_timers whose result is latched - a call that drops the result consumes boundaries
    silently.  (b) Python: reset arms both targets one period after the base cycle, unconditionally (a target left at 0 fires the
    moment the timers are enabled).  (c) Rust: inside CoreRuntime::step the targets are moved only by the tick functions."""
    n = 0
    mod = py.module(EMU)
    cls = py.need_cls(mod, "PCE500Emulator")
    for mname, m in cls.methods.items():
        for c in ast.walk(m):
            if isinstance(c, ast.Call) and isinstance(c.func, ast.Attribute) and c.func.attr == "advance" and (attr_chain(c.func.value) or "").endswith("_scheduler"):
                n += 1
                dropped = any(isinstance(st, ast.Expr) and st.value is c for st in ast.walk(m))
                if mname != "_tick_timers" or dropped:
                    ctx.violation("C13.6/advance-owner", key_of(EMU, f"PCE500Emulator.{mname}", "scheduler.advance outside the latching tick"),
                                  f"PCE500Emulator.{mname} calls scheduler.advance(){' and drops its result' if dropped else ''}: advance() moves the targets past every boundary up to the given cycle, so boundaries crossed here are never latched in ISR (no status bit, no interrupt)", f"{EMU}:{c.lineno}")
    rst = py.func(SCHED, "TimerScheduler.reset")
    base = [a.arg for a in rst.args.args + rst.args.kwonlyargs if a.arg != "self"]
    for fld, per in (("self._next_mti", "self.mti_period"), ("self._next_sti", "self.sti_period")):
        stores = [a for a in ast.walk(rst) if isinstance(a, ast.Assign) and any(attr_chain(t) == fld for t in a.targets)]
        n += 1
        g = cfgmod.build_py(rst, "reset")
        ok = len(stores) == 1 and isinstance(stores[0].value, ast.BinOp) and isinstance(stores[0].value.op, ast.Add) and {unparse(stores[0].value.left), unparse(stores[0].value.right)} == {base[0] if base else "?", per} \
            and not [x for x in g.guards_of(g.node_of(stores[0])) if isinstance(x[0], ast.AST)]
        if not ok:
            ctx.violation("C13.2/reset-target", key_of(SCHED, "TimerScheduler.reset", f"{fld}"),
                          f"reset does not arm {fld} as `{base[0] if base else 'base'} + {per}` unconditionally ({[unparse(s_.value)[:60] for s_ in stores]}): a target left at or before the current cycle fires on the first tick after the timers are enabled, without a period boundary having been crossed", f"{SCHED}:{rst.lineno}")
    # (b2) the base the scheduler is re-armed from is the cycle counter the machine continues with: in every emulator method that calls
    # scheduler.reset, the value of cycle_base at the call equals the value self.cycle_count has when the method returns
    rst_default = None
    for a_, d_ in zip(rst.args.kwonlyargs, rst.args.kw_defaults):
        if a_.arg == (base[0] if base else None) and d_ is not None:
            rst_default = unparse(d_)
    for mname, m in cls.methods.items():
        calls_ = [c for c in ast.walk(m) if isinstance(c, ast.Call) and isinstance(c.func, ast.Attribute) and c.func.attr == "reset" and (attr_chain(c.func.value) or "").endswith("_scheduler")]
        for c in calls_:
            n += 1
            arg = next((unparse(k.value) for k in c.keywords if k.arg == (base[0] if base else None)), unparse(c.args[0]) if c.args else rst_default)
            assigns = sorted([a for a in ast.walk(m) if isinstance(a, ast.Assign) and any(attr_chain(t) == "self.cycle_count" for t in a.targets)], key=lambda a: a.lineno)
            before = [a for a in assigns if a.lineno < c.lineno]
            after = [a for a in assigns if a.lineno > c.lineno]
            at_call = unparse(before[-1].value) if before else "self.cycle_count"
            at_exit = unparse(after[-1].value) if after else at_call
            arg_val = at_call if arg == "self.cycle_count" else arg
            norm = lambda t: "0" if t in ("0", "int(0)") else t
            if norm(arg_val or "?") != norm(at_exit):
                ctx.violation("C13.2/reset-base", key_of(EMU, f"PCE500Emulator.{mname}", "scheduler re-armed from a different cycle than the machine continues with"),
                              f"PCE500Emulator.{mname} re-arms the scheduler with cycle_base = {arg_val} but leaves self.cycle_count = {at_exit}: the targets sit at a stale base + period while time restarts elsewhere, "
                              "so every period boundary between the two is skipped (or fires at once)", f"{EMU}:{c.lineno}")
    # (c)
    writers: set[str] = set()
    calls: dict[str, set[str]] = {}
    for fn in rs.fns_in(TIMER_RS):
        if fn.impl_ty != "TimerContext" or fn.body is None:
            continue
        if any(a.get("k") in ("assign", "opassign") and a["l"].get("k") == "field" and a["l"].get("name") in ("next_mti", "next_sti") for a in walk(fn.body)):
            writers.add(fn.name)
        calls[fn.name] = {c["m"] for c in walk(fn.body) if c.get("k") == "mcall" and expr_text(c["recv"]) == "self"}
    changed = True
    while changed:
        changed = False
        for f_, cs in calls.items():
            if f_ not in writers and cs & writers:
                writers.add(f_)
                changed = True
    ctx.need({"tick_timers", "reset"} <= writers, f"TimerContext target writers not recovered ({sorted(writers)})")
    st = rs.fn(isa.LIB_RS, "CoreRuntime::step")
    for c in walk(st.body):
        if c.get("k") == "mcall" and c["m"] in writers and "timer" in expr_text(c["recv"]):
            n += 1
            if c["m"] not in ("tick_timers", "tick_timers_with_keyboard"):
                ctx.violation("C13.6/advance-owner", key_of(st.file, st.qual, f"timer.{c['m']} inside the step loop"),
                              f"CoreRuntime::step calls timer.{c['m']}(), which moves next_mti/next_sti outside a tick: the firing cadence (and parity with the Python scheduler) depends on instruction lengths", f"{st.file}:{c['ln']}")
    ctx.instance("C13.6/target-ownership", "callers of scheduler.advance, reset's target arming, TimerContext target writers reached from CoreRuntime::step", n, 4)
