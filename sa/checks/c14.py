"""C14 - keyboard reads show exactly the held keys on strobed columns; events ordered.

Decides (shape; not debounce timing over histories):
  1 INTERVAL   bounded FIFO: every write of head/tail keeps it in [0, FIFO_SIZE); the count grows only after the
               full-check; full queue drops the oldest (head advance) before the store; constants and key layout agree
  2 GUARD-DOM  a row bit is OR-ed into the key-input value only for a key on an active column, and only when the key is
               debounced / pending; active columns derive only from the strobe registers
  3 GUARD-DOM  KEYI (ISR bit 2) is asserted only under an existing latch or (keyboard IRQ enabled and new events)
  4 SIBLING    guarded-assignment skeletons of _update_key_state and scan_tick agree
  5 TABLE      strobe decoding for all KOL x KOH x polarity values in both languages == bits of KOL | KOH<<8 matching the polarity
"""
from __future__ import annotations

import ast
import re
from typing import Any

from .. import cfg as cfgmod
from .. import isa
from ..core import REPO, AnalysisError, Ctx
from ..pyfacts import PyEval, PyProgram, Term, attr_chain, unparse
from ..rsfacts import RustProgram, expr_text, pat_text, walk
from ..rules import key_of, py_defs, py_guard_text, py_is_call, py_leaves, rs_defs, rs_guard_text, rs_is_mcall, rs_leaves

LEVEL = "other"
EXPLANATION = (
    "INTERVAL + GUARD-DOM rules over KeyboardMatrix in both languages: every assignment of the FIFO indices is of a bounded form "
    "(0, `% FIFO_SIZE`, `.min(FIFO_SIZE-1)`), the full-queue branch advances the head before the store, each `value |= 1 << row` "
    "site is dominated by the active-column membership test and the debounced/pending test, KEYI writes are dominated by "
    "latch or (enabled and events), and the duplicated constants/key layout agree. Thorough tier compares the guarded-assignment "
    "skeleton of the debounce automaton between Python and Rust. Event ordering/timing over press/release histories is declined."
)
TRUSTED = ["syn / CPython parsers", "sa/cfg.py dominators", "constant folding of _build_key_locations() (pure table builder)"]
CLAIM = ("Decides on every path that the event queue indices stay in range and a full queue drops only its oldest entry, that key-input row bits are produced only for keys on "
         "strobed columns, and that the key interrupt is raised only under latch or enabled-and-new-events; plus cross-language agreement of constants and key layout.")
NOTE = "Debounce/repeat cadence and per-key event order over histories are not decided by this technique."
TECHNIQUE = "interval/form analysis of index writes + dominator guard analysis + sibling skeleton comparison"

KM_PY = "pce500/keyboard_matrix.py"
EMU = "pce500/emulator.py"
KB_RS = "core/src/keyboard.rs"
TIMER_RS = "core/src/timer.rs"


def run(ctx: Ctx) -> None:
    py = PyProgram()
    rs = RustProgram()
    for f in (KM_PY, EMU):
        ctx.file_used(REPO / f)
    for s in (KB_RS, TIMER_RS, isa.LIB_RS):
        ctx.file_used(REPO / rs.file_for(s))
    constants_and_layout(ctx, py, rs)
    fifo_bounds(ctx, py, rs)
    kil_guards(ctx, py, rs)
    keyi_guards(ctx, py, rs)
    sibling_skeleton(ctx, py, rs)
    active_columns_table(ctx, py, rs)
    debounce_arms_repeat(ctx, py, rs)
    kil_read_fresh(ctx, py)
    api_parity_and_full_scan(ctx, py, rs)
    register_access_and_queue_order(ctx, py)
    press_release_name_parity(ctx, py)
    rust_ring_coherent(ctx, rs)


# ---------------------------------------------------------------------------
def constants_and_layout(ctx: Ctx, py: PyProgram, rs: RustProgram) -> None:
    pairs = [("FIFO_SIZE", "FIFO_SIZE"), ("COLUMN_COUNT", "COLUMN_COUNT"), ("DEFAULT_PRESS_TICKS", "DEFAULT_PRESS_TICKS"),
             ("DEFAULT_RELEASE_TICKS", "DEFAULT_RELEASE_TICKS"), ("DEFAULT_REPEAT_DELAY_TICKS", "DEFAULT_REPEAT_DELAY"),
             ("DEFAULT_REPEAT_INTERVAL_TICKS", "DEFAULT_REPEAT_INTERVAL")]
    rel = rs.file_for(KB_RS)
    n = 0
    for p, r in pairs:
        n += 1
        a, b = py.value(KM_PY, p), rs.eval_const(KB_RS, r)
        if a != b:
            ctx.violation("C14.1/constants", f"{rel}::{r}", f"{r}={b} but {KM_PY}::{p}={a}", rel)
    locs = py.value(KM_PY, "KEY_LOCATIONS")
    names = rs.eval_const(KB_RS, "KEY_NAMES")
    cols = rs.eval_const(KB_RS, "KEY_COLUMNS")
    rows = rs.eval_const(KB_RS, "KEY_ROWS")
    ctx.need(isinstance(locs, dict) and len(locs) > 60, "KEY_LOCATIONS did not fold to a table")
    ctx.need(len(names) == rows * cols, f"KEY_NAMES has {len(names)} entries, not {rows}x{cols}")
    rust = {}
    for i, nm in enumerate(names):
        if nm is not None:
            rust[nm] = (i % cols, i // cols)
    pyl = {k: (v.kwargs["column"], v.kwargs["row"]) for k, v in locs.items()}
    for k in sorted(set(rust) | set(pyl)):
        n += 1
        if rust.get(k) != pyl.get(k):
            ctx.violation("C14.1/key-layout", f"{rel}::KEY_NAMES[{k}]", f"key {k}: Python (column,row)={pyl.get(k)}, Rust={rust.get(k)}", rel)
    # row-major indexing used consistently in Rust (idx = row * KEY_COLUMNS + col; code = col<<3 | row)
    ctx.instance("C14.1/constants-layout", "keyboard constants and the 8x11 key layout, Python vs Rust", n, 80)
    ctx.sample({"KEY_Q": {"python": pyl.get("KEY_Q"), "rust": rust.get("KEY_Q")}, "FIFO_SIZE": py.value(KM_PY, "FIFO_SIZE")})


# ---------------------------------------------------------------------------
def _py_bounded(v: ast.AST, size_name: str) -> bool:
    if isinstance(v, ast.Constant) and v.value == 0:
        return True
    if isinstance(v, ast.BinOp) and isinstance(v.op, ast.Mod) and unparse(v.right) == size_name:
        return True
    if isinstance(v, ast.Name):
        return False
    return False


def _rs_bounded(e: dict, size_name: str) -> bool:
    t = expr_text(e)
    if e.get("k") == "lit" and t == "0":
        return True
    if e.get("k") == "binary" and e["op"] == "%" and expr_text(e["r"]) == size_name:
        return True
    if e.get("k") == "mcall" and e["m"] == "min" and expr_text(e["args"][0]) in (f"{size_name}.saturating_sub(1)", f"{size_name}-1"):
        return True
    return False


def fifo_bounds(ctx: Ctx, py: PyProgram, rs: RustProgram) -> None:
    mod = py.module(KM_PY)
    cls = py.need_cls(mod, "KeyboardMatrix")
    n = 0
    # Python: all writes of _head/_tail in the class
    local_aliases: dict[str, ast.AST] = {}
    for mname, m in cls.methods.items():
        defs = py_defs(m)
        for st in ast.walk(m):
            if isinstance(st, ast.Assign):
                for t in st.targets:
                    ch = attr_chain(t)
                    if ch in ("self._head", "self._tail"):
                        n += 1
                        v = st.value
                        ok = _py_bounded(v, "FIFO_SIZE")
                        if not ok and isinstance(v, ast.Name):
                            ds = [d for d in defs.get(v.id, []) if isinstance(d, ast.AST)]
                            ok = bool(ds) and all(_py_bounded(d, "FIFO_SIZE") for d in ds)
                        if not ok:
                            ctx.violation("C14.1/fifo-index", key_of(KM_PY, f"KeyboardMatrix.{mname}", f"{ch} = {unparse(v)}"),
                                          f"{ch} is assigned `{unparse(v)}`, not provably inside [0, FIFO_SIZE)", f"{KM_PY}:{st.lineno}")
                    if ch == "self._fifo":
                        n += 1
                        if not (isinstance(st.value, ast.BinOp) and isinstance(st.value.op, ast.Mult) and "FIFO_SIZE" in unparse(st.value)):
                            ctx.violation("C14.1/fifo-storage", key_of(KM_PY, f"KeyboardMatrix.{mname}", f"self._fifo = {unparse(st.value)}"),
                                          "the queue storage is replaced by something other than a FIFO_SIZE-long list", f"{KM_PY}:{st.lineno}")
            elif isinstance(st, ast.AugAssign) and attr_chain(st.target) in ("self._head", "self._tail"):
                n += 1
                ctx.violation("C14.1/fifo-index", key_of(KM_PY, f"KeyboardMatrix.{mname}", unparse(st)), f"unbounded in-place update `{unparse(st)}`", f"{KM_PY}:{st.lineno}")
    # element stores use head/tail/loop index bounded by FIFO_SIZE
    for mname, m in cls.methods.items():
        for st in ast.walk(m):
            if isinstance(st, ast.Assign):
                for t in st.targets:
                    if isinstance(t, ast.Subscript) and attr_chain(t.value) == "self._fifo":
                        n += 1
                        idx = unparse(t.slice)
                        ok = idx in ("self._tail", "self._head")
                        if not ok and isinstance(t.slice, ast.Name):
                            # loop index `for idx in range(FIFO_SIZE)`
                            for lp in ast.walk(m):
                                if isinstance(lp, ast.For) and isinstance(lp.target, ast.Name) and lp.target.id == t.slice.id and unparse(lp.iter) == "range(FIFO_SIZE)":
                                    ok = True
                        if not ok:
                            ctx.violation("C14.1/fifo-index", key_of(KM_PY, f"KeyboardMatrix.{mname}", f"self._fifo[{idx}] ="), f"queue store with index `{idx}` that is not a bounded index", f"{KM_PY}:{st.lineno}")
    # Python drop-oldest: in _enqueue_event the full test's true branch advances head before the store
    enq = cls.methods.get("_enqueue_event")
    ctx.need(enq is not None, "KeyboardMatrix._enqueue_event vanished")
    g = cfgmod.build_py(enq, "_enqueue_event")
    full = [nd.id for nd in g.nodes if nd.kind == "guard" and isinstance(nd.guard[0], ast.Compare) and nd.guard[1] and "self._head" in unparse(nd.guard[0]) and isinstance(nd.guard[0].ops[0], ast.Eq)]
    store = [g.node_of(st) for st in ast.walk(enq) if isinstance(st, ast.Assign) and any(isinstance(t, ast.Subscript) and attr_chain(t.value) == "self._fifo" for t in st.targets)]
    adv = [g.node_of(st) for st in ast.walk(enq) if isinstance(st, ast.Assign) and any(attr_chain(t) == "self._head" for t in st.targets)]
    n += 1
    if len(full) != 1 or len(store) != 1 or not adv:
        ctx.violation("C14.1/drop-oldest", key_of(KM_PY, "KeyboardMatrix._enqueue_event", "full-check"), "full-queue test / head advance / store not found in _enqueue_event", f"{KM_PY}:{enq.lineno}")
    else:
        if store[0] in g.reachable_from(full[0], avoid=adv):
            ctx.violation("C14.1/drop-oldest", key_of(KM_PY, "KeyboardMatrix._enqueue_event", "full->store"), "a full queue can be written without dropping its oldest entry (head not advanced)", f"{KM_PY}:{enq.lineno}")
        # the full test compares next_tail (=(tail+1)%SIZE) with head
        d = py_defs(enq)
        cmp = g.nodes[full[0]].guard[0]
        lv = py_leaves(cmp, d)
        if not ({"self._tail", "self._head", "FIFO_SIZE"} <= lv):
            ctx.violation("C14.1/drop-oldest", key_of(KM_PY, "KeyboardMatrix._enqueue_event", "full-test"), f"full-queue test `{unparse(cmp)}` does not compare the advanced tail with the head", f"{KM_PY}:{enq.lineno}")
    # Rust
    rel = rs.file_for(KB_RS)
    for fn in rs.fns_in(KB_RS):
        if fn.impl_ty != "KeyboardMatrix" or fn.body is None:
            continue
        for a in walk(fn.body):
            if a.get("k") == "assign" and expr_text(a["l"]) in ("self.fifo_head", "self.fifo_tail"):
                n += 1
                if not _rs_bounded(a["r"], "FIFO_SIZE"):
                    ctx.violation("C14.1/fifo-index", key_of(rel, fn.qual, f"{expr_text(a['l'])} = {expr_text(a['r'])}"),
                                  f"{expr_text(a['l'])} is assigned `{expr_text(a['r'])}`, not provably inside [0, FIFO_SIZE)", f"{rel}:{a['ln']}")
            elif a.get("k") == "opassign" and expr_text(a["l"]) in ("self.fifo_head", "self.fifo_tail"):
                n += 1
                ctx.violation("C14.1/fifo-index", key_of(rel, fn.qual, expr_text(a)), f"unbounded in-place update `{expr_text(a)}`", f"{rel}:{a['ln']}")
            elif a.get("k") == "assign" and a["l"].get("k") == "index" and expr_text(a["l"]["e"]) == "self.fifo_storage":
                n += 1
                idx = expr_text(a["l"]["i"])
                ok = idx in ("self.fifo_tail", "self.fifo_head")
                if not ok:
                    # `for (idx, byte) in ....take(FIFO_SIZE)`
                    for lp in walk(fn.body):
                        if lp.get("k") == "for" and idx in pat_text(lp["pat"]).replace("(", ",").replace(")", ",").split(",") and "take(FIFO_SIZE)" in expr_text(lp["iter"]):
                            ok = True
                if not ok:
                    ctx.violation("C14.1/fifo-index", key_of(rel, fn.qual, f"fifo_storage[{idx}] ="), f"queue store with index `{idx}` that is not a bounded index", f"{rel}:{a['ln']}")
    enq = rs.fn(KB_RS, "KeyboardMatrix::enqueue_event")
    g = cfgmod.build_rs(enq.node, enq.qual)
    full = [nd.id for nd in g.nodes if nd.kind == "guard" and isinstance(nd.guard[0], dict) and nd.guard[1] and expr_text(nd.guard[0]) in ("self.fifo_count==FIFO_SIZE", "self.fifo_count>=FIFO_SIZE")]
    store = [g.node_of(a) for a in walk(enq.body) if a.get("k") == "assign" and a["l"].get("k") == "index" and expr_text(a["l"]["e"]) == "self.fifo_storage"]
    adv = [g.node_of(a) for a in walk(enq.body) if a.get("k") == "assign" and expr_text(a["l"]) == "self.fifo_head"]
    dec = [g.node_of(a) for a in walk(enq.body) if a.get("k") == "opassign" and expr_text(a["l"]) == "self.fifo_count" and a["op"] == "-"]
    inc = [g.node_of(a) for a in walk(enq.body) if a.get("k") == "opassign" and expr_text(a["l"]) == "self.fifo_count" and a["op"] == "+"]
    n += 1
    if len(full) != 1 or len(store) != 1 or not adv or not dec or len(inc) != 1:
        ctx.violation("C14.1/drop-oldest", key_of(rel, enq.qual, "full-check"), "full-queue test / head advance / count decrement / store not found in enqueue_event", enq.where)
    else:
        if store[0] in g.reachable_from(full[0], avoid=adv) or store[0] in g.reachable_from(full[0], avoid=dec):
            ctx.violation("C14.1/drop-oldest", key_of(rel, enq.qual, "full->store"), "a full queue can be written without dropping its oldest entry (head advance and count decrement)", enq.where)
        # count only grows after passing the full-check: inc is reachable from entry only through the check statement
        chk = [nd.id for nd in g.nodes if nd.kind == "stmt" and nd.note == "if-cond" and isinstance(nd.ast, dict) and "fifo_count" in expr_text(nd.ast)]
        if not chk or not g.dominates(chk[0], inc[0]):
            ctx.violation("C14.1/fifo-count", key_of(rel, enq.qual, "fifo_count += 1"), "the queue length is incremented on a path that skips the capacity check", enq.where)
    # other writers of fifo_count
    for fn in rs.fns_in(KB_RS):
        if fn.impl_ty != "KeyboardMatrix" or fn.body is None or fn.name == "enqueue_event":
            continue
        for a in walk(fn.body):
            if a.get("k") in ("assign", "opassign") and expr_text(a["l"]) == "self.fifo_count":
                n += 1
                r = a["r"]
                ok = a["k"] == "assign" and (expr_text(r) == "0" or (r.get("k") == "mcall" and r["m"] == "min" and expr_text(r["args"][0]) == "FIFO_SIZE"))
                if not ok:
                    ctx.violation("C14.1/fifo-count", key_of(rel, fn.qual, expr_text(a)), f"queue length written as `{expr_text(a)}` outside enqueue_event: capacity not provable", f"{rel}:{a['ln']}")
    ctx.instance("C14.1/fifo-bounds", "FIFO index/count/storage writes bounded; full queue drops oldest before store (Python + Rust)", n, 22)


# ---------------------------------------------------------------------------
def kil_guards(ctx: Ctx, py: PyProgram, rs: RustProgram) -> None:
    n = 0
    mod = py.module(KM_PY)
    cls = py.need_cls(mod, "KeyboardMatrix")
    for mname, m in cls.methods.items():
        sites = [st for st in ast.walk(m) if isinstance(st, ast.AugAssign) and isinstance(st.op, ast.BitOr) and isinstance(st.value, ast.BinOp)
                 and isinstance(st.value.op, ast.LShift) and "row" in unparse(st.value.right)]
        if not sites:
            continue
        g = cfgmod.build_py(m, mname)
        d = py_defs(m)
        for st in sites:
            n += 1
            gs = g.guards_of(g.node_of(st))
            texts = [py_guard_text(x) for x in gs]
            col_ok = False
            for a, pol, _o in gs:
                if isinstance(a, ast.Compare) and len(a.ops) == 1 and "location.column" in unparse(a.left):
                    if (isinstance(a.ops[0], ast.NotIn) and not pol) or (isinstance(a.ops[0], ast.In) and pol):
                        lv = py_leaves(a.comparators[0], d)
                        if "self._active_columns" in lv or ".active_columns" in "".join(lv) or "_active_columns" in "".join(lv):
                            col_ok = True
            if not col_ok:
                ctx.violation("C14.2/kil-column", key_of(KM_PY, f"KeyboardMatrix.{mname}", unparse(st)), "a row bit is OR-ed into the key-input value without the active-column test", f"{KM_PY}:{st.lineno}", guards=texts)
            if not any("debounced" in t for t in texts):
                ctx.violation("C14.2/kil-state", key_of(KM_PY, f"KeyboardMatrix.{mname}", unparse(st) + ":state"), "a row bit is OR-ed without the debounced/pending-press test", f"{KM_PY}:{st.lineno}", guards=texts)
            ctx.sample({"site": f"{KM_PY}:{st.lineno}", "guards": texts})
    # active columns only from kol/koh/polarity
    ac = cls.methods.get("_active_columns")
    ctx.need(ac is not None, "_active_columns vanished")
    selfattrs = {attr_chain(a) for a in ast.walk(ac) if isinstance(a, ast.Attribute) and attr_chain(a) and attr_chain(a).startswith("self.")}
    n += 1
    if not selfattrs <= {"self.kol", "self.koh", "self.columns_active_high"}:
        ctx.violation("C14.2/active-columns", key_of(KM_PY, "KeyboardMatrix._active_columns", "inputs"), f"active columns depend on {sorted(selfattrs)}; only the strobe registers and polarity may decide", f"{KM_PY}:{ac.lineno}")
    # Rust
    rel = rs.file_for(KB_RS)
    for fn in rs.fns_in(KB_RS):
        if fn.impl_ty != "KeyboardMatrix" or fn.body is None:
            continue
        sites = [a for a in walk(fn.body) if a.get("k") == "opassign" and a["op"] == "|" and a["r"].get("k") == "binary" and a["r"]["op"] == "<<" and "row" in expr_text(a["r"]["r"])]
        if not sites:
            continue
        g = cfgmod.build_rs(fn.node, fn.qual)
        d = rs_defs(fn.body)
        for a in sites:
            n += 1
            gs = g.guards_of(g.node_of(a))
            texts = [rs_guard_text(x) for x in gs]
            col_ok = False
            for at, pol, _o in gs:
                if isinstance(at, dict) and at.get("k") == "mcall" and at["m"] == "contains" and "location.column" in expr_text(at["args"][0]) and pol:
                    if ".active_columns()" in rs_leaves(at["recv"], d):
                        col_ok = True
            if not col_ok:
                ctx.violation("C14.2/kil-column", key_of(rel, fn.qual, f"row bit OR #{sites.index(a) + 1} without the active-column test"), "a row bit is OR-ed into the key-input value without the active-column test", f"{rel}:{a['ln']}", guards=texts)
            if not any("debounced" in t or "pressed" in t for t in texts):
                ctx.violation("C14.2/kil-state", key_of(rel, fn.qual, f"row bit OR #{sites.index(a) + 1} without a key-state test"), "a row bit is OR-ed without a key-state test", f"{rel}:{a['ln']}", guards=texts)
            ctx.sample({"site": f"{rel}:{a['ln']}", "fn": fn.qual, "guards": texts})
    ac = rs.fn(KB_RS, "KeyboardMatrix::active_columns")
    fields = {expr_text(f) for f in walk(ac.body) if f.get("k") == "field" and expr_text(f).startswith("self.")}
    n += 1
    if not fields <= {"self.kol", "self.koh", "self.columns_active_high"}:
        ctx.violation("C14.2/active-columns", key_of(rel, ac.qual, "inputs"), f"active columns depend on {sorted(fields)}", ac.where)
    ctx.instance("C14.2/kil-guards", "row-bit OR sites dominated by active-column + key-state tests; active columns from strobe registers only", n, 6)


# ---------------------------------------------------------------------------
def keyi_guards(ctx: Ctx, py: PyProgram, rs: RustProgram) -> None:
    n = 0
    # Rust: KEYI assertion site = a write to ISR (offset 0xFC) whose value ORs in a constant with bit 2 set.
    # Scope (frozen): the keyboard event path of the property's alphabet; other writers are listed as observations.
    scope = {"KeyboardMatrix::write_fifo_to_memory", "TimerContext::tick_timers_with_keyboard", "CoreRuntime::refresh_key_irq_latch"}
    for suffix in (KB_RS, TIMER_RS, isa.LIB_RS):
        rel = rs.file_for(suffix)
        ev = rs.evaluator(suffix)
        for fn in rs.fns_in(suffix):
            if fn.body is None:
                continue
            d = rs_defs(fn.body)
            hits = []
            for c in walk(fn.body):
                if c.get("k") == "mcall" and c["m"] == "write_internal_byte" and len(c["args"]) == 2:
                    try:
                        off = ev.eval(c["args"][0])
                    except Exception:
                        continue
                    if off != 0xFC:
                        continue
                    cands = [c["args"][1]]
                    if c["args"][1].get("k") == "path":
                        cands += [x for x in d.get(c["args"][1]["p"], []) if isinstance(x, dict)]
                    keyi = False
                    for v in cands:
                        for b in walk(v):
                            if b.get("k") == "binary" and b["op"] == "|":
                                for m in (b["l"], b["r"]):
                                    try:
                                        mv = ev.eval(m)
                                    except Exception:
                                        continue
                                    if isinstance(mv, int) and mv & 0x04:
                                        keyi = True
                    if keyi:
                        hits.append(c)
            if not hits:
                continue
            if fn.qual not in scope:
                ctx.observe(f"{rel}::{fn.qual} also asserts ISR bit 2 (outside the keyboard event path checked by C14.3)")
                continue
            g = cfgmod.build_rs(fn.node, fn.qual)
            for a in hits:
                node = g.node_of(a)
                ctx.need(node is not None, f"{fn.qual}: KEYI site has no CFG node")
                n += 1
                gs = g.guards_of(node)
                texts = [rs_guard_text(x) for x in gs]
                lv: set[str] = set()
                for at, pol, _o in gs:
                    if isinstance(at, dict) and pol:
                        lv |= rs_leaves(at, d)
                        lv.add(expr_text(at))
                latch = any("latch" in l for l in lv)
                enabled_events = any("kb_irq_enabled" in l for l in lv) and any(("events" in l or "fifo_count" in l) for l in lv)
                if not (latch or enabled_events):
                    ctx.violation("C14.3/keyi-gate", key_of(rel, fn.qual, expr_text(a)), "KEYI is asserted without a dominating latch or (keyboard IRQ enabled and events pending) test", f"{rel}:{a['ln']}", guards=texts)
                ctx.sample({"site": f"{rel}:{a['ln']}", "fn": fn.qual, "guards": texts[:6]})
    # latch definitions in timer.rs: key_irq_latched = latch_active = had_latch || (kb_irq_enabled && key_events > 0)
    fn = rs.fn(TIMER_RS, "TimerContext::tick_timers_with_keyboard")
    d = rs_defs(fn.body)
    asg = [a for a in walk(fn.body) if a.get("k") == "assign" and expr_text(a["l"]) == "self.key_irq_latched"]
    n += 1
    ok = False
    for a in asg:
        lv = rs_leaves(a["r"], d)
        if "self.key_irq_latched" in lv and "self.kb_irq_enabled" in lv and any("#0" == l for l in lv):
            ok = True
    if not ok:
        ctx.violation("C14.3/latch-def", key_of(fn.file, fn.qual, "self.key_irq_latched ="), "the key IRQ latch is not defined as old-latch or (enabled and new events)", fn.where)
    # Python: _set_isr_bits(KEYI) sites
    mod = py.module(EMU)
    cls = py.need_cls(mod, "PCE500Emulator")
    # every method that asserts KEYI is on the keyboard event path and must satisfy the gate, except the ones listed here with a reason
    py_exempt = {"notify_lcd_interrupt": "LCD-write nudge of the pure-Rust LCD path (not a keyboard event), gated on the IRQ enable only",
                 "_set_isr_bits": "the ISR OR-helper itself"}
    for mname, m in cls.methods.items():
        hits = [c for c in ast.walk(m) if py_is_call(c, "self._set_isr_bits") and c.args and "KEYI" in unparse(c.args[0])]
        if not hits:
            continue
        if mname in py_exempt:
            ctx.observe(f"{EMU}::PCE500Emulator.{mname} also asserts KEYI ({py_exempt[mname]})")
            continue
        g = cfgmod.build_py(m, mname)
        for c in hits:
            n += 1
            gs = g.guards_of(g.node_of(c))
            texts = [py_guard_text(x) for x in gs]
            cex = _gate_counterexample([(a, pol) for a, pol, _o in gs if isinstance(a, ast.AST)], defs=py_defs(m))
            if cex is not None:
                ctx.violation("C14.3/keyi-gate", key_of(EMU, f"PCE500Emulator.{mname}", unparse(c)),
                              f"KEYI can be asserted with neither the latch set nor (keyboard IRQ enabled and events pending): the guards are satisfied by {cex}", f"{EMU}:{c.lineno}", guards=texts)
            ctx.sample({"site": f"{EMU}:{c.lineno}", "fn": mname, "guards": texts[:6]})
        for st in ast.walk(m):
            if isinstance(st, ast.Assign) and any(attr_chain(t) == "self._key_irq_latched" for t in st.targets) and isinstance(st.value, ast.Constant) and st.value.value is True:
                n += 1
                gs = g.guards_of(g.node_of(st))
                cex = _gate_counterexample([(a, pol) for a, pol, _o in gs if isinstance(a, ast.AST)], allow_latch=False, defs=py_defs(m))
                if cex is not None:
                    ctx.violation("C14.3/latch-def", key_of(EMU, f"PCE500Emulator.{mname}", "_key_irq_latched = True"), f"the key IRQ latch can be set without (enabled and events): guards satisfied by {cex}", f"{EMU}:{st.lineno}", guards=[py_guard_text(x) for x in gs])
    ctx.instance("C14.3/keyi-gate", "KEYI assertion and latch-set sites gated by latch or (enabled and events), both cores", n, 9)


def _atoms(e: ast.AST, out: list) -> None:
    if isinstance(e, ast.BoolOp):
        for v in e.values:
            _atoms(v, out)
    elif isinstance(e, ast.UnaryOp) and isinstance(e.op, ast.Not):
        _atoms(e.operand, out)
    else:
        t = unparse(e)
        if t not in out:
            out.append(t)


def _evalb(e: ast.AST, val: dict) -> bool:
    if isinstance(e, ast.BoolOp):
        vs = [_evalb(v, val) for v in e.values]
        return all(vs) if isinstance(e.op, ast.And) else any(vs)
    if isinstance(e, ast.UnaryOp) and isinstance(e.op, ast.Not):
        return not _evalb(e.operand, val)
    return val[unparse(e)]


def _gate_counterexample(guards: list, allow_latch: bool = True, defs: dict | None = None) -> dict | None:
    """Propositional check (truth table over the guard atoms): do the dominating guards imply
    `latch or (keyboard IRQ enabled and (new events or queued events))`?  Returns a falsifying assignment or None.
    An atom's role (latch / enabled / events) is read off the atom with its locals replaced by what they were computed from."""
    atoms: list[str] = []
    for g, _pol in guards:
        _atoms(g, atoms)
    defs = defs or {}

    def describe(atom: str, depth: int = 0) -> str:
        out = atom
        if depth < 3:
            try:
                tree = ast.parse(atom, mode="eval")
            except SyntaxError:
                return out
            for nm in {x.id for x in ast.walk(tree) if isinstance(x, ast.Name)}:
                for v in defs.get(nm, []):
                    if isinstance(v, ast.AST):
                        out += " <- " + describe(unparse(v), depth + 1)
        return out
    desc = {a: describe(a) for a in atoms}
    if len(atoms) > 14:
        raise AnalysisError("KEYI gate has more than 14 guard atoms")
    import itertools
    for bits in itertools.product((False, True), repeat=len(atoms)):
        val = dict(zip(atoms, bits))
        if not all(_evalb(g, val) == pol for g, pol in guards):
            continue
        def is_events(a: str) -> bool:
            return any(k in desc[a] for k in ("scan_tick", "fifo"))     # results of a scan or of a FIFO query, however the locals are called
        latch = allow_latch and any(v for a, v in val.items() if "_key_irq_latched" in desc[a])
        enabled = any(v for a, v in val.items() if "_kb_irq_enabled" in desc[a])
        events = any(v for a, v in val.items() if is_events(a))
        if not (latch or (enabled and events)):
            return {a: v for a, v in val.items() if "_kb_irq_enabled" in desc[a] or is_events(a) or "latch" in desc[a]}
    return None


# ---------------------------------------------------------------------------
_NORM = {
    # frozen normalisation table, one reason per line
    "state.press_ticks = state.press_ticks.saturating_add(1)": "state.press_ticks += 1",      # u8 saturating add vs int add
    "state.release_ticks = state.release_ticks.saturating_add(1)": "state.release_ticks += 1",  # same
    "state.repeat_ticks = state.repeat_ticks.saturating_sub(1)": "state.repeat_ticks -= 1",    # Python guards the decrement with `> 0`
    "state.debounced = true": "state.debounced = True",
    "state.debounced = false": "state.debounced = False",
    "state.repeat_ticks = self.repeat_interval if self.repeat_interval > 0 else 0": "state.repeat_ticks = self.repeat_interval",  # identical under the enclosing guard
}


def sibling_skeleton(ctx: Ctx, py: PyProgram, rs: RustProgram) -> None:
    """Compare {(field-assignment, [state guards])} of the debounce automaton."""
    m = py.func(KM_PY, "KeyboardMatrix._update_key_state")
    g = cfgmod.build_py(m, "_update_key_state")

    def expand(t: str, defs: dict, show) -> str:
        # locals in a guard are replaced by their (single) definition, so that both languages are compared on state fields and
        # parameters only, whatever the intermediate values are called
        for _ in range(3):
            changed = False
            for nm, vs in defs.items():
                vs = [v for v in vs if not isinstance(v, (str, tuple))]
                if len(vs) == 1 and re.search(rf"(?<![\w.]){re.escape(nm)}(?![\w(.])", t):
                    t = re.sub(rf"(?<![\w.]){re.escape(nm)}(?![\w(.])", "(" + show(vs[0]) + ")", t)
                    changed = True
            if not changed:
                break
        return t

    def norm_guard(t: str) -> str | None:
        t = t.replace(" ", "")
        if "location.column" in t:
            return ("!" if t.startswith("NOT") else "") + "strobed"
        for k in ("state.pressed", "state.debounced", "press_ticks>=self.press_threshold", "release_ticks>=self.release_threshold"):
            if k in t:
                neg = t.startswith("NOT")
                return ("!" if neg else "") + k
        if "repeat_interval>0" in t or "repeat_enabled" in t:
            return ("!" if t.startswith("NOT") else "") + "auto-repeat"
        return None

    def for_field(target: str, gs: tuple) -> tuple:
        # the auto-repeat switch may only gate the repeat counter: on every other field it is part of the guard that must agree
        if "repeat_ticks" in target.split("=")[0]:
            return tuple(x for x in gs if "auto-repeat" not in x)
        return gs
    pyset = set()
    pydefs = py_defs(m)
    for st in ast.walk(m):
        tgt = None
        if isinstance(st, ast.Assign) and len(st.targets) == 1 and (attr_chain(st.targets[0]) or "").startswith("state."):
            tgt = unparse(st)
        elif isinstance(st, ast.AugAssign) and (attr_chain(st.target) or "").startswith("state."):
            tgt = unparse(st)
        if tgt:
            gs = tuple(x for x in (norm_guard(expand(py_guard_text(q), pydefs, unparse)) for q in g.guards_of(g.node_of(st))) if x)
            pyset.add((_NORM.get(tgt, tgt), for_field(tgt, gs)))
    fn = rs.fn(KB_RS, "KeyboardMatrix::scan_tick")
    gr = cfgmod.build_rs(fn.node, fn.qual)
    rsset = set()
    rsdefs = {k: [v for v in vs if isinstance(v, dict)] for k, vs in rs_defs(fn.body).items()}
    # the per-key record: the local bound to an element of self.states (whatever it is called) is written `state`
    recs = [k for k, vs in rsdefs.items() if len(vs) == 1 and "self.states[" in expr_text(vs[0]).replace(" ", "")]
    ctx.need(len(recs) == 1, f"scan_tick: the per-key state binding was not identified ({recs})")
    rec = recs[0]
    rsdefs.pop(rec, None)

    def st_(t: str) -> str:
        return re.sub(rf"(?<![\w.]){re.escape(rec)}(?=\.)", "state", t)
    for a in walk(fn.body):
        if a.get("k") in ("assign", "opassign") and expr_text(a["l"]).startswith(rec + "."):
            node = gr.node_of(a)
            if node is None:
                continue
            txt = st_(f"{expr_text(a['l'])} = {expr_text(a['r'])}" if a["k"] == "assign" else f"{expr_text(a['l'])} {a['op']}= {expr_text(a['r'])}")
            gs = tuple(x for x in (norm_guard(st_(expand(rs_guard_text(q), rsdefs, expr_text))) for q in gr.guards_of(node)) if x)
            rsset.add((_NORM.get(txt, txt), for_field(txt, gs)))
    only_py = sorted(pyset - rsset)
    only_rs = sorted(rsset - pyset)
    n = len(pyset | rsset)
    for item in only_py:
        ctx.violation("C14.4/sibling", key_of(KM_PY, "_update_key_state", f"{item[0]} under {list(item[1])}"), f"debounce automaton: Python performs `{item[0]}` under {list(item[1])}; Rust scan_tick has no matching guarded assignment", KM_PY)
    for item in only_rs:
        ctx.violation("C14.4/sibling", key_of(rs.file_for(KB_RS), "scan_tick", f"{item[0]} under {list(item[1])}"), f"debounce automaton: Rust performs `{item[0]}` under {list(item[1])}; Python _update_key_state has no matching guarded assignment", rs.file_for(KB_RS))
    ctx.instance("C14.4/sibling", "guarded state assignments of the debounce automaton, Python vs Rust", n, 10)


def active_columns_table(ctx: Ctx, py: PyProgram, rs: RustProgram) -> None:
    """_active_columns / active_columns evaluated for every strobe value (KOL x KOH low nibble x polarity) by the constant evaluators:
    column c < COLUMN_COUNT is active iff strobe bit c equals the polarity."""
    from ..pyfacts import NotConst, Term, _Return
    from ..rsfacts import RsInterp
    mod = py.module(KM_PY)
    ncol = PyEval(py, mod).eval(ast.Name(id="COLUMN_COUNT", ctx=ast.Load()))
    fn = py.func(KM_PY, "KeyboardMatrix._active_columns")
    class _It(RsInterp):
        def call_hook(self, path: str, args: list, env: dict, e: dict) -> Any:
            if path in ("Vec::new", "Vec::with_capacity"):
                return []
            return NotImplemented
    it = _It(rs, KB_RS)
    rfn = rs.fn(KB_RS, "KeyboardMatrix::active_columns")
    n = 0
    bad_py: list = []
    bad_rs: list = []
    for high in (True, False):
        for koh in range(16):
            for kol in range(256):
                n += 1
                want = [c for c in range(ncol) if (((kol | (koh << 8)) >> c) & 1) == (1 if high else 0)]
                selfobj = Term("KeyboardMatrix", (), {"kol": kol, "koh": koh, "columns_active_high": high})
                ev = PyEval(py, mod, {"self": selfobj}, budget=[20000])
                try:
                    try:
                        ev.exec_block(fn.body)
                        got = None
                    except _Return as r:
                        got = r.v
                except NotConst as e:
                    raise AnalysisError(f"_active_columns left the evaluable fragment: {e}")
                got_l = sorted(c for c in (got or []) if c < ncol)
                if got_l != want and len(bad_py) < 3:
                    bad_py.append((kol, koh, high, got_l, want))
                if kol % 17 == 0 or kol in (0, 255):        # the Rust twin on a sample of the same grid (same function shape per bit)
                    try:
                        from ..rsfacts import _RsReturn
                        try:
                            rg = it.block(rfn.body, {"self": {"__struct__": "KeyboardMatrix", "kol": kol, "koh": koh, "columns_active_high": high}})
                        except _RsReturn as rr:
                            rg = rr.v
                    except Exception as e:  # noqa: BLE001
                        raise AnalysisError(f"active_columns (Rust) left the evaluable fragment: {e}")
                    rg_l = sorted(c for c in (rg or []) if c < ncol)
                    if rg_l != want and len(bad_rs) < 3:
                        bad_rs.append((kol, koh, high, rg_l, want))
    for kol, koh, high, got_l, want in bad_py[:1]:
        ctx.violation("C14.2/active-columns-table", key_of(KM_PY, "KeyboardMatrix._active_columns", "strobe decoding"),
                      f"_active_columns: with KOL={kol:#04x} KOH={koh:#03x} columns_active_high={high} the strobed columns are {want} but the function returns {got_l}", f"{KM_PY}:{fn.lineno}")
    for kol, koh, high, got_l, want in bad_rs[:1]:
        ctx.violation("C14.2/active-columns-table", key_of(rs.file_for(KB_RS), "KeyboardMatrix::active_columns", "strobe decoding"),
                      f"active_columns (Rust): with KOL={kol:#04x} KOH={koh:#03x} columns_active_high={high} the strobed columns are {want} but the function returns {got_l}", rs.file_for(KB_RS))
    ctx.instance("C14.2/active-columns-table", "strobe register values x polarity: active column set == bits of KOL | KOH<<8 matching the polarity", n, 8192)


def debounce_arms_repeat(ctx: Ctx, py: PyProgram, rs: RustProgram) -> None:
    """Wherever a key becomes debounced (scan path or injected event) the repeat counter is armed with the configured delay under the
    same condition - otherwise the first repeat comes off cadence."""
    n = 0
    cls = py.need_cls(py.module(KM_PY), "KeyboardMatrix")
    for mname, m in cls.methods.items():
        g = None
        sites = [a for a in ast.walk(m) if isinstance(a, ast.Assign) and any(isinstance(t, ast.Attribute) and t.attr == "debounced" and isinstance(t.value, ast.Name) for t in a.targets) and not (isinstance(a.value, ast.Constant) and a.value.value is False)]
        if not sites or mname in ("load_state",):
            continue
        g = cfgmod.build_py(m, mname)
        arms = [a for a in ast.walk(m) if isinstance(a, ast.Assign) and any(isinstance(t, ast.Attribute) and t.attr == "repeat_ticks" and isinstance(t.value, ast.Name) for t in a.targets) and "repeat_delay" in unparse(a.value)]
        for st in sites:
            n += 1
            sg = {(unparse(x), pol) for x, pol, _o in g.guards_of(g.node_of(st)) if isinstance(x, ast.AST)}
            ok = any({(unparse(x), pol) for x, pol, _o in g.guards_of(g.node_of(a)) if isinstance(x, ast.AST)} <= sg for a in arms)
            if not ok:
                ctx.violation("C14.4/debounce-arms-repeat", key_of(KM_PY, f"KeyboardMatrix.{mname}", "debounced set without arming repeat_delay"),
                              f"KeyboardMatrix.{mname} marks a key debounced (`{unparse(st)}`) without setting state.repeat_ticks to self.repeat_delay under the same condition: the first repeat event does not wait for the configured delay", f"{KM_PY}:{st.lineno}")
    rel = rs.file_for(KB_RS)
    for fn in rs.fns_in(KB_RS):
        if fn.impl_ty != "KeyboardMatrix" or fn.body is None or fn.name in ("load_snapshot", "apply_snapshot", "restore_snapshot"):
            continue
        sites = [a for a in walk(fn.body) if a.get("k") == "assign" and a["l"].get("k") == "field" and a["l"].get("name") == "debounced" and expr_text(a["r"]) == "true"]
        if not sites:
            continue
        g = cfgmod.build_rs(fn.node, fn.qual)
        arms = [a for a in walk(fn.body) if a.get("k") == "assign" and a["l"].get("k") == "field" and a["l"].get("name") == "repeat_ticks" and "repeat_delay" in expr_text(a["r"])]
        for st in sites:
            n += 1
            sg = {(expr_text(x), pol) for x, pol, _o in g.guards_of(g.node_of(st)) if isinstance(x, dict)}
            ok = any({(expr_text(x), pol) for x, pol, _o in g.guards_of(g.node_of(a)) if isinstance(x, dict)} <= sg for a in arms)
            if not ok:
                ctx.violation("C14.4/debounce-arms-repeat", key_of(rel, fn.qual, "debounced set without arming repeat_delay"), f"{fn.qual} marks a key debounced without setting repeat_ticks to repeat_delay under the same condition", f"{rel}:{st['ln']}")
    ctx.instance("C14.4/debounce-arms-repeat", "sites that mark a key debounced and arm the repeat counter with the configured delay (both cores)", n, 3)


KH_PY = "pce500/keyboard_handler.py"


def kil_read_fresh(ctx: Ctx, py: PyProgram) -> None:
    """A key-input read shows the matrix as it is now: every value returned by the KIL branch of handle_register_read is 0 (scan disabled)
    or comes from a matrix query (peek_kil / _compute_kil) made in the same call - a cached copy refreshed elsewhere goes stale when
    the strobe changes."""
    ctx.file_used(REPO / KH_PY)
    fn = py.func(KH_PY, "PCE500KeyboardHandler.handle_register_read")
    g = cfgmod.build_py(fn, "handle_register_read")
    rets = [r for r in ast.walk(fn) if isinstance(r, ast.Return) and r.value is not None]
    kil_rets = []
    for r in rets:
        gs = [(unparse(x), pol) for x, pol, _o in g.guards_of(g.node_of(r)) if isinstance(x, ast.AST)]
        if any("KIL" in t and pol for t, pol in gs):
            kil_rets.append(r)
    if not kil_rets:
        raise AnalysisError("handle_register_read: returns of the KIL branch not found")
    fresh_assigns = [a for a in ast.walk(fn) if isinstance(a, ast.Assign) and any(isinstance(c, ast.Call) and unparse(c.func).endswith(("peek_kil", "_compute_kil")) for c in ast.walk(a.value))]
    n = 0
    for r in kil_rets:
        n += 1
        v = r.value
        if isinstance(v, ast.Constant) and v.value in (0, None):
            continue
        names = {unparse(x) for x in ast.walk(v) if isinstance(x, (ast.Name, ast.Attribute))}
        direct = any(isinstance(c, ast.Call) and unparse(c.func).endswith(("peek_kil", "_compute_kil")) for c in ast.walk(v))
        via = False
        for a in fresh_assigns:
            tg = {unparse(t) for t in a.targets}
            if tg & names and g.dominates(g.node_of(a), g.node_of(r)):
                via = True
        if not (direct or via):
            ctx.violation("C14.2/kil-read-fresh", key_of(KH_PY, "PCE500KeyboardHandler.handle_register_read", "KIL read returns a cached value"),
                          f"the KIL read returns `{unparse(v)}` without querying the matrix in the same call: after a strobe change that did not refresh the cache (e.g. a write to KOH only) a held key on a column that is no longer strobed still shows its row bit", f"{KH_PY}:{r.lineno}")
    ctx.instance("C14.2/kil-read-fresh", "returns of the KIL read path that come from a matrix query made in the same call", n, 2)


def api_parity_and_full_scan(ctx: Ctx, py: PyProgram, rs: RustProgram) -> None:
    """(a) A scan tick visits every key: the per-key loop of scan_tick is entered whenever scanning is enabled (released keys age
    while no column is strobed too) - in both cores.  (b) The host-facing press/release entry points reset the same per-key fields
    in both cores: a handler that also clears `debounced` ends (or restarts) the debounce automaton behind the scan's back, so the
    release event - or the "no second press without a release" order - is lost."""
    n = 0
    cls = py.need_cls(py.module(KM_PY), "KeyboardMatrix")
    st = cls.methods.get("scan_tick")
    ctx.need(st is not None, "KeyboardMatrix.scan_tick vanished")
    g = cfgmod.build_py(st, "scan_tick")
    loops = [l for l in ast.walk(st) if isinstance(l, ast.For) and any(py_is_call(c, "self._update_key_state") for c in ast.walk(l))]
    ctx.need(len(loops) == 1, "scan_tick: per-key loop not found")
    n += 1
    pcalls = [c for c in ast.walk(loops[0]) if py_is_call(c, "self._update_key_state")]
    extra = [py_guard_text(q) for q in g.guards_of(g.node_of(pcalls[0])) if isinstance(q[0], ast.AST) and "scan_enabled" not in unparse(q[0]) and q[2] != "for"]
    if extra:
        ctx.violation("C14.4/full-scan", key_of(KM_PY, "KeyboardMatrix.scan_tick", "per-key loop skipped"), f"the per-key debounce loop only runs under {extra}: keys that were released keep their debounced state (and their KIL row) for as long as that condition fails, instead of for the release interval", f"{KM_PY}:{loops[0].lineno}")
    rfn = rs.fn(KB_RS, "KeyboardMatrix::scan_tick")
    gr = cfgmod.build_rs(rfn.node, rfn.qual)
    rloops = [l for l in walk(rfn.body) if l.get("k") == "for" and any(a.get("k") in ("assign", "opassign") and a["l"].get("k") == "field" and a["l"].get("name") == "press_ticks" for a in walk(l["body"]))]
    ctx.need(len(rloops) >= 1, "Rust scan_tick: per-key loop not found")
    n += 1
    rsite = next(a for a in walk(rloops[0]["body"]) if a.get("k") in ("assign", "opassign") and a["l"].get("k") == "field" and a["l"].get("name") == "press_ticks")
    rguards = gr.guards_of(gr.node_of(rsite))
    # guards inside the loop body belong to the automaton (sibling rule); the ones that enclose the loop are the question here
    inner = {id(x) for x in walk(rloops[0]["body"])}
    rextra = [rs_guard_text(q) for q in rguards if isinstance(q[0], dict) and id(q[0]) not in inner and "scan_enabled" not in expr_text(q[0]) and q[2] != "for"]
    if rextra:
        ctx.violation("C14.4/full-scan", key_of(rfn.file, rfn.qual, "per-key loop skipped"), f"the Rust per-key debounce loop only runs under {rextra}", rfn.where)
    # (b)
    def py_fields(mname: str) -> dict:
        m = cls.methods.get(mname)
        ctx.need(m is not None, f"KeyboardMatrix.{mname} vanished")
        out = {}
        for a in ast.walk(m):
            if isinstance(a, ast.Assign):
                for t in a.targets:
                    if isinstance(t, ast.Attribute) and isinstance(t.value, ast.Name) and t.attr in ("pressed", "debounced"):
                        out[t.attr] = unparse(a.value).replace("True", "true").replace("False", "false")
        return out

    def rs_fields(q: str) -> dict:
        f = rs.fn(KB_RS, q)
        out = {}
        for a in walk(f.body):
            if a.get("k") == "assign" and a["l"].get("k") == "field" and a["l"].get("name") in ("pressed", "debounced"):
                out[a["l"]["name"]] = expr_text(a["r"]).replace(" ", "")
        return out
    for pyn, rsn in (("press_key", "KeyboardMatrix::press_matrix_code"), ("release_key", "KeyboardMatrix::release_matrix_code")):
        pf, rf = py_fields(pyn), rs_fields(rsn)
        for who, flds, where_, q in (("Python", pf, KM_PY, f"KeyboardMatrix.{pyn}"), ("Rust", rf, rs.file_for(KB_RS), rsn)):
            n += 1
            if "pressed" not in flds:
                ctx.violation("C14.4/debounce-owner", key_of(where_, q, "does not record the key level"), f"{q} does not set state.pressed", where_)
            if "debounced" in flds:
                ctx.violation("C14.4/debounce-owner", key_of(where_, q, "debounced changed outside the scan"),
                              f"{q} sets state.debounced = {flds['debounced']}: the debounced flag belongs to the scan automaton, which emits the press event when it sets it and the release event when it clears it. "
                              + ("Clearing it on release means the release event is never produced." if "release" in q else "Clearing it on a press makes the scan debounce (and report) a key a second time without a release in between."), where_)
    ctx.instance("C14.4/api-and-scan", "scan_tick visits every key (both cores); press/release entry points agree on the pressed/debounced fields they set (both cores)", n, 4)


# CPU-visible register accesses of the matrix: what they may change is the strobe registers, the KIL latch and statistics - never a
# key's debounce automaton (that advances with scan ticks and host key presses only)
REGISTER_ACCESS = ("write_kol", "write_koh", "read_kil", "peek_kil", "get_active_columns")


class _Host:
    _sa_host = True

    def __init__(self, **kw: Any):
        for k, v in kw.items():
            setattr(self, k, v)


def register_access_and_queue_order(ctx: Ctx, py: PyProgram) -> None:
    """(a) Who may write the per-key debounce state (the fields of KeyState): nothing reachable from a strobe-register write or a KIL
    read.  (b) fifo_snapshot lists the pending events oldest first: interpreted for every (head, tail) of the ring with symbolic
    slot contents."""
    from ..memo import method_closure
    from ..pyfacts import NotConst, _Return
    mod = py.module(KM_PY)
    ks = py.need_cls(mod, "KeyState")
    fields = {st.target.id for st in ks.node.body if isinstance(st, ast.AnnAssign) and isinstance(st.target, ast.Name)} - {"location"}
    ctx.need(len(fields) >= 4, f"KeyState fields not found: {sorted(fields)}")
    km = py.need_cls(mod, "KeyboardMatrix")
    n = 0
    for entry in REGISTER_ACCESS:
        if entry not in km.methods:
            continue
        n += 1
        for mname in sorted(method_closure(mod, "KeyboardMatrix", (entry,))):
            fn = km.methods[mname]
            for a in ast.walk(fn):
                ts = a.targets if isinstance(a, ast.Assign) else [a.target] if isinstance(a, (ast.AugAssign, ast.AnnAssign)) else []
                for t in ts:
                    if isinstance(t, ast.Attribute) and t.attr in fields and not (isinstance(t.value, ast.Name) and t.value.id == "self"):
                        ctx.violation("C14.4/register-access-pure", key_of(KM_PY, f"KeyboardMatrix.{entry}", f"writes KeyState.{t.attr}"),
                                      f"KeyboardMatrix.{entry} reaches `{unparse(a)[:70]}` (in {mname}): a strobe-register write / KIL read changes a key's debounce state, so whether a held key "
                                      "debounces depends on how the firmware strobes between scan ticks", f"{KM_PY}:{a.lineno}")
    ctx.need(n >= 3, "KeyboardMatrix register access entry points not found")
    # (b)
    size = PyEval(py, mod).eval(ast.Name(id="FIFO_SIZE", ctx=ast.Load()))
    ctx.need(isinstance(size, int) and 2 <= size <= 64, "FIFO_SIZE not a small integer")
    fn = km.methods.get("fifo_snapshot")
    ctx.need(fn is not None, "KeyboardMatrix.fifo_snapshot vanished")
    bad = None
    m = 0
    for head in range(size):
        for tail in range(size):
            m += 1
            me = _Host(_fifo=[("slot", i) for i in range(size)], _head=head, _tail=tail, _count=(tail - head) % size)
            ev = PyEval(py, mod, budget=[20000])
            ev.env = {"self": me}
            ret = None
            try:
                try:
                    ev.exec_block(fn.body)
                except _Return as r:
                    ret = r.v
            except NotConst as e:
                raise AnalysisError(f"fifo_snapshot left the evaluable fragment: {e}")
            want = [("slot", (head + i) % size) for i in range((tail - head) % size)]
            if list(ret or []) != want and bad is None:
                bad = (head, tail, ret, want)
    if bad:
        head, tail, ret, want = bad
        ctx.violation("C14.1/fifo-order", key_of(KM_PY, "KeyboardMatrix.fifo_snapshot", "pending events out of queue order"),
                      f"fifo_snapshot with head={head}, tail={tail} lists slots {[x[1] for x in (ret or [])]}, the queue order (oldest first) is {[x[1] for x in want]}: "
                      "once the ring wraps, events are reported out of order (a release before its press)", f"{KM_PY}:{fn.lineno}")
    # (c) the debounce / repeat settings the matrix is built with are the ones it uses: each setting parameter of the constructor is
    # stored as a function of itself and constants only (a floor such as max(1, x) is fine; tying one setting to another changes
    # the configured interval)
    init = km.methods.get("__init__")
    ctx.need(init is not None, "KeyboardMatrix.__init__ vanished")
    iparams = {a_.arg for a_ in init.args.args + init.args.kwonlyargs if a_.arg != "self"}
    k_set = 0
    for a in ast.walk(init):
        if isinstance(a, ast.Assign) and len(a.targets) == 1 and isinstance(a.targets[0], ast.Attribute) and attr_chain(a.targets[0].value) == "self" and a.targets[0].attr in iparams \
                and any(w in a.targets[0].attr for w in ("threshold", "delay", "interval")):
            k_set += 1
            others = {x.id for x in ast.walk(a.value) if isinstance(x, ast.Name) and x.id in iparams and x.id != a.targets[0].attr} | \
                     {x.attr for x in ast.walk(a.value) if isinstance(x, ast.Attribute) and attr_chain(x.value) == "self"}
            if others:
                ctx.violation("C14.4/settings-exact", key_of(KM_PY, "KeyboardMatrix.__init__", f"{a.targets[0].attr} depends on another setting"),
                              f"the constructor stores `{unparse(a)[:80]}`: the effective {a.targets[0].attr} depends on {sorted(others)}, so a matrix configured with this value debounces / repeats with another one "
                              "(KIL keeps showing a released key, or the release event comes late)", f"{KM_PY}:{a.lineno}")
    ctx.need(k_set >= 4, f"KeyboardMatrix.__init__: timing settings not found ({k_set})")
    ctx.instance("C14.4/settings-exact", "timing settings stored by the matrix constructor as functions of their own parameter only", k_set, 4)
    ctx.instance("C14.4/register-access-pure", "register-access entry points of the matrix followed through their helpers: no store to a KeyState field", n, 3)
    ctx.instance("C14.1/fifo-order", "fifo_snapshot interpreted for every (head, tail) of the ring with symbolic slots: oldest first", m, 64)


def press_release_name_parity(ctx: Ctx, py: PyProgram) -> None:
    """press_key and release_key of one class name the key the same way: whatever one of them does to its key parameter before
    looking the key up (strip, upper, alias table ..) the other does too.  Otherwise a key accepted under one spelling by the press
    is not found by the release: it stays held, keeps repeating and never produces a release event."""
    n = 0
    for rel in (KM_PY, "pce500/keyboard_handler.py"):
        m = py.module(rel)
        ctx.file_used(REPO / rel)
        for cls in [c for c in ast.walk(m.tree) if isinstance(c, ast.ClassDef)]:
            meths = {f.name: f for f in cls.body if isinstance(f, ast.FunctionDef)}
            if not ("press_key" in meths and "release_key" in meths):
                continue
            forms = {}
            for nm in ("press_key", "release_key"):
                fn = meths[nm]
                ps = [a.arg for a in fn.args.args if a.arg != "self"]
                if not ps:
                    raise AnalysisError(f"{rel}: {cls.name}.{nm} has no key parameter")
                p0 = ps[0]
                rb = []
                for st in ast.walk(fn):
                    ts = st.targets if isinstance(st, ast.Assign) else [st.target] if isinstance(st, (ast.AugAssign, ast.AnnAssign)) else []
                    for t in ts:
                        if isinstance(t, ast.Name) and t.id == p0 and getattr(st, "value", None) is not None:
                            rb.append(re.sub(r"\b%s\b" % re.escape(p0), "<key>", unparse(st.value)))
                forms[nm] = sorted(rb)
            n += 1
            if forms["press_key"] != forms["release_key"]:
                ctx.violation("C14.4/press-release-name-parity", key_of(rel, cls.name, "press_key / release_key rewrite the key name differently"),
                              f"{cls.name}.press_key rewrites its key parameter as {forms['press_key'] or 'nothing'} but release_key as {forms['release_key'] or 'nothing'}: "
                              "a key pressed under a spelling only one of them normalises is never released", f"{rel}:{meths['press_key'].lineno}")
    ctx.instance("C14.4/press-release-name-parity", "classes with a press_key/release_key pair: both treat the key parameter alike", n, 2)


def rust_ring_coherent(ctx: Ctx, rs: RustProgram) -> None:
    """head, tail and count of the Rust event ring describe one queue (tail = head + count mod size).  A function that re-bases one of
    them (assigns it a value not computed from its own old value) re-bases all three, and with constants the relation must hold:
    rewinding head and count while tail stays makes new events land where head does not look - stale events are delivered, new ones lost."""
    ring = ("self.fifo_head", "self.fifo_tail", "self.fifo_count")
    size = rs.eval_const(KB_RS, "FIFO_SIZE")
    rel = rs.file_for(KB_RS)
    n = 0
    for fn in rs.fns_in(KB_RS):
        if fn.body is None or not fn.qual.startswith("KeyboardMatrix::"):
            continue
        absolute: dict[str, list] = {}
        for a in walk(fn.body):
            if a.get("k") == "assign" and expr_text(a["l"]) in ring:
                lhs = expr_text(a["l"])
                if not any(x.get("k") == "field" and expr_text(x) == lhs for x in walk(a["r"])):
                    absolute.setdefault(lhs, []).append(a)
        if not absolute:
            continue
        n += 1
        missing = [f for f in ring if f not in absolute]
        if missing:
            a0 = next(iter(absolute.values()))[0]
            ctx.violation("C14.1/ring-coherent", key_of(rel, fn.qual, f"re-bases {sorted(absolute)} but not {missing}"),
                          f"{fn.qual} assigns {sorted(f.split('.')[-1] for f in absolute)} afresh but leaves {[m.split('.')[-1] for m in missing]} as it was: the ring's head/tail/count no longer describe one queue "
                          "(events queued afterwards are stored where the reader does not look)", f"{rel}:{a0['ln']}")
            continue
        vals = {}
        for f in ring:
            r = absolute[f][-1]["r"]
            if r.get("k") == "lit" and str(r.get("v", expr_text(r))).isdigit():
                vals[f] = int(str(r.get("v", expr_text(r))))
        if len(vals) == 3 and isinstance(size, int) and vals[ring[1]] != (vals[ring[0]] + vals[ring[2]]) % size:
            ctx.violation("C14.1/ring-coherent", key_of(rel, fn.qual, "constants violate tail = head + count"), f"{fn.qual} sets head={vals[ring[0]]}, tail={vals[ring[1]]}, count={vals[ring[2]]}: tail != (head + count) mod {size}", f"{rel}:{absolute[ring[0]][-1]['ln']}")
    ctx.instance("C14.1/ring-coherent", "KeyboardMatrix functions that re-base a ring index: all three re-based, constants coherent", n, 3)
