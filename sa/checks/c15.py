"""C15 - LCD controllers follow the HD61202 protocol and map VRAM to pixels one-to-one.

Decides (tables and maps that are finite; not protocol conformance over histories):
  1 TABLE-AGREE  the address/command decode tables (16 low-nibble decodings x 2 windows; 4 instruction codes and their
                 data masks; chip-select -> chip indices) extracted from both languages by partial evaluation of the
                 table-shaped decode functions over their finite key domain
  2 INTERVAL     the four stitched regions tile columns 0..239 exactly once; the Python pixel map (abstract interpretation of
                 get_display_buffer with symbolic VRAM cells) is a bijection pixel <-> VRAM bit and one VRAM byte drives
                 8 pixels of one display column; Rust region table and map_chip_col_to_display_col agree with it
  3 FORM         write_data stores one VRAM cell and post-increments the column modulo 64; read_data returns column y-1 and
                 advances - same column arithmetic in both languages (finite evaluation over y in 0..63)
"""
from __future__ import annotations

import ast
from typing import Any

from .. import isa
from ..core import REPO, AnalysisError, Ctx
from ..pyfacts import ClassRef, EnumMember, NotConst, PyEval, PyProgram, Term, attr_chain, unparse
from ..rsfacts import NotConst as RsNotConst
from ..rsfacts import RsInterp, RustProgram, expr_text, walk
from ..rules import key_of, py_defs, py_leaves, rs_defs, rs_leaves

LEVEL = "other"
EXPLANATION = (
    "TABLE-AGREE by partial evaluation: decode_access / parse_command / chip-index helpers of both languages are table-shaped pure "
    "functions (let/if/match on their arguments only); the analysis' constant evaluator folds them for every key of their finite "
    "domain (2 windows x 16 low nibbles x 256 command bytes) and compares the resulting tables. The Python pixel map is obtained by "
    "abstract interpretation of get_display_buffer with symbolic VRAM cells and checked to be a bijection onto 32x240 pixels; the "
    "Rust stitch regions and map_chip_col_to_display_col are compared with it. Column arithmetic of data read/write is compared over "
    "y in 0..63. Conformance over arbitrary command/read interleavings is declined."
)
TRUSTED = ["syn / CPython parsers", "sa constant evaluators (PyEval / RsInterp) restricted to pure table-shaped helpers; they refuse loops over state, I/O, unknown calls"]
CLAIM = ("Decides completely (finite domains) that both models decode LCD addresses/commands identically, that the stitched display is a bijection between visible pixels and VRAM bits "
         "with one byte driving one display column, and that the data read/write column arithmetic agrees.")
NOTE = "State evolution over command sequences (busy flag, dummy reads across page changes) is not decided; only per-access tables/maps."
TECHNIQUE = "partial evaluation of table-shaped decode functions + abstract interpretation of the pixel stitcher with symbolic VRAM"

HD_PY = "pce500/display/hd61202.py"
CW_PY = "pce500/display/controller_wrapper.py"
PL_PY = "pce500/display/pipeline.py"
LCD_RS = "core/src/lcd.rs"

_CS = {"BOTH": "Both", "LEFT": "Left", "RIGHT": "Right"}
_DI = {"INSTRUCTION": "Instruction", "DATA": "Data"}
_RW = {"READ": "Read", "WRITE": "Write"}
_IN = {"ON_OFF": "OnOff", "START_LINE": "StartLine", "SET_PAGE": "SetPage", "SET_Y_ADDRESS": "SetYAddress"}


def run(ctx: Ctx) -> None:
    py = PyProgram()
    rs = RustProgram()
    for f in (HD_PY, CW_PY, PL_PY):
        ctx.file_used(REPO / f)
    ctx.file_used(REPO / rs.file_for(LCD_RS))
    decode_tables(ctx, py, rs)
    pixel_map(ctx, py, rs)
    column_arith(ctx, py, rs)
    windows_and_write_effect(ctx, py, rs)
    front_door_mirrors(ctx, py, rs)
    pipeline_delivers(ctx, py)
    busy_flag(ctx, py, rs)
    image_renderer(ctx, py)
    storage_shape(ctx, py)
    shared_chip_objects(ctx, py)
    ctx.extra["exhaustive"] = True


def _sym(v: Any) -> str:
    return v[1].split("::")[-1] if isinstance(v, tuple) and v and v[0] == "sym" else str(v)


def _unsome(v: Any) -> Any:
    return v[1] if isinstance(v, tuple) and v and v[0] == "some" else v


def decode_tables(ctx: Ctx, py: PyProgram, rs: RustProgram) -> None:
    mod = py.module(HD_PY)
    it = RsInterp(rs, LCD_RS)
    rel = rs.file_for(LCD_RS)
    n = 0
    addrs = [hi | mid | lo for hi in (0x2000, 0xA000, 0x3000, 0x0000) for mid in (0x000, 0x120) for lo in range(16)]

    def py_call(fn: str, *args: Any) -> Any:
        ev = PyEval(py, mod)
        try:
            return ev.call(ev.name(fn), list(args), {})
        except NotConst as e:
            if "raises" in str(e):
                return None
            raise AnalysisError(f"{HD_PY}::{fn} is no longer a table-shaped pure function: {e}")

    def rs_call(fn: str, *args: Any) -> Any:
        try:
            return _unsome(it.call(fn, list(args)))
        except RsNotConst as e:
            raise AnalysisError(f"{rel}::{fn} is no longer a table-shaped pure function: {e}")

    for a in addrs:
        n += 1
        p = py_call("decode_access", a)
        r = rs_call("decode_access", a)
        pn = None if p is None else (_CS.get(p[0].name, p[0].name), _DI.get(p[1].name, p[1].name), _RW.get(p[2].name, p[2].name))
        rn = None if r is None else tuple(_sym(x) for x in r)
        if pn != rn:
            ctx.violation("C15.1/decode-access", f"decode_access[{a:#06x}]", f"address {a:#06x} decodes to {pn} in Python and {rn} in Rust", f"{HD_PY} vs {rel}")
        if a in (0x2006, 0xA009):
            ctx.sample({"address": hex(a), "python": pn, "rust": rn})
    ctx.instance("C15.1/decode-access", "address -> (chip select, D/I, R/W) for 2 windows + 2 non-windows x 2 mid patterns x 16 low nibbles", n, 128)
    # handles(): both windows, full 4K
    n = 0
    for lo in (0, 2, 4, 6, 8, 10):           # write addresses with a selected chip
        for win in (0x2000, 0xA000):
            addr = win | lo
            if py_call("decode_access", addr) is None:
                continue
            for value in range(256):
                n += 1
                p = py_call("parse_command", addr, value)
                r = rs_call("parse_command", addr, value)
                ctx.need(isinstance(p, Term) and p.ctor == "Command", f"parse_command({addr:#x},{value:#x}) did not fold to a Command")
                pcs, pin, pdata = p.kwargs["cs"], p.kwargs.get("instr"), p.kwargs.get("data")
                pn = (_CS[pcs.name], None if pin is None else _IN[pin.name], pdata)
                if r is None:
                    rn = None          # the Rust model does not take this write as a command at all
                else:
                    kind = r["kind"]
                    if _sym(("sym", kind[1])) == "Instruction":
                        rn = (_sym(r["cs"]), _sym(kind[2][0]), kind[2][1])
                    else:
                        rn = (_sym(r["cs"]), None, kind[2][0])
                if pn != rn:
                    ctx.violation("C15.1/parse-command", f"parse_command[{addr:#06x},{value:#04x}]", f"write {value:#04x} to {addr:#06x}: Python {pn}, Rust {rn}", f"{HD_PY} vs {rel}")
    ctx.instance("C15.1/parse-command", "write (address,value) -> (chip select, instruction, masked data), all 256 values x selected write addresses", n, 2048)
    # instruction effect masks inside the chips: Python write_instruction stores data as given; Rust masks again - compare effective stored value
    # by folding Rust write_instruction's arm masks over the parse_command output range
    wi = rs.fn(LCD_RS, "Hd61202Chip::write_instruction")
    masks = {}
    for nd in walk(wi.body):
        if nd.get("k") == "arm":
            nm = _sym(("sym", expr_text({"k": "path", "p": nd["pat"].get("p", "")})))
            for a in walk(nd["body"]):
                if a.get("k") == "assign" and a["r"].get("k") == "binary" and a["r"]["op"] == "&":
                    masks[nm.split("::")[-1]] = (expr_text(a["l"]), rs.evaluator(LCD_RS).eval(a["r"]["r"]))
                elif a.get("k") == "assign" and a["r"].get("k") == "binary" and a["r"]["op"] == "!=":
                    masks[nm.split("::")[-1]] = (expr_text(a["l"]), 1)
    want = {"OnOff": ("self.state.on", 1), "StartLine": ("self.state.start_line", 0x3F), "SetPage": ("self.state.page", 7), "SetYAddress": ("self.state.y_address", 0x3F)}
    n = 0
    for k_, v in want.items():
        n += 1
        if masks.get(k_) != v:
            ctx.violation("C15.1/instr-effect", key_of(rel, wi.qual, k_), f"Rust instruction {k_} writes {masks.get(k_)}; HD61202 register/mask is {v}", wi.where)
    pw = py.func(HD_PY, "HD61202.write_instruction")
    pmap = {}
    for st in ast.walk(pw):
        if isinstance(st, ast.If) and isinstance(st.test, ast.Compare) and unparse(st.test.left) == "instr":
            nm = unparse(st.test.comparators[0]).split(".")[-1]
            for a in st.body:
                if isinstance(a, ast.Assign):
                    pmap[_IN.get(nm, nm)] = attr_chain(a.targets[0])
    for k_, v in want.items():
        n += 1
        if pmap.get(k_) != v[0]:
            ctx.violation("C15.1/instr-effect", key_of(HD_PY, "HD61202.write_instruction", k_), f"Python instruction {k_} writes {pmap.get(k_)}; expected {v[0]}", f"{HD_PY}:{pw.lineno}")
    ctx.instance("C15.1/instr-effect", "instruction -> register written (+mask) in both chips", n, 8)
    # chip select -> chip indices (writes) and read routing
    n = 0
    evp = PyEval(py, py.module(PL_PY))
    cs_enum = PyEval(py, mod).enum_members(PyEval(py, mod).name("ChipSelect"))
    ci = rs.fn(LCD_RS, "LcdController::chip_indices")
    rs_idx = {}
    for nd in walk(ci.body):
        if nd.get("k") == "arm":
            rs_idx[nd["pat"]["p"].split("::")[-1]] = tuple(rs.evaluator(LCD_RS).eval(nd["body"]))
    for nm, mem in cs_enum.items():
        if nm == "NONE":
            continue
        n += 1
        pi = tuple(evp.call(evp.name("_chip_indices"), [mem], {}))
        if pi != rs_idx.get(_CS[nm]):
            ctx.violation("C15.1/chip-indices", f"chip_indices[{nm}]", f"chip select {nm}: Python writes chips {pi}, Rust {rs_idx.get(_CS[nm])}", f"{PL_PY} vs {rel}")
    # read routing: Python `chips[0] if cs == LEFT else chips[1]` ; Rust arms
    rd = rs.fn(LCD_RS, "LcdController::read")
    rs_read = {}
    for nd in walk(rd.body):
        if nd.get("k") == "arm" and nd["pat"].get("k") == "p_path" and nd["pat"]["p"].startswith("ChipSelect::"):
            idxs = [int(ix["i"]["v"]) for ix in walk(nd["body"]) if ix.get("k") == "index" and expr_text(ix["e"]) == "self.chips"]
            which = [m["m"] for m in walk(nd["body"]) if m.get("k") == "mcall" and m["m"] in ("read_data", "read_status")]
            rs_read.setdefault(nd["pat"]["p"].split("::")[-1], []).append((tuple(idxs), tuple(which)))
    pr = py.func(CW_PY, "HD61202Controller.read")
    chip_sel = [n_ for n_ in ast.walk(pr) if isinstance(n_, ast.IfExp) and "chips" in unparse(n_)]
    ctx.need(len(chip_sel) == 1, "HD61202Controller.read: chip routing expression not found")
    sel = chip_sel[0]
    py_read = {unparse(sel.test.comparators[0]).split(".")[-1]: int(unparse(sel.body.slice)), "_else": int(unparse(sel.orelse.slice))}
    n += 2
    if not (py_read.get("LEFT") == 0 and py_read.get("_else") == 1 and rs_read.get("Left") == [((0,), ("read_data",)), ((0,), ("read_status",))]
            and rs_read.get("Right") == [((1,), ("read_data",)), ((1,), ("read_status",))] and all(x == ((), ()) for x in rs_read.get("Both", []))):
        ctx.violation("C15.1/read-routing", "read-routing", f"read routing differs: Python {py_read}, Rust {rs_read}", f"{CW_PY} vs {rel}")
    both_none = any(isinstance(n_, ast.If) and "ChipSelect.BOTH" in unparse(n_.test) and any(isinstance(b, ast.Return) and unparse(b.value) == "None" for b in n_.body) for n_ in ast.walk(pr))
    n += 1
    if not both_none:
        ctx.violation("C15.1/read-routing", "read-both", "Python read with both chips selected does not return None like the Rust model", f"{CW_PY}:{pr.lineno}")
    ctx.instance("C15.1/chip-routing", "chip select -> chips written / chip read", n, 6)


# ---------------------------------------------------------------------------
class _Vram:
    def __init__(self, chip: int):
        self.chip = chip

    def __getitem__(self, page: Any) -> "_VramRow":
        return _VramRow(self.chip, int(page))


class _VramRow:
    def __init__(self, chip: int, page: int):
        self.chip, self.page = chip, page

    def __getitem__(self, col: Any) -> tuple:
        return ("vram", self.chip, self.page, int(col))


def pixel_map(ctx: Ctx, py: PyProgram, rs: RustProgram) -> None:
    mod = py.module(CW_PY)
    fn = py.func(CW_PY, "HD61202Controller.get_display_buffer")
    hmod = py.module(HD_PY)
    hconsts: dict = {}
    for st_ in ast.walk(hmod.tree):
        if isinstance(st_, ast.ClassDef) and st_.name == "HD61202":
            for a_ in st_.body:
                if isinstance(a_, ast.Assign) and isinstance(a_.targets[0], ast.Name):
                    try:
                        cev = PyEval(py, hmod)
                        cev.env = dict(hconsts)
                        v_ = cev.eval(a_.value)
                        if isinstance(v_, int):
                            hconsts[a_.targets[0].id] = v_
                    except NotConst:
                        pass
    # the buffer local is whatever np.zeros is bound to; the bit test is the nested helper that does not touch the buffer
    buf_names = [t.id for st_ in fn.body if isinstance(st_, ast.Assign) and "np.zeros" in unparse(st_.value) for t in st_.targets if isinstance(t, ast.Name)]
    ctx.need(len(buf_names) == 1, "get_display_buffer: buffer allocation (np.zeros) not found")
    buf_name = buf_names[0]
    nested = [st_ for st_ in fn.body if isinstance(st_, ast.FunctionDef)]
    pix = [f_ for f_ in nested if not any(isinstance(x, ast.Name) and x.id == buf_name for x in ast.walk(f_)) and len(f_.args.args) == 2]
    ctx.need(len(pix) == 1, "get_display_buffer: the (byte, bit) -> pixel helper was not identified")
    pix_name = pix[0].name

    def py_map(start_line: int, on: tuple = (True, True)) -> dict:
        ev_ = PyEval(py, mod, budget=[3_000_000])
        buf: dict = {}
        chips_ = [Term("HD61202", (), {"vram": _Vram(i), "state": Term("State", (), {"on": on[i], "start_line": start_line})}) for i in (0, 1)]
        ev_.env = {"self": Term("HD61202Controller", (), {"chips": chips_}), "HD61202": Term("HD61202", (), dict(hconsts))}
        body_ = [st_ for st_ in fn.body if not (st_ is pix[0]) and not (isinstance(st_, ast.Assign) and "np.zeros" in unparse(st_.value)) and not isinstance(st_, ast.Return)]
        ev_.env[buf_name] = buf
        ev_.env[pix_name] = lambda byte, bit: ("px", byte, int(bit))
        try:
            ev_.exec_block(body_)
        except NotConst as e:
            raise AnalysisError(f"get_display_buffer is outside the abstract interpreter's fragment: {e}")
        return buf
    ev = PyEval(py, mod, budget=[3_000_000])
    buffer: dict = {}
    chips = [Term("HD61202", (), {"vram": _Vram(0), "state": Term("State", (), {"on": True, "start_line": 0})}),
             Term("HD61202", (), {"vram": _Vram(1), "state": Term("State", (), {"on": True, "start_line": 0})})]
    ev.env = {"self": Term("HD61202Controller", (), {"chips": chips}), "HD61202": Term("HD61202", (), dict(hconsts))}

    # abstract transfer functions: the buffer allocation and the bit test are replaced by symbolic versions
    class _NP:
        pass
    regions: list[tuple] = []
    body = []
    for st in fn.body:
        if st is pix[0]:
            continue
        if isinstance(st, ast.Assign) and "np.zeros" in unparse(st.value):
            shape = ast.literal_eval(st.value.args[0])
            ctx.need(shape == (32, 240), f"display buffer shape is {shape}, expected (32, 240)")
            continue
        if isinstance(st, ast.Return):
            continue
        body.append(st)
    ev.env[buf_name] = buffer
    ev.env[pix_name] = lambda byte, bit: ("px", byte, int(bit))
    # record region calls as they are made
    try:
        ev.exec_block(body)
    except NotConst as e:
        raise AnalysisError(f"get_display_buffer is outside the abstract interpreter's fragment: {e}")
    if len(buffer) != 32 * 240:
        missing = sorted({c for r in range(32) for c in range(240) if (r, c) not in buffer})
        extra = sorted({rc for rc in buffer if not (0 <= rc[0] < 32 and 0 <= rc[1] < 240)})
        ctx.violation("C15.2/pixel-cover", key_of(CW_PY, "HD61202Controller.get_display_buffer", "visible pixels without a VRAM bit"),
                      f"the display stitcher drives {len(buffer)} of {32 * 240} pixels: display column(s) {missing[:8]} are not determined by any VRAM bit" + (f"; writes outside the panel at {extra[:4]}" if extra else ""), CW_PY)
    seen: dict = {}
    n = 0
    ctx._pixel_map = dict(buffer)
    for (row, col), v in buffer.items():
        n += 1
        ctx.need(isinstance(v, tuple) and v[0] == "px", "pixel not produced by pixel_on(vram byte, bit)")
        if not (0 <= row < 32 and 0 <= col < 240):
            ctx.violation("C15.2/pixel-range", f"pixel[{row},{col}]", f"pixel ({row},{col}) outside 32x240", CW_PY)
        key = (v[1], v[2])
        if key in seen:
            ctx.violation("C15.2/pixel-bijection", f"vram-bit[{key}]", f"VRAM bit {key} drives two pixels: {seen[key]} and {(row, col)}", CW_PY)
        seen[key] = (row, col)
    # one byte -> 8 pixels of one display column
    by_byte: dict = {}
    for (cell, bit), (row, col) in seen.items():
        by_byte.setdefault(cell, []).append((bit, row, col))
    for cell, lst in by_byte.items():
        cols = {c for _b, _r, c in lst}
        if len(lst) != 8 or len(cols) != 1:
            ctx.violation("C15.2/byte-column", f"vram-byte[{cell}]", f"VRAM byte {cell} drives {len(lst)} pixels in display columns {sorted(cols)}", CW_PY)
    ctx.instance("C15.2/python-pixel-map", "visible pixels -> VRAM bit (abstract interpretation of get_display_buffer), bijection + byte/column", 32 * 240, 7680, discharged=n)
    ctx.sample({"pixel(0,0)": str(buffer.get((0, 0))), "pixel(31,239)": str(buffer.get((31, 239))), "pixel(5,120)": str(buffer.get((5, 120)))})

    # region table of the Python stitcher, read off the abstract pixel map itself (row 0 of every display column): maximal runs of
    # display columns fed by consecutive (or, mirrored, descending) VRAM columns of one chip/page
    def py_regions() -> list[tuple]:
        cols = []
        for c in range(240):
            v = buffer.get((0, c))
            if not (isinstance(v, tuple) and v[0] == "px"):
                cols.append(None)
                continue
            _t, chip, page, col = v[1]
            cols.append((chip, page, col))
        out = []
        i = 0
        while i < 240:
            if cols[i] is None:
                i += 1
                continue
            chip, page, col0 = cols[i]
            j = i + 1
            step = None
            while j < 240 and cols[j] is not None and cols[j][0] == chip and cols[j][1] == page:
                d_ = cols[j][2] - cols[j - 1][2]
                if d_ not in (1, -1) or (step is not None and d_ != step):
                    break
                step = d_
                j += 1
            mirror = step == -1
            lo = min(cols[k][2] for k in range(i, j))
            out.append((chip, page, lo, lo + (j - i), i, mirror))
            i = j
        return sorted(out)
    pr = py_regions()
    db = rs.fn(LCD_RS, "LcdController::display_buffer")
    d = rs_defs(db.body)
    rr = []
    evr = rs.evaluator(LCD_RS)
    for c in walk(db.body):
        if c.get("k") == "call" and expr_text(c["f"]) == "copy_region":
            a = c["args"]
            chipdef = d.get(expr_text(a[1]), [None])[0]
            chip = int(expr_text(chipdef).split("[")[1].split("]")[0])
            rng = a[3]
            rr.append((chip, evr.eval(a[2]), evr.eval(rng["lo"]), evr.eval(rng["hi"]), evr.eval(a[4]), evr.eval(a[5])))
    rr.sort()
    if pr != rr:
        ctx.violation("C15.2/regions", "display-regions", f"stitch regions differ: Python {pr}, Rust {rr}", f"{CW_PY} vs {rs.file_for(LCD_RS)}")
    # tiling of the regions
    spans = sorted((dest, dest + (hi - lo)) for _c, _p, lo, hi, dest, _m in rr)
    ok = spans and spans[0][0] == 0 and spans[-1][1] == 240 and all(a[1] == b[0] for a, b in zip(spans, spans[1:]))
    if not ok:
        ctx.violation("C15.2/tiling", "display-regions-tiling", f"Rust stitch regions do not tile columns 0..239 exactly once: {spans}", rs.file_for(LCD_RS))
    ctx.instance("C15.2/regions", "(chip, start page, columns, dest, mirror) regions: Python = Rust, tile 0..239", len(rr), 4)
    ctx.sample({"regions": rr})
    # Rust map_chip_col_to_display_col over the full domain vs the Python pixel map
    it = RsInterp(rs, LCD_RS)
    n = 0
    for chip in (0, 1):
        for page in range(8):
            for col in range(64):
                n += 1
                r = _unsome(it.call("map_chip_col_to_display_col", [chip, page, col]))
                cell = ("vram", chip, page, col)
                want = None
                if cell in by_byte:
                    want = by_byte[cell][0][2]
                if r != want:
                    ctx.violation("C15.2/col-map", f"map_chip_col_to_display_col[{chip},{page},{col}]", f"chip {chip} page {page} column {col}: Rust display column {r}, stitcher says {want}", rs.file_for(LCD_RS))
    ctx.instance("C15.2/col-map", "map_chip_col_to_display_col over 2 chips x 8 pages x 64 columns vs the stitched pixel map", n, 1024)
    # Rust display_buffer / copy_region interpreted with symbolic VRAM cells, for several display start lines, against the Python
    # stitcher interpreted with the same start line: the two machines show the same VRAM bit at every one of the 7 680 pixels.
    class _RsRow:
        def __init__(self, chip: int, p: int):
            self.chip, self.p = chip, p

        def __getitem__(self, c: Any) -> tuple:
            if not 0 <= int(c) < 64:
                raise IndexError
            return ("vram", self.chip, self.p, int(c))

    class _RsVram:
        def __init__(self, chip: int):
            self.chip = chip

        def __getitem__(self, p: Any) -> _RsRow:
            if not 0 <= int(p) < 8:
                raise IndexError
            return _RsRow(self.chip, int(p))

    class _PixIt(RsInterp):
        def call_hook(self, path: str, args: list, env: dict, e: dict) -> Any:
            if path.split("::")[-1] == "pixel_on":
                return ("px", args[0], int(args[1]))
            return NotImplemented

        def mcall_hook(self, recv: Any, m: str, args: list, env: dict, e: dict) -> Any:
            if m == "take":
                return list(recv)[:args[0]]
            if m == "get" and isinstance(recv, (list, _RsVram, _RsRow)):
                try:
                    return ("some", recv[args[0]])
                except IndexError:
                    return None
            return NotImplemented
    pit = _PixIt(rs, LCD_RS)
    sites = [c for c in walk(db.body) if c.get("k") == "call" and expr_text(c["f"]) == "copy_region"]
    n = 0
    for sl in (0, 8, 37):
        rbuf = [dict() for _ in range(32)]
        for c in sites:
            a = c["args"]
            chipdef = d.get(expr_text(a[1]), [None])[0]
            chip = int(expr_text(chipdef).split("[")[1].split("]")[0])
            try:
                pit.call("copy_region", [rbuf, {"state": {"start_line": sl}, "vram": _RsVram(chip)}, evr.eval(a[2]), range(evr.eval(a[3]["lo"]), evr.eval(a[3]["hi"])), evr.eval(a[4]), evr.eval(a[5])])
            except Exception as e:  # noqa: BLE001
                raise AnalysisError(f"copy_region (Rust) left the evaluable fragment: {type(e).__name__}: {e}")
        pbuf = py_map(sl)
        diff = [(r, c_) for r in range(32) for c_ in range(240) if rbuf[r].get(c_) != pbuf.get((r, c_))]
        n += 32 * 240
        if diff:
            r, c_ = diff[0]
            ctx.violation("C15.2/display-parity", key_of(CW_PY, "HD61202Controller.get_display_buffer", f"differs from LcdController::display_buffer at start line {sl}" if sl else "differs from LcdController::display_buffer"),
                          f"with display start line {sl}, {len(diff)} of 7680 pixels show a different VRAM bit in the two machines; e.g. pixel (row {r}, col {c_}): Python {pbuf.get((r, c_))}, Rust {rbuf[r].get(c_)}", f"{CW_PY} vs {rs.file_for(LCD_RS)}")
    # display ON/OFF: a chip that is switched off drives no pixel (HD61202: DISPLAY OFF blanks the panel half) - in both machines
    for on in ((False, False), (True, False), (False, True)):
        rbuf = [dict() for _ in range(32)]
        for c in sites:
            a = c["args"]
            chipdef = d.get(expr_text(a[1]), [None])[0]
            chip = int(expr_text(chipdef).split("[")[1].split("]")[0])
            try:
                pit.call("copy_region", [rbuf, {"state": {"start_line": 0, "on": on[chip]}, "vram": _RsVram(chip)}, evr.eval(a[2]), range(evr.eval(a[3]["lo"]), evr.eval(a[3]["hi"])), evr.eval(a[4]), evr.eval(a[5])])
            except Exception as e:  # noqa: BLE001
                raise AnalysisError(f"copy_region (Rust) left the evaluable fragment: {type(e).__name__}: {e}")
        # does the Rust stitcher consult the on flag anywhere on the way to the pixel (call-site guard or inside copy_region)?
        rs_reads_on = any(x.get("k") == "field" and x.get("name") == "on" for f_ in (db, rs.fn(LCD_RS, "copy_region")) for x in walk(f_.body))
        pbuf = py_map(0, on)
        n += 32 * 240
        py_driven = len(pbuf)
        rs_driven = sum(len(r_) for r_ in rbuf) if not rs_reads_on else None
        if rs_driven is not None and rs_driven != py_driven:
            ctx.violation("C15.2/display-parity", key_of(rs.file_for(LCD_RS), "LcdController::display_buffer", "ignores DISPLAY ON/OFF"),
                          f"with chips (left, right) on={on} the Python stitcher drives {py_driven} pixels (a chip that is off shows nothing) while the Rust display_buffer drives {rs_driven}: it never reads `state.on`, so a panel half that was switched off still shows its VRAM", f"{rs.file_for(LCD_RS)}:{db.ln}")
            break
    ctx.instance("C15.2/display-parity", "display pixels x start lines {0, 8, 37} and x on/off states: Python stitcher == Rust display_buffer (both interpreted with symbolic VRAM)", n, 23040)


# ---------------------------------------------------------------------------
def column_arith(ctx: Ctx, py: PyProgram, rs: RustProgram) -> None:
    mod = py.module(HD_PY)
    n = 0
    W = py.value(HD_PY, "FIFO") if False else 64
    Wp = PyEval(py, mod).eval(ast.Attribute(value=ast.Name(id="HD61202"), attr="LCD_WIDTH_PIXELS", lineno=0))
    Wr = rs.eval_const(LCD_RS, "LCD_WIDTH")
    Pp = PyEval(py, mod).eval(ast.Attribute(value=ast.Name(id="HD61202"), attr="LCD_PAGES", lineno=0))
    Pr = rs.eval_const(LCD_RS, "LCD_PAGES")
    n += 2
    if (Wp, Pp) != (Wr, Pr) or Wp != 64 or Pp != 8:
        ctx.violation("C15.3/geometry", "lcd-geometry", f"chip geometry differs: Python {Wp}x{Pp}, Rust {Wr}x{Pr}", HD_PY)
    # The four chip methods are run by the two interpreters on every (page, column, busy, on) state with symbolic VRAM cells and a
    # symbolic data byte: what is read, what is stored, the next state and the returned status are compared with the HD61202 law
    # and with each other.  Nothing here depends on how the methods name their intermediate values.
    n += chip_methods(ctx, py, rs, Wp, Pp)
    # status byte bits
    st_py = py.func(HD_PY, "HD61202.read_instruction_status")
    consts = sorted({c.value for c in ast.walk(st_py) if isinstance(c, ast.Constant) and isinstance(c.value, int) and c.value > 1})
    st_rs = rs.fn(LCD_RS, "Hd61202Chip::read_status")
    rconsts = sorted({int(c["v"]) for c in walk(st_rs.body) if c.get("k") == "lit" and c["t"] == "int" and int(c["v"]) > 1})
    n += 1
    if consts != rconsts or consts != [0x20, 0x80]:
        ctx.violation("C15.3/status-bits", "status-bits", f"status byte bits: Python {consts}, Rust {rconsts}, HD61202 uses [0x20, 0x80]", f"{HD_PY} vs {rs.file_for(LCD_RS)}")
    ctx.instance("C15.3/column-arith", "data read/write column arithmetic over y in 0..63, returned cell, single store, status bits", n, 135)


def windows_and_write_effect(ctx: Ctx, py: PyProgram, rs: RustProgram) -> None:
    """(a) the address windows routed to the LCD are the same in both machines: Python MemoryOverlay bounds (and _is_lcd_region) vs
    Rust LcdController::handles; (b) for every low nibble of a window address a CPU *write* either has an effect in both models or in
    neither (Python: parse_command raising means the controller ignores the write; Rust: parse_command returning None)."""
    MEM = "pce500/memory.py"
    ctx.file_used(REPO / MEM)
    mod = py.module(MEM)
    rel = rs.file_for(LCD_RS)
    # (a)
    py_ranges = set()
    for c in ast.walk(mod.tree):
        if isinstance(c, ast.Call) and unparse(c.func).endswith("MemoryOverlay"):
            kw = {k.arg: k.value for k in c.keywords}
            nm = kw.get("name")
            if isinstance(nm, ast.Constant) and "lcd" in str(nm.value):
                try:
                    py_ranges.add((PyEval(py, mod).eval(kw["start"]), PyEval(py, mod).eval(kw["end"])))
                except (NotConst, KeyError):
                    raise AnalysisError("LCD overlay bounds are not constants")
    hf = rs.fn(LCD_RS, "LcdController::handles")
    rs_ranges = set()
    for nd in walk(hf.body):
        if nd.get("k") == "range" and nd.get("lo") is not None and nd.get("hi") is not None:
            ev = rs.evaluator(LCD_RS)
            rs_ranges.add((ev.eval(nd["lo"]), ev.eval(nd["hi"]) - (0 if nd.get("closed") else 1)))
    if len(py_ranges) < 2 or len(rs_ranges) < 2:
        raise AnalysisError(f"LCD windows not recovered: python {py_ranges}, rust {rs_ranges}")
    n = 1
    if py_ranges != rs_ranges:
        fmt_ = lambda rr: sorted(f"{a:#06x}-{b:#06x}" for a, b in rr)
        ctx.violation("C15.1/windows", key_of(MEM, "PCE500Memory.add_lcd overlays", "LCD windows differ from LcdController::handles"),
                      f"addresses routed to the LCD differ: Python overlays {fmt_(py_ranges)}, Rust handles() {fmt_(rs_ranges)}: an access in the difference reaches the controller in one machine only", f"{MEM} vs {rel}")
    # (b)
    it = RsInterp(rs, LCD_RS)
    hmod = py.module(HD_PY)
    for win in (0x2000, 0xA000):
        for lo in range(16):
            addr = win | lo
            n += 1
            ev = PyEval(py, hmod)
            try:
                p = ev.call(ev.name("parse_command"), [addr, 0xBD], {})
                py_eff = p is not None
            except NotConst as e:
                if "raises" in str(e) or "ValueError" in str(e):
                    py_eff = False
                else:
                    raise AnalysisError(f"parse_command({addr:#x}) left the evaluable fragment: {e}")
            try:
                r = _unsome(it.call("parse_command", [addr, 0xBD]))
            except RsNotConst as e:
                raise AnalysisError(f"Rust parse_command({addr:#x}) left the evaluable fragment: {e}")
            rs_eff = r is not None
            if py_eff != rs_eff:
                ctx.violation("C15.1/write-effect", key_of(HD_PY, "parse_command", f"write with the R/W line {'high' if lo & 1 else 'low'}: Python {'acts' if py_eff else 'ignores'}, Rust {'acts' if rs_eff else 'ignores'}"),
                              f"a CPU write to {addr:#06x} {'changes' if rs_eff else 'does not change'} the Rust model and {'changes' if py_eff else 'does not change'} the Python model "
                              f"(Python parse_command {'accepts' if py_eff else 'rejects'} it, Rust parse_command ignores the R/W line)", f"{HD_PY} vs {rel}")
    ctx.instance("C15.1/windows-write-effect", "LCD window bounds Python == Rust; write effect per (window, low nibble) Python == Rust", n, 33)


def busy_flag(ctx: Ctx, py: PyProgram, rs: RustProgram) -> None:
    """HD61202 status: every instruction and data write raises BUSY unconditionally, a status read reports it in bit 7 and clears it -
    in both models."""
    n = 0
    for q in ("HD61202.write_instruction", "HD61202.write_data"):
        fn = py.func(HD_PY, q)
        n += 1
        top = [st for st in fn.body if isinstance(st, ast.Assign) and any(attr_chain(t) == "self.state.busy" for t in st.targets) and isinstance(st.value, ast.Constant) and st.value.value is True]
        if not top:
            ctx.violation("C15.3/busy", key_of(HD_PY, q, "BUSY not raised"), f"{q} does not set state.busy = True on every path: a status read right after the write reports 'ready' where the HD61202 (and the Rust model) report BUSY (bit 7)", f"{HD_PY}:{fn.lineno}")
    for q in ("Hd61202Chip::write_instruction", "Hd61202Chip::write_data"):
        fn = rs.fn(LCD_RS, q)
        n += 1
        top = [st for st in fn.body["stmts"] if st.get("k") == "expr_stmt" and st["e"].get("k") == "assign" and expr_text(st["e"]["l"]) == "self.state.busy" and expr_text(st["e"]["r"]) == "true"]
        if not top:
            ctx.violation("C15.3/busy", key_of(rs.file_for(LCD_RS), q, "BUSY not raised"), f"{q} does not set state.busy = true on every path", fn.where)
    rdst = py.func(HD_PY, "HD61202.read_instruction_status")
    n += 1
    txt = unparse(rdst)
    if not ("self.state.busy" in txt and any(isinstance(st, ast.Assign) and any(attr_chain(t) == "self.state.busy" for t in st.targets) and isinstance(st.value, ast.Constant) and st.value.value is False for st in ast.walk(rdst)) and ("128" in txt or "0x80" in txt)):
        ctx.violation("C15.3/busy", key_of(HD_PY, "HD61202.read_instruction_status", "busy bit"), "read_status does not report BUSY in bit 7 and clear it", f"{HD_PY}:{rdst.lineno}")
    ctx.instance("C15.3/busy", "BUSY raised by every write and reported/cleared by the status read, both models", n, 5)


# ---------------------------------------------------------------------------
class _Img:
    """Abstract PIL image: a rectangle of symbolic pixels (each is None = background or the VRAM bit that drives it). Only the
    operations the repository's renderers use are defined; anything else raises and fails the analysis closed."""

    _sa_host = True

    def __init__(self, w: int, h: int, px: dict | None = None):
        self.width, self.height, self.px = int(w), int(h), dict(px or {})

    @property
    def size(self) -> tuple:
        return (self.width, self.height)

    def convert(self, _mode: Any) -> "_Img":
        return _Img(self.width, self.height, self.px)

    def copy(self) -> "_Img":
        return _Img(self.width, self.height, self.px)

    def load(self) -> "_Img":
        return self

    def __setitem__(self, xy: Any, v: Any) -> None:
        self.px[(int(xy[0]), int(xy[1]))] = v

    def crop(self, box: Any) -> "_Img":
        x0, y0, x1, y1 = (int(v) for v in box)
        return _Img(x1 - x0, y1 - y0, {(x - x0, y - y0): v for (x, y), v in self.px.items() if x0 <= x < x1 and y0 <= y < y1})

    def transpose(self, how: Any) -> "_Img":
        if how == "FLIP_LEFT_RIGHT":
            return _Img(self.width, self.height, {(self.width - 1 - x, y): v for (x, y), v in self.px.items()})
        if how == "FLIP_TOP_BOTTOM":
            return _Img(self.width, self.height, {(x, self.height - 1 - y): v for (x, y), v in self.px.items()})
        raise NotConst(f"Image.transpose({how})")

    def paste(self, other: Any, at: Any = (0, 0)) -> None:
        if not isinstance(other, _Img):
            raise NotConst("paste of a non-image")
        ox, oy = int(at[0]), int(at[1])
        for y in range(other.height):
            for x in range(other.width):
                if 0 <= x + ox < self.width and 0 <= y + oy < self.height:
                    self.px[(x + ox, y + oy)] = other.px.get((x, y))

    def resize(self, *_a: Any, **_k: Any) -> "_Img":
        raise NotConst("resize on the zoom=1 path")


class _Byte:
    def __init__(self, cell: tuple):
        self.cell = cell

    def __rshift__(self, n: Any) -> "_Bit":
        return _Bit(self.cell, int(n), False)


class _Bit:
    """(byte >> n) [& 1]; its truth value is the pixel's only dependence on VRAM, recorded by the pixel store that it guards."""
    last: "_Bit | None" = None

    def __init__(self, cell: tuple, bit: int, masked: bool):
        self.cell, self.bit, self.masked = cell, bit, masked

    def __and__(self, m: Any) -> "_Bit":
        if int(m) != 1:
            raise NotConst("bit test with a mask other than 1")
        return _Bit(self.cell, self.bit, True)

    def __bool__(self) -> bool:
        if not self.masked:
            raise NotConst("pixel test on an unmasked shift")
        _Bit.last = self
        return False


class _ByteVram:
    def __init__(self, chip: int):
        self.chip = chip

    def __getitem__(self, page: Any) -> Any:
        chip = self.chip

        class Row:
            def __getitem__(self, col: Any) -> _Byte:
                return _Byte(("vram", chip, int(page), int(col)))
        return Row()


class _PixImg(_Img):
    def __setitem__(self, xy: Any, v: Any) -> None:
        b = _Bit.last
        if b is None:
            raise NotConst("pixel store not guarded by a VRAM bit test")
        self.px[(int(xy[0]), int(xy[1]))] = ("px", b.cell, b.bit)
        _Bit.last = None


def image_renderer(ctx: Ctx, py: PyProgram) -> None:
    """The PIL renderer of the panel (render_vram_image + render_combined_image, what get_combined_display shows) is interpreted over
    an abstract image algebra (new / load / pixel store / convert / crop / transpose / paste) and must place every VRAM bit at the
    pixel the display-buffer stitcher places it: one panel, one pixel map."""
    mod = py.module(HD_PY)
    consts = {}
    for st in ast.walk(mod.tree):
        if isinstance(st, ast.ClassDef) and st.name == "HD61202":
            for a in st.body:
                if isinstance(a, ast.Assign) and isinstance(a.targets[0], ast.Name):
                    try:
                        cev = PyEval(py, mod)
                        cev.env = dict(consts)
                        v = cev.eval(a.value)
                        if isinstance(v, int):
                            consts[a.targets[0].id] = v
                    except NotConst:
                        pass
    ctx.need({"LCD_WIDTH_PIXELS", "LCD_HEIGHT_PIXELS", "LCD_PAGES", "PAGE_HEIGHT_PIXELS"} <= set(consts), "HD61202 geometry constants not found")

    class _ImageMod:
        _sa_host = True
        FLIP_LEFT_RIGHT = "FLIP_LEFT_RIGHT"
        FLIP_TOP_BOTTOM = "FLIP_TOP_BOTTOM"
        NEAREST = "NEAREST"

        @staticmethod
        def new(mode: Any, size: Any, *_a: Any) -> _Img:
            return (_PixImg if mode == "1" else _Img)(size[0], size[1])

    rv = py.func(HD_PY, "HD61202.render_vram_image")
    chip_imgs = []
    for chip in (0, 1):
        ev = PyEval(py, mod, budget=[3_000_000])
        ev.env = {"self": Term("HD61202", (), dict(consts, vram=_ByteVram(chip))), "zoom": 1, "Image": _ImageMod}
        try:
            ev.exec_block([st for st in rv.body if not isinstance(st, ast.Return)])
            ret = [st for st in rv.body if isinstance(st, ast.Return)][-1]
            img = ev.eval(ret.value)
        except NotConst as e:
            raise AnalysisError(f"render_vram_image is outside the image algebra: {e}")
        ctx.need(isinstance(img, _Img), "render_vram_image does not return an image")
        chip_imgs.append(img)
        want = {(c, p * consts["PAGE_HEIGHT_PIXELS"] + b) for p in range(consts["LCD_PAGES"]) for c in range(consts["LCD_WIDTH_PIXELS"]) for b in range(consts["PAGE_HEIGHT_PIXELS"])}
        bad = [(xy, v) for xy, v in img.px.items() if v != ("px", ("vram", chip, xy[1] // 8, xy[0]), xy[1] % 8)]
        if set(img.px) != want or bad:
            ctx.violation("C15.2/image-renderer", key_of(HD_PY, "HD61202.render_vram_image", "chip image"), f"the per-chip image is not the 64x64 map x=column, y=page*8+bit: {len(set(img.px) ^ want)} pixels missing/extra, first wrong {bad[:2]}", f"{HD_PY}:{rv.lineno}")
    rc = py.func(HD_PY, "render_combined_image")
    ev = PyEval(py, mod, budget=[3_000_000])

    class _Lcd:
        _sa_host = True

        def __init__(self, img: _Img):
            self.img = img

        def render_vram_image(self, zoom: int = 1) -> _Img:
            return self.img.copy()
    ev.env = {"lcds": [_Lcd(chip_imgs[0]), _Lcd(chip_imgs[1])], "zoom": 1, "Image": _ImageMod, "HD61202": Term("HD61202", (), dict(consts))}
    try:
        ev.exec_block([st for st in rc.body if not isinstance(st, ast.Return)])
        ret = [st for st in rc.body if isinstance(st, ast.Return)][-1]
        panel = ev.eval(ret.value)
    except NotConst as e:
        raise AnalysisError(f"render_combined_image is outside the image algebra: {e}")
    ctx.need(isinstance(panel, _Img), "render_combined_image does not return an image")
    ref = getattr(ctx, "_pixel_map", None)
    ctx.need(bool(ref), "reference pixel map (get_display_buffer) missing")
    n = 0
    bad = []
    if panel.size != (240, 32):
        ctx.violation("C15.2/image-renderer", key_of(HD_PY, "render_combined_image", "panel size"), f"combined image is {panel.size}, the panel is (240, 32)", f"{HD_PY}:{rc.lineno}")
    for row in range(32):
        for col in range(240):
            n += 1
            v = ref.get((row, col))
            if v is None:
                continue   # the stitcher itself leaves this pixel undriven: reported by C15.2/pixel-cover
            if panel.px.get((col, row)) != v:
                bad.append(((row, col), v, panel.px.get((col, row))))
    if bad:
        (row, col), v, got = bad[0]
        ctx.violation("C15.2/image-renderer", key_of(HD_PY, "render_combined_image", "pixel map differs from get_display_buffer"),
                      f"{len(bad)} of {n} panel pixels are driven by a different VRAM bit in the PIL renderer than in get_display_buffer; e.g. pixel (row {row}, col {col}) is {v[1:]} in the buffer but {got[1:] if got else None} in the image", f"{HD_PY}:{rc.lineno}")
    ctx.instance("C15.2/image-renderer", "panel pixels of render_combined_image (abstract image algebra) == get_display_buffer map", n, 7680, discharged=n - len(bad))


class _Grid:
    """VRAM stand-in: grid[p][c] reads as the symbolic cell ("cell", p, c); stores are recorded."""
    _sa_host = True

    def __init__(self, log: list, tag: str):
        self.log, self.tag = log, tag

    def __getitem__(self, p: Any) -> Any:
        grid = self

        class Row:
            _sa_host = True

            def __getitem__(self, c: Any) -> Any:
                grid.log.append(("read", grid.tag, int(p), int(c)))
                return ("cell", int(p), int(c))

            def __setitem__(self, c: Any, v: Any) -> None:
                grid.log.append(("store", grid.tag, int(p), int(c), v))
        return Row()

    def __len__(self) -> int:
        return 8


class _HostObj:
    _sa_host = True

    def __init__(self, **kw: Any):
        for k, v in kw.items():
            setattr(self, k, v)


def chip_methods(ctx: Ctx, py: PyProgram, rs: RustProgram, W: int, P: int) -> int:
    from ..pyfacts import _Return
    from ..rsfacts import _RsReturn
    mod = py.module(HD_PY)
    rel = rs.file_for(LCD_RS)
    consts = {}
    for st in ast.walk(mod.tree):
        if isinstance(st, ast.ClassDef) and st.name == "HD61202":
            for a_ in st.body:
                if isinstance(a_, ast.Assign) and isinstance(a_.targets[0], ast.Name):
                    try:
                        cev = PyEval(py, mod)
                        cev.env = dict(consts)
                        v = cev.eval(a_.value)
                        if isinstance(v, int):
                            consts[a_.targets[0].id] = v
                    except NotConst:
                        pass

    def run_py(qual: str, page: int, y: int, busy: bool, on: bool, args: dict) -> tuple:
        fn = py.func(HD_PY, qual)
        log: list = []
        state = _HostObj(on=on, busy=busy, start_line=0, page=page, y_address=y)
        me = _HostObj(state=state, vram=_Grid(log, "vram"), vram_pc_source=_Grid(log, "trace"), instruction_count=0, data_write_count=0, data_read_count=0, on_off_count=0, **consts)
        ev = PyEval(py, mod, budget=[20000])
        ev.env = {"self": me, **args}
        ret = None
        try:
            try:
                ev.exec_block(fn.body)
            except _Return as r:
                ret = r.v
        except NotConst as e:
            raise AnalysisError(f"{qual} left the evaluable fragment: {e}")
        return ret, (state.page, state.y_address, bool(state.busy), bool(state.on)), [x for x in log if x[1] == "vram"]

    class _It(RsInterp):
        def mcall_hook(self, recv: Any, m: str, args: list, env: dict, e: dict) -> Any:
            if m == "wrapping_add" and isinstance(recv, int):
                return recv + args[0]
            return NotImplemented
    it = _It(rs, LCD_RS)

    class _RsGrid(dict):
        def __init__(self, log: list, tag: str):
            super().__init__()
            self.log, self.tag = log, tag

        def __getitem__(self, p: Any) -> Any:
            g_ = self

            class Row(dict):
                def __getitem__(self, c: Any) -> Any:
                    g_.log.append(("read", g_.tag, int(p), int(c)))
                    return ("cell", int(p), int(c))

                def __setitem__(self, c: Any, v: Any) -> None:
                    g_.log.append(("store", g_.tag, int(p), int(c), v))
            return Row()

    def run_rs(qual: str, page: int, y: int, busy: bool, on: bool, args: dict) -> tuple:
        fn = rs.fn(LCD_RS, qual)
        log: list = []
        state = {"__struct__": "Hd61202State", "on": on, "busy": busy, "start_line": 0, "page": page, "y_address": y}
        me = {"__struct__": "Hd61202Chip", "state": state, "vram": _RsGrid(log, "vram"), "vram_trace": _RsGrid(log, "trace"), "instruction_count": 0, "data_write_count": 0, "data_read_count": 0}
        env = {"self": me, "LCD_WIDTH": W, "LCD_PAGES": P, **args}
        try:
            try:
                ret = it.block(fn.body, env)
            except _RsReturn as r:
                ret = r.v
        except Exception as e:  # noqa: BLE001
            raise AnalysisError(f"{qual} (Rust) left the evaluable fragment: {type(e).__name__}: {e}")
        return ret, (state["page"], state["y_address"], bool(state["busy"]), bool(state["on"])), [x for x in log if x[1] == "vram"]

    n = 0
    bad: dict = {}

    def report(rule: str, construct: str, msg: str) -> None:
        if (rule, construct) not in bad:
            bad[(rule, construct)] = msg
    for page in range(P):
        for y in range(W):
            n += 1
            # data read: returns the cell of the previous column (the output latch), advances the column, both models
            pr_ = run_py("HD61202.read_data", page, y, False, True, {})
            rr_ = run_rs("Hd61202Chip::read_data", page, y, False, True, {})
            want = (("cell", page, (y - 1) % W), (page, (y + 1) % W))
            for lang, r_ in (("Python", pr_), ("Rust", rr_)):
                got = (r_[0], r_[1][:2])
                if got != want:
                    report("C15.3/read-col" if got[0] != want[0] else "C15.3/read-advance", f"{lang} read_data", f"data read at page {page} column {y}: {lang} returns {got[0]} and moves to {got[1]}; the HD61202 returns {want[0]} and moves to {want[1]}")
                if any(x[0] == "store" for x in r_[2]):
                    report("C15.3/read-value", f"{lang} read_data stores", f"{lang} data read writes VRAM: {r_[2]}")
            # data write: one store of the byte at (page, column), column advances, BUSY raised
            pw = run_py("HD61202.write_data", page, y, False, True, {"data": "D", "pc_source": None})
            rw = run_rs("Hd61202Chip::write_data", page, y, False, True, {"data": "D", "trace": None})
            for lang, r_ in (("Python", pw), ("Rust", rw)):
                stores = [x for x in r_[2] if x[0] == "store"]
                if stores != [("store", "vram", page, y, "D")]:
                    report("C15.3/write-store", f"{lang} write_data", f"data write at page {page} column {y}: {lang} stores {stores}; expected exactly one store of the byte at ({page}, {y})")
                if r_[1][:2] != (page, (y + 1) % W):
                    report("C15.3/write-advance", f"{lang} write_data", f"data write at page {page} column {y}: {lang} moves to {r_[1][:2]}, expected {(page, (y + 1) % W)}")
                if r_[1][2] is not True:
                    report("C15.3/busy", f"{lang} write_data", f"{lang} data write at page {page} column {y} leaves BUSY clear")
    for busy in (False, True):
        for on in (False, True):
            n += 1
            ps = run_py("HD61202.read_instruction_status", 3, 5, busy, on, {})
            rs_ = run_rs("Hd61202Chip::read_status", 3, 5, busy, on, {})
            want = (0x80 if busy else 0) | (0 if on else 0x20)
            for lang, r_ in (("Python", ps), ("Rust", rs_)):
                if r_[0] != want or r_[1][2] is not False or r_[1][:2] != (3, 5) or r_[1][3] != on:
                    report("C15.3/status-bits", f"{lang} status read", f"status read with busy={busy} on={on}: {lang} returns {r_[0]!r} and leaves (page, column, busy, on)={r_[1]}; the HD61202 returns {want:#04x}, clears BUSY and changes nothing else")
    for (rule, construct), msg in bad.items():
        ctx.violation(rule, key_of(HD_PY if construct.startswith("Python") else rel, construct, rule.split("/")[1]), msg, f"{HD_PY} vs {rel}")
    return n


def storage_shape(ctx: Ctx, py: PyProgram) -> None:
    """Two shape clauses of "one data write changes the eight pixels of one column" and of "what the snapshot shows is the state":
    (a) the rows of a VRAM grid are distinct objects - a grid is never built by repeating one mutable row (`[[0] * W] * P`), which
    would make a store into one page appear in all of them; (b) a stored copy of chip state in the display layer is dropped by every
    function that changes a field it reads (shared with C16: reads advance the column pointer too)."""
    from ..memo import incoherent_copies
    n = 0
    for rel in (HD_PY, CW_PY, PL_PY):
        mod = py.module(rel)
        for a in ast.walk(mod.tree):
            if isinstance(a, ast.BinOp) and isinstance(a.op, ast.Mult):
                for side in (a.left, a.right):
                    if isinstance(side, ast.List) and any(isinstance(e, (ast.List, ast.ListComp, ast.Dict, ast.Set)) or (isinstance(e, ast.BinOp) and isinstance(e.op, ast.Mult) and any(isinstance(x, ast.List) for x in (e.left, e.right))) for e in side.elts):
                        n += 1
                        ctx.violation("C15.2/rows-distinct", key_of(rel, "grid built by repeating a mutable row", unparse(a)[:60]),
                                      f"`{unparse(a)[:80]}` builds a grid whose rows are one and the same list object: a data write to one page shows up in every page (8 VRAM bytes and 8 x 8 pixels change instead of one byte / one column)", f"{rel}:{a.lineno}")
        for st in ast.walk(mod.tree):
            if isinstance(st, ast.Assign) and any(isinstance(t, ast.Attribute) and t.attr in ("vram", "vram_pc_source") for t in st.targets):
                n += 1
    mods = [py.module(f) for f in (PL_PY, CW_PY)]
    found, scanned = incoherent_copies(mods, py.module(HD_PY), "HD61202")
    for rel, ln, what in found:
        ctx.violation("C15.3/live-sources", key_of(rel, what.split(" changes ")[0], "stale stored copy"), what.replace("the snapshot saver among them", "get_snapshot() among them"), f"{rel}:{ln}")
    ctx.instance("C15.2/storage-shape", "VRAM grid constructions with distinct rows; display-layer methods scanned for stored copies of chip state", n + scanned, 20)


def front_door_mirrors(ctx: Ctx, py: PyProgram, rs: RustProgram) -> None:
    """Only the low nibble of an LCD window address selects chip / register / direction: every address of a window behaves like the
    window base plus its low nibble.  HD61202Controller.read/write are interpreted whole (helpers and class attributes of the real
    class included, the pipeline and the chips are logging stand-ins) for mirrored addresses of both windows and compared with the
    canonical address: same calls into the pipeline / chips, same return value."""
    from ..pyfacts import ClassHost, _Return
    mod = py.module(CW_PY)
    cls = py.need_cls(mod, "HD61202Controller")
    # the windows: the Rust controller's handles() ranges (the Python bus overlays route a subset of them - a recorded finding - but
    # the controller object is also driven directly, by the LLAMA bridge and by tools, with any address of the hardware windows)
    wins = []
    hf = rs.fn(LCD_RS, "LcdController::handles")
    for nd in walk(hf.body):
        if nd.get("k") == "range" and nd.get("lo") is not None and nd.get("hi") is not None:
            ev_ = rs.evaluator(LCD_RS)
            wins.append((ev_.eval(nd["lo"]), ev_.eval(nd["hi"]) - (0 if nd.get("closed") else 1)))
    ctx.need(len(wins) >= 2, "LCD overlay windows not found")
    log: list = []

    class Pipe(_HostObj):
        def apply(self, op: Any) -> None:
            cmd = op.kwargs.get("command") if hasattr(op, "kwargs") else op
            log.append(("apply", repr(cmd)))

    class Chip(_HostObj):
        def read_data(self) -> Any:
            log.append(("read_data", self.idx))
            return 0x10 + self.idx

        def read_instruction_status(self) -> Any:
            log.append(("status", self.idx))
            return 0x40 + self.idx

    def run_(name: str, args: dict) -> tuple:
        me = ClassHost(py, mod, cls, pipeline=Pipe(), chips=[Chip(idx=0), Chip(idx=1)], cs_both_count=0, cs_left_count=0, cs_right_count=0, _cpu=None)
        log.clear()
        try:
            ret = me._sa_call(cls, cls.methods[name], (), args)
        except NotConst as e:
            raise AnalysisError(f"HD61202Controller.{name}({args.get('address'):#x}) left the evaluable fragment: {e}")
        return ret, list(log)
    n = 0
    seen = set()
    for lo_, hi_ in sorted(wins):
        span = hi_ - lo_ + 1
        mids = sorted({0, 0x10, span // 3 & ~0xF, span // 2 & ~0xF, span - 0x10})
        for mid in mids:
            for nib in range(16):
                addr, canon = lo_ + mid + nib, lo_ + nib
                if addr > hi_ or addr == canon:
                    continue
                for name, args in (("write", {"value": 0x3F, "cpu_pc": 0}), ("write", {"value": 0x41, "cpu_pc": 0}), ("read", {"cpu_pc": 0})):
                    n += 1
                    got = run_(name, {"address": addr, **args})
                    want = run_(name, {"address": canon, **args})
                    if got != want and (name, lo_) not in seen:
                        seen.add((name, lo_))
                        ctx.violation("C15.1/front-door-mirror", key_of(CW_PY, f"HD61202Controller.{name}", f"window {lo_:#06x}: mirrored address treated differently"),
                                      f"HD61202Controller.{name} at {addr:#06x} does {got[1] or 'nothing'} (returns {got[0]!r}) but at the canonical {canon:#06x} it does {want[1] or 'nothing'} (returns {want[0]!r}): "
                                      f"the whole window {lo_:#06x}-{hi_:#06x} is routed to the controller and only the low nibble is decoded, so the access is dropped", f"{CW_PY}:{cls.methods[name].lineno}")
    # a read drives the bus from one chip: with both chips selected nothing is returned and no chip is touched (a status read clears
    # BUSY, so touching both changes what the next per-chip status read sees); the Rust LcdController::read returns None there
    for lo_, _hi in sorted(wins):
        for nib in range(16):
            n += 1
            ret, lg = run_("read", {"address": lo_ + nib, "cpu_pc": 0})
            if len(lg) > 1 or (len(lg) == 0 and ret is not None):
                ctx.violation("C15.1/read-one-chip", key_of(CW_PY, "HD61202Controller.read", "a read touches more than one chip"),
                              f"HD61202Controller.read({lo_ + nib:#06x}) performs {lg} and returns {ret!r}: a read with both chips selected must return nothing and leave both chips alone "
                              "(it would clear BUSY on both; the Rust controller returns None)", f"{CW_PY}:{cls.methods['read'].lineno}")
                break
    ctx.instance("C15.1/front-door-mirror", "mirrored LCD window addresses x {instruction write, data write, read}: controller front door behaves like window base + low nibble", n, 300)


def pipeline_delivers(ctx: Ctx, py: PyProgram) -> None:
    """Every command reaches every selected chip: LCDPipeline._apply_command is interpreted (chips are logging stand-ins) for data and
    instruction commands x chip selects x column positions incl. the left chip's off-glass columns 56..63 - each selected chip gets
    exactly one write_data / write_instruction call whatever its column is (a data write that is skipped neither stores nor
    post-increments: the column stalls and never wraps)."""
    from ..pyfacts import ClassHost
    mod = py.module(PL_PY)
    cls = py.need_cls(mod, "LCDPipeline")
    ctx.need("_apply_command" in cls.methods, "LCDPipeline._apply_command vanished")
    hmod = py.module(HD_PY)
    hev = PyEval(py, hmod)
    sel = {nm: hev.eval(ast.parse(f"ChipSelect.{nm}", mode="eval").body) for nm in ("BOTH", "LEFT", "RIGHT")}
    onoff = hev.eval(ast.parse("Instruction.ON_OFF", mode="eval").body)
    width = 64
    n = 0
    for cs_name, want in (("BOTH", {0, 1}), ("LEFT", {0}), ("RIGHT", {1})):
        for col in (0, 1, 55, 56, 60, 63):
            for instr in (None, onoff):
                n += 1
                log: list = []

                class Chip(_HostObj):
                    def write_data(self, data: Any, pc_source: Any = None) -> None:
                        log.append(("data", self.idx))
                        self.state.y_address = (self.state.y_address + 1) % width

                    def write_instruction(self, i_: Any, d_: Any) -> None:
                        log.append(("instr", self.idx))
                chips = [Chip(idx=i, state=_HostObj(y_address=col, page=0), LCD_WIDTH_PIXELS=width) for i in range(2)]
                me = ClassHost(py, mod, cls, _chips=chips, _dispatch=lambda ev: None)
                cmd = _HostObj(cs=sel[cs_name], instr=instr, data=0x5A)
                try:
                    me._sa_call(cls, cls.methods["_apply_command"], (cmd, 0), {})
                except NotConst as e:
                    raise AnalysisError(f"LCDPipeline._apply_command left the evaluable fragment: {e}")
                kind = "data" if instr is None else "instr"
                got = sorted(i for k_, i in log if k_ == kind)
                if got != sorted(want):
                    ctx.violation("C15.3/pipeline-delivers", key_of(PL_PY, "LCDPipeline._apply_command", f"{kind} command not delivered to every selected chip"),
                                  f"a {kind} command with chip select {cs_name} and the column pointer at {col} reaches chips {got}, not {sorted(want)}: the skipped chip neither stores the byte nor advances its column "
                                  "(read-back returns stale data, the two chips fall out of step, the column never wraps)", f"{PL_PY}:{cls.methods['_apply_command'].lineno}")
                    ctx.instance("C15.3/pipeline-delivers", "commands x chip selects x column positions through LCDPipeline._apply_command (interpreted): one chip call per selected chip", n, 1)
                    return
    ctx.instance("C15.3/pipeline-delivers", "commands x chip selects x column positions through LCDPipeline._apply_command (interpreted): one chip call per selected chip", n, 36)


def shared_chip_objects(ctx: Ctx, py: PyProgram) -> None:
    """The controller front end and the command pipeline work on the *same* chip objects: `self.A = self.B.C` in a constructor makes
    A an alias of the collaborator's C.  Re-binding either name outside a constructor splits them - reads go to one set of chips,
    writes to the other (after a snapshot restore, a reset ..)."""
    mods = [py.module(f) for f in (CW_PY, "pce500/display/pipeline.py")]
    classes = {c.name: (m, c) for m in mods for c in ast.walk(m.tree) if isinstance(c, ast.ClassDef)}
    n = 0
    for cname, (m, c) in sorted(classes.items()):
        init = next((f for f in c.body if isinstance(f, ast.FunctionDef) and f.name == "__init__"), None)
        if init is None:
            continue
        field_cls = {}
        for st in ast.walk(init):
            if isinstance(st, ast.Assign) and len(st.targets) == 1 and attr_chain(st.targets[0]) and attr_chain(st.targets[0]).startswith("self.") and isinstance(st.value, ast.Call) and isinstance(st.value.func, ast.Name):
                field_cls[attr_chain(st.targets[0])[5:]] = st.value.func.id
        for st in ast.walk(init):
            if not (isinstance(st, ast.Assign) and len(st.targets) == 1):
                continue
            tgt, src = attr_chain(st.targets[0]), attr_chain(st.value) if isinstance(st.value, ast.Attribute) else None
            if not (tgt and src and tgt.startswith("self.") and tgt.count(".") == 1 and src.startswith("self.") and src.count(".") == 2):
                continue
            a, b, cfield = tgt[5:], src.split(".")[1], src.split(".")[2]
            n += 1
            owners = [(cname, m, c, a)]
            if field_cls.get(b) in classes:
                om, oc = classes[field_cls[b]]
                owners.append((oc.name, om, oc, cfield))
            for oname, om, oc, fld in owners:
                for f in [f for f in oc.body if isinstance(f, ast.FunctionDef) and f.name != "__init__"]:
                    for x in ast.walk(f):
                        ts = x.targets if isinstance(x, ast.Assign) else [x.target] if isinstance(x, (ast.AugAssign, ast.AnnAssign)) else []
                        for t in ts:
                            for e in (t.elts if isinstance(t, (ast.Tuple, ast.List)) else [t]):
                                if attr_chain(e) == "self." + fld:
                                    ctx.violation("C15.5/shared-chips", key_of(om.rel, f"{oname}.{f.name}", f"self.{fld} re-bound"),
                                                  f"{oname}.{f.name} re-binds self.{fld}, which {cname}.__init__ shares with its collaborator (`{unparse(st)}`): afterwards the front end and the pipeline act on different chip objects", f"{om.rel}:{x.lineno}")
    ctx.instance("C15.5/shared-chips", "constructor aliases of a collaborator's attribute in the display layer; neither side is re-bound later", n, 1)
