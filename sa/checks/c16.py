"""C16 - saving and restoring a snapshot does not change the future.

Decides (writer/reader agreement and field coverage; not step-for-step equality of futures):
  1 DEF-USE     keys written by each saver cover the keys each loader requires, within and across languages:
                bundle members, top-level metadata, timer/interrupt/keyboard sub-objects, key *formats* (TEMP registers)
  2 TABLE       register blob layout (names, order, widths, 18 bytes), magic, version
  3 FIELD-COVER run-time state that steers the step path (read in a branch condition and written on the step path)
                is saved and restored, or is in a frozen, reasoned transient list
  4 COMPLETE    per-entry save loops store every entry; the flattened memory image copies overlay payloads through the last window byte;
                restore of timer targets is exact
"""
from __future__ import annotations

import ast
import re
from typing import Any

from .. import cfg as cfgmod
from .. import isa
from ..core import REPO, AnalysisError, Ctx
from ..pyfacts import PyEval, PyProgram, attr_chain, unparse
from ..rsfacts import RustProgram, expr_text, pat_text, walk
from ..rules import key_of, py_defs, py_leaves, rs_defs, rs_leaves

LEVEL = "other"
EXPLANATION = (
    "DEF-USE / FIELD-COVER over the snapshot savers and loaders of both languages: the set of JSON keys and bundle members each saver "
    "emits is extracted from dict displays / struct definitions (with serde attributes), the set each loader requires from "
    "`metadata[...]`/`.get(...)`/non-default struct fields; required(loader) must be a subset of written(saver) for all four "
    "saver x loader pairs. Key formats parsed by a loader (TEMP register names) must be the format the other saver writes. State "
    "fields that steer the step path must be saved and restored. Equality of the whole future from every reachable state is declined."
)
TRUSTED = ["syn / CPython parsers", "serde semantics: a struct field without #[serde(default)] that is not Option<_> is required on load; Option fields default to None",
           "frozen transient-field list in this file (one reason per entry)"]
CLAIM = ("Decides that every snapshot key/member/format a loader depends on is produced by both savers, that the 18-byte register layout and magic/version agree, and that "
         "control-steering run-time state is covered by save+restore in both cores (exceptions listed as findings or frozen transients).")
NOTE = "Does not decide that the restored machine's future equals the original's; only that no needed piece of state is missing or unparsable."
TECHNIQUE = "writer/reader key-set and key-format agreement + field-coverage analysis over both languages' snapshot code"

EMU = "pce500/emulator.py"
KM_PY = "pce500/keyboard_matrix.py"
STEPPER = "sc62015/pysc62015/stepper.py"
SNAP_RS = "core/src/snapshot.rs"
TIMER_RS = "core/src/timer.rs"
KB_RS = "core/src/keyboard.rs"


def run(ctx: Ctx) -> None:
    py = PyProgram()
    rs = RustProgram()
    for f in (EMU, KM_PY, STEPPER):
        ctx.file_used(REPO / f)
    for s in (SNAP_RS, isa.LIB_RS, TIMER_RS, KB_RS, isa.STATE_RS):
        ctx.file_used(REPO / rs.file_for(s))
    layout(ctx, py, rs)
    rust_apply_whole(ctx, rs, "C16.2/apply-whole", "C16.2/rust-apply-whole")
    keys(ctx, py, rs)
    temp_key_format(ctx, py, rs)
    field_cover_rust(ctx, rs)
    field_cover_python(ctx, py)
    save_completeness(ctx, py)
    from ..snaprules import timer_restore_findings
    found, nn = timer_restore_findings(py)
    for key, what, ln in found:
        ctx.violation("C16.6/restore-exact", key, what, f"{EMU}:{ln}")
    ctx.instance("C16.6/restore-exact", "load_snapshot restores saved timer targets unconditionally and unchanged", nn, 2)
    save_exact(ctx, py)
    live_sources(ctx, py)
    lcd_state_cover(ctx, py, rs)
    restore_identity(ctx, py, rs)
    save_is_pure_and_restore_is_unconditional(ctx, py)
    keyboard_restore_identity(ctx, py)
    restore_once(ctx, py)


# ---------------------------------------------------------------------------
def layout(ctx: Ctx, py: PyProgram, rs: RustProgram) -> None:
    pl = py.value(EMU, "_SNAPSHOT_REGISTER_LAYOUT")
    rl = rs.eval_const(SNAP_RS, "SNAPSHOT_REGISTER_LAYOUT")
    a = [(n.upper(), w) for n, w in pl]
    b = [(n.upper(), w) for n, w in rl]
    n = len(a)
    if a != b:
        ctx.violation("C16.2/register-layout", "SNAPSHOT_REGISTER_LAYOUT", f"register blob layout differs: Python {a}, Rust {b}", f"{EMU} vs {rs.file_for(SNAP_RS)}")
    ctx.observe(f"register blob is {sum(w for _n, w in a)} bytes in both implementations (the property text says 18; equality of the two layouts is what is decided)")
    # widths vs register sizes
    sizes = {k.name: v for k, v in py.value(isa.EMU_PY, "REGISTER_SIZE").items()}
    for nme, w in a:
        if sizes.get(nme) != w:
            ctx.violation("C16.2/register-layout", f"SNAPSHOT_REGISTER_LAYOUT[{nme}]", f"blob width of {nme} is {w}, register file stores {sizes.get(nme)} bytes", EMU)
    # pack/unpack iterate the same layout constant, little endian
    for fname in ("_pack_register_bytes", "_unpack_register_bytes"):
        f = py.func(EMU, fname)
        n += 1
        its = [unparse(l.iter) for l in ast.walk(f) if isinstance(l, ast.For)]
        le = any(isinstance(k, ast.keyword) and k.arg == "byteorder" and unparse(k.value) == "'little'" for k in ast.walk(f))
        if "_SNAPSHOT_REGISTER_LAYOUT" not in its or not le:
            ctx.violation("C16.2/register-layout", key_of(EMU, fname, "layout-iteration"), f"{fname} does not iterate _SNAPSHOT_REGISTER_LAYOUT little-endian", f"{EMU}:{f.lineno}")
    for fname in ("pack_registers", "unpack_registers"):
        f = rs.fn(SNAP_RS, fname)
        n += 1
        its = [expr_text(l["iter"]) for l in walk(f.body) if l.get("k") == "for"]
        # little endian: the shift amount is <byte index> * 8, the byte index being the variable of an inner counting loop
        loop_vars = set()
        for l in walk(f.body):
            if l.get("k") == "for":
                loop_vars |= {p_["name"] for p_ in walk(l["pat"]) if p_.get("k") == "p_ident"}

        def _idx_times_8(x: dict) -> bool:
            t = expr_text(x).replace("(", "").replace(")", "").replace(" ", "")
            return any(t in (f"{v}*8", f"8*{v}") for v in loop_vars)
        if not any("SNAPSHOT_REGISTER_LAYOUT" in t for t in its) or not any(_idx_times_8(x["r"]) for x in walk(f.body) if x.get("k") == "binary" and x["op"] in ("<<", ">>")):
            ctx.violation("C16.2/register-layout", key_of(rs.file_for(SNAP_RS), fname, "layout-iteration"), f"{fname} does not iterate SNAPSHOT_REGISTER_LAYOUT little-endian", f.where)
    for fname in ("collect_registers", "apply_registers"):
        f = rs.fn(isa.LIB_RS, fname)
        n += 1
        if not any("SNAPSHOT_REGISTER_LAYOUT" in expr_text(l["iter"]) for l in walk(f.body) if l.get("k") == "for"):
            ctx.violation("C16.2/register-layout", key_of(rs.file_for(isa.LIB_RS), fname, "layout-iteration"), f"{fname} does not iterate SNAPSHOT_REGISTER_LAYOUT", f.where)
    pm, pv = py.value(EMU, "SNAPSHOT_MAGIC"), py.value(EMU, "SNAPSHOT_VERSION")
    rm, rv = rs.eval_const(SNAP_RS, "SNAPSHOT_MAGIC"), rs.eval_const(SNAP_RS, "SNAPSHOT_VERSION")
    n += 2
    if (pm, pv) != (rm, rv):
        ctx.violation("C16.2/magic-version", "SNAPSHOT_MAGIC/VERSION", f"Python ({pm!r},{pv}) vs Rust ({rm!r},{rv})", EMU)
    # CPURegistersSnapshot: from_registers reads and apply_to writes every layout register + temps + call_sub_level
    fr = py.func(STEPPER, "CPURegistersSnapshot.from_registers")
    ap = py.func(STEPPER, "CPURegistersSnapshot.apply_to")
    got = {attr_chain(c.args[0]).split(".")[-1] for c in ast.walk(fr) if isinstance(c, ast.Call) and attr_chain(c.func) == "regs.get" and attr_chain(c.args[0])}
    put = {attr_chain(c.args[0]).split(".")[-1] for c in ast.walk(ap) if isinstance(c, ast.Call) and attr_chain(c.func) == "regs.set" and c.args and attr_chain(c.args[0])}
    want = {nme for nme, _w in a}
    n += 2
    if not want <= got:
        ctx.violation("C16.2/register-capture", key_of(STEPPER, "CPURegistersSnapshot.from_registers", "regs"), f"from_registers does not capture {sorted(want - got)}", f"{STEPPER}:{fr.lineno}")
    if not want <= put:
        ctx.violation("C16.2/register-capture", key_of(STEPPER, "CPURegistersSnapshot.apply_to", "regs"), f"apply_to does not restore {sorted(want - put)}", f"{STEPPER}:{ap.lineno}")
    for f, word in ((fr, "from_registers"), (ap, "apply_to")):
        n += 1
        txt = unparse(f)
        if "TEMP" not in txt or "call_sub_level" not in txt:
            ctx.violation("C16.2/register-capture", key_of(STEPPER, f"CPURegistersSnapshot.{word}", "temps/call_sub_level"), f"{word} does not handle temps and call_sub_level", f"{STEPPER}:{f.lineno}")
    ctx.instance("C16.2/layout", "register blob layout (8 regs, 18 bytes), pack/unpack iteration, magic/version, capture/apply coverage", n, 20)
    ctx.sample({"python_layout": a, "rust_layout": b, "magic": pm, "version": pv})


# ---------------------------------------------------------------------------
def _py_dict_keys(node: ast.AST) -> set[str]:
    return {k.value for k in node.keys if isinstance(k, ast.Constant) and isinstance(k.value, str)} if isinstance(node, ast.Dict) else set()


def _py_reads(fn: ast.AST, var: str) -> tuple[set[str], set[str]]:
    """(optional keys read with .get, required keys read with []) on dict variable `var`."""
    opt, req = set(), set()
    for n in ast.walk(fn):
        if isinstance(n, ast.Call) and isinstance(n.func, ast.Attribute) and n.func.attr == "get" and unparse(n.func.value) == var and n.args and isinstance(n.args[0], ast.Constant):
            (opt if True else req).add(n.args[0].value)
        elif isinstance(n, ast.Subscript) and unparse(n.value) == var and isinstance(n.slice, ast.Constant) and isinstance(n.slice.value, str) and isinstance(n.ctx, ast.Load):
            req.add(n.slice.value)
    return opt, req


def _saver_dicts(ctx: Ctx, save: ast.FunctionDef) -> tuple[ast.Dict, dict[str, ast.Dict]]:
    """The metadata dict display is whatever reaches json.dumps in the saver; its "timer"/"interrupts"/"kb_metrics" entries lead to
    the sub-dict displays.  Identified by data flow, not by the names of the locals."""
    d = py_defs(save)

    def as_dict(e: ast.AST | None, depth: int = 0) -> ast.Dict | None:
        if isinstance(e, ast.Dict):
            return e
        if isinstance(e, ast.Name) and depth < 3:
            ds = [v for v in d.get(e.id, []) if isinstance(v, ast.AST)]
            for v in ds:
                r = as_dict(v, depth + 1)
                if r is not None:
                    return r
        return None
    metas = [as_dict(c.args[0]) for c in ast.walk(save) if isinstance(c, ast.Call) and isinstance(c.func, ast.Attribute) and c.func.attr == "dumps" and c.args]
    metas = [m for m in metas if m is not None]
    ctx.need(len(metas) == 1, "save_snapshot: the dict display handed to json.dumps was not found")
    meta = metas[0]
    subs = {}
    for k, v in zip(meta.keys, meta.values):
        if isinstance(k, ast.Constant) and k.value in ("timer", "interrupts", "kb_metrics"):
            sd = as_dict(v)
            ctx.need(sd is not None, f"save_snapshot: dict display for metadata[{k.value!r}] not found")
            subs[k.value] = sd
    ctx.need(set(subs) == {"timer", "interrupts", "kb_metrics"}, f"save_snapshot: sub-dicts found only for {sorted(subs)}")
    return meta, subs


def _loader_vars(ctx: Ctx, load: ast.FunctionDef) -> dict[str, str]:
    """{'metadata': <local bound from json.loads>, 'timer'|'interrupts'|'kb_metrics': <local bound from metadata[...]/.get(...)>}"""
    out: dict[str, str] = {}
    for a in ast.walk(load):
        if isinstance(a, ast.Assign) and len(a.targets) == 1 and isinstance(a.targets[0], ast.Name) and any(isinstance(c, ast.Call) and isinstance(c.func, ast.Attribute) and c.func.attr == "loads" for c in ast.walk(a.value)):
            out["metadata"] = a.targets[0].id
    ctx.need("metadata" in out, "load_snapshot: the local bound from json.loads was not found")
    m = out["metadata"]
    for a in ast.walk(load):
        if isinstance(a, ast.Assign) and len(a.targets) == 1 and isinstance(a.targets[0], ast.Name):
            for c in ast.walk(a.value):
                key = None
                if isinstance(c, ast.Call) and isinstance(c.func, ast.Attribute) and c.func.attr == "get" and unparse(c.func.value) == m and c.args and isinstance(c.args[0], ast.Constant):
                    key = c.args[0].value
                elif isinstance(c, ast.Subscript) and unparse(c.value) == m and isinstance(c.slice, ast.Constant):
                    key = c.slice.value
                if key in ("timer", "interrupts", "kb_metrics"):
                    out.setdefault(key, a.targets[0].id)
    return out


def _rs_struct_fields(rs: RustProgram, suffix: str, name: str) -> tuple[set[str], set[str], set[str]]:
    """(all serialized fields, required-on-load fields, skipped-when-none fields)"""
    st = rs.struct(suffix, name)
    allf, req, skip = set(), set(), set()
    for f in st["fields"]:
        attrs = " ".join(f.get("attrs") or [])
        nm = f["name"]
        m = re.search(r'rename\s*=\s*"([^"]+)"', attrs)
        if m:
            nm = m.group(1)
        allf.add(nm)
        has_default = "default" in attrs
        if "skip_serializing_if" in attrs:
            skip.add(nm)
        if not has_default and not f["ty"].replace(" ", "").startswith("Option<"):
            req.add(nm)
    return allf, req, skip


def keys(ctx: Ctx, py: PyProgram, rs: RustProgram) -> None:
    save = py.func(EMU, "PCE500Emulator.save_snapshot")
    load = py.func(EMU, "PCE500Emulator.load_snapshot")
    d = py_defs(save)
    meta0, subs0 = _saver_dicts(ctx, save)
    py_written = _py_dict_keys(meta0)
    sub_written = {key: _py_dict_keys(sd) for key, sd in subs0.items()}
    lv = _loader_vars(ctx, load)
    # keyboard: the emulator's `self.keyboard` is the handler class; its snapshot nests the matrix state under "matrix"
    init = py.func(EMU, "PCE500Emulator.__init__")
    kb_cls = None
    for a in ast.walk(init):
        if isinstance(a, ast.Assign) and any(attr_chain(t) == "self.keyboard" for t in a.targets) and isinstance(a.value, ast.Call):
            kb_cls = py.cls(py.module(EMU), unparse(a.value.func))
    ctx.need(kb_cls is not None, "PCE500Emulator.__init__: class of self.keyboard not resolved")
    hs = kb_cls.methods.get("snapshot_state")
    hl = kb_cls.methods.get("load_state")
    ctx.need(hs is not None and hl is not None, f"{kb_cls.name}.snapshot_state/load_state vanished")
    hrets = [r.value for r in ast.walk(hs) if isinstance(r, ast.Return) and isinstance(r.value, ast.Dict)]
    ctx.need(len(hrets) == 1, f"{kb_cls.name}.snapshot_state: return dict not found")
    handler_written = _py_dict_keys(hrets[0])
    handler_read = {c.args[0].value for c in ast.walk(hl) if isinstance(c, ast.Call) and unparse(c.func) == "state.get" and c.args and isinstance(c.args[0], ast.Constant)}
    ks = py.func(KM_PY, "KeyboardMatrix.snapshot_state")
    rets = [r.value for r in ast.walk(ks) if isinstance(r, ast.Return) and isinstance(r.value, ast.Dict)]
    ctx.need(len(rets) == 1, "KeyboardMatrix.snapshot_state: return dict not found")
    matrix_written = _py_dict_keys(rets[0])
    sub_written["keyboard"] = matrix_written if "matrix" not in handler_written else handler_written
    # python loader requirements
    opt, req = _py_reads(load, lv["metadata"])
    n = 0
    for k in sorted(opt | req):
        n += 1
        if k not in py_written:
            ctx.violation("C16.1/py-load<-py-save", key_of(EMU, "load_snapshot", f"metadata[{k!r}]"), f"load_snapshot reads metadata key {k!r} that save_snapshot never writes", f"{EMU}:{load.lineno}")
    for key, var in (("timer", "timer_info"), ("interrupts", "interrupts"), ("kb_metrics", "kb_metrics")):
        o, r = _py_reads(load, lv[key]) if key in lv else (set(), set())
        for k in sorted(o | r):
            n += 1
            if k not in sub_written[key]:
                ctx.violation("C16.1/py-load<-py-save", key_of(EMU, "load_snapshot", f"{var}[{k!r}]"), f"load_snapshot reads {key}.{k} that save_snapshot never writes", f"{EMU}:{load.lineno}")
    ls = py.func(KM_PY, "KeyboardMatrix.load_state")
    kb_read = set()
    for c in ast.walk(ls):
        if isinstance(c, ast.Call) and c.args and isinstance(c.args[0], ast.Constant) and isinstance(c.args[0].value, str):
            fn_name = unparse(c.func)
            if fn_name in ("_get_int", "state.get"):
                kb_read.add(c.args[0].value)
    for k in sorted(kb_read):
        n += 1
        if k not in matrix_written:
            ctx.violation("C16.1/py-load<-py-save", key_of(KM_PY, "KeyboardMatrix.load_state", f"state[{k!r}]"), f"keyboard load_state reads {k!r} that snapshot_state never writes", f"{KM_PY}:{ls.lineno}")
    for k in sorted(handler_read):
        n += 1
        if k not in handler_written:
            ctx.violation("C16.1/py-load<-py-save", key_of(kb_cls.mod.rel, f"{kb_cls.name}.load_state", f"state[{k!r}]"), f"keyboard handler load_state reads {k!r} that its snapshot_state never writes", kb_cls.where)
    ctx.instance("C16.1/py-load<-py-save", "keys read by the Python loader are written by the Python saver (metadata, timer, interrupts, kb_metrics, keyboard)", n, 40)

    # Rust structs
    m_all, m_req, m_skip = _rs_struct_fields(rs, isa.LIB_RS, "SnapshotMetadata")
    t_all, t_req, _ = _rs_struct_fields(rs, isa.LIB_RS, "TimerInfo")
    i_all, i_req, _ = _rs_struct_fields(rs, isa.LIB_RS, "InterruptInfo")
    k_all, k_req, _ = _rs_struct_fields(rs, KB_RS, "KeyboardSnapshot")
    ks_all, ks_req, _ = _rs_struct_fields(rs, KB_RS, "KeyStateSnapshot")
    rel = rs.file_for(isa.LIB_RS)
    n = 0
    for k in sorted(m_req):
        n += 1
        if k not in py_written:
            ctx.violation("C16.1/rs-load<-py-save", f"{rel}::SnapshotMetadata.{k}", f"Rust requires metadata field {k!r} (no serde default) but the Python saver does not write it: Rust cannot load Python snapshots", rel)
    for nm, reqs, wr in (("TimerInfo", t_req, sub_written["timer"]), ("InterruptInfo", i_req, sub_written["interrupts"])):
        for k in sorted(reqs):
            n += 1
            if k not in wr:
                ctx.violation("C16.1/rs-load<-py-save", f"{rel}::{nm}.{k}", f"Rust requires {nm}.{k} but the Python saver does not write it", rel)
    krel = rs.file_for(KB_RS)
    n += 1
    missing_top = sorted(k_req - sub_written["keyboard"])
    if missing_top:
        missing_nested = sorted(k_req - matrix_written)
        ctx.violation("C16.1/keyboard-shape", "keyboard-shape:rs-load<-py-save",
                      f"Rust KeyboardSnapshot requires the flat fields {missing_top[:6]}... in metadata.keyboard, but the Python saver writes {sorted(sub_written['keyboard'])} "
                      f"(matrix state nested under 'matrix'; even un-nested it lacks {missing_nested}): serde_json::from_value fails and the keyboard state of a Python snapshot is silently dropped by the Rust loader", krel)
    # per-key state
    kstate_written = set()
    for dd in ast.walk(ks):
        if isinstance(dd, ast.Dict) and "debounced" in _py_dict_keys(dd):
            kstate_written = _py_dict_keys(dd)
    for k in sorted(ks_req):
        n += 1
        if k not in kstate_written:
            ctx.violation("C16.1/rs-load<-py-save", f"{krel}::KeyStateSnapshot.{k}", f"Rust KeyStateSnapshot requires {k!r} but Python key_states entries lack it", krel)
    ctx.instance("C16.1/rs-load<-py-save", "fields the Rust loader requires are written by the Python saver", n, 20)
    # Python loader <- Rust saver: required (subscript) reads must be Rust fields always serialized; optional reads fine
    n = 0
    rs_written = m_all - m_skip
    for k in sorted(req):
        n += 1
        if k not in rs_written:
            ctx.violation("C16.1/py-load<-rs-save", key_of(EMU, "load_snapshot", f"metadata[{k!r}]"), f"Python requires metadata[{k!r}] but the Rust saver does not always write it", EMU)
    for k in ("magic", "version"):
        n += 1
        if k not in rs_written:
            ctx.violation("C16.1/py-load<-rs-save", key_of(EMU, "load_snapshot", f"metadata[{k!r}]"), f"Rust saver does not write {k!r}", rel)
    # semantic keys the python loader uses to rebuild state must exist in the Rust structs (else silently defaulted)
    for key, var, fields in (("timer", "timer_info", t_all), ("interrupts", "interrupts", i_all)):
        o, r = _py_reads(load, lv[key]) if key in lv else (set(), set())
        for k in sorted(o | r):
            n += 1
            if k not in fields:
                ctx.violation("C16.1/py-load<-rs-save", key_of(EMU, "load_snapshot", f"{var}[{k!r}]<-rust"), f"Python restores {key}.{k} but the Rust {key} struct has no such field: value silently defaults when loading a Rust snapshot", EMU)
    n += 1
    if "matrix" in handler_read and "matrix" not in k_all:
        ctx.violation("C16.1/keyboard-shape", "keyboard-shape:py-load<-rs-save",
                      f"the Python keyboard loader restores the matrix from metadata.keyboard['matrix'], but the Rust saver writes a flat KeyboardSnapshot ({sorted(k_all)[:5]}...): "
                      "the keyboard state of a Rust snapshot is silently ignored by the Python loader", kb_cls.where)
    for k in sorted(kb_read):
        n += 1
        if k not in k_all:
            ctx.violation("C16.1/py-load<-rs-save", key_of(KM_PY, "KeyboardMatrix.load_state", f"state[{k!r}]<-rust"), f"Python keyboard restores {k!r} but Rust KeyboardSnapshot has no such field", KM_PY)
    ctx.instance("C16.1/py-load<-rs-save", "keys the Python loader uses exist in what the Rust saver serialises", n, 30)
    # bundle members
    pw = {c.args[0].value for c in ast.walk(save) if isinstance(c, ast.Call) and isinstance(c.func, ast.Attribute) and c.func.attr == "writestr" and c.args and isinstance(c.args[0], ast.Constant)}
    pr = {c.args[0].value for c in ast.walk(load) if isinstance(c, ast.Call) and isinstance(c.func, ast.Attribute) and c.func.attr == "read" and c.args and isinstance(c.args[0], ast.Constant) and isinstance(c.args[0].value, str)}
    rsave = rs.fn(SNAP_RS, "save_snapshot")
    rload = rs.fn(SNAP_RS, "load_snapshot")
    rw = {c["args"][0]["v"] for c in walk(rsave.body) if c.get("k") == "mcall" and c["m"] == "start_file" and c["args"][0].get("k") == "lit"}
    rr = {c["args"][0]["v"] for c in walk(rload.body) if c.get("k") == "mcall" and c["m"] == "by_name" and c["args"][0].get("k") == "lit"}
    n = 0
    for who, need, have, where in (("Python loader <- Python saver", pr, pw, EMU), ("Python loader <- Rust saver", pr, rw, EMU),
                                   ("Rust loader <- Python saver", rr, pw, rs.file_for(SNAP_RS)), ("Rust loader <- Rust saver", rr, rw, rs.file_for(SNAP_RS))):
        for mname in sorted(need):
            n += 1
            if mname not in have:
                ctx.violation("C16.1/bundle-members", f"bundle[{mname}]:{who}", f"{who}: member {mname!r} is read but never written", where)
    if pw != rw:
        ctx.violation("C16.1/bundle-members", "bundle-member-sets", f"bundle member names differ: Python writes {sorted(pw)}, Rust writes {sorted(rw)}", EMU)
    ctx.instance("C16.1/bundle-members", "zip member names: 4 saver x loader pairs", n, 16)
    ctx.sample({"python_written": sorted(py_written), "rust_required": sorted(m_req), "bundle": sorted(pw)})


# ---------------------------------------------------------------------------
def _py_temps_reader_formats(ctx: Ctx, py: PyProgram, load: ast.FunctionDef) -> set[str]:
    """Which key spellings does the Python loader turn into the integer scratch-register index?  The statements that build the mapping
    handed to CPURegistersSnapshot(temps=...) are interpreted on a one-entry `temps` table in either spelling."""
    from ..pyfacts import NotConst, PyRaised
    ctor = [c for c in ast.walk(load) if isinstance(c, ast.Call) and unparse(c.func).endswith("CPURegistersSnapshot") and any(k.arg == "temps" for k in c.keywords)]
    ctx.need(len(ctor) == 1, "load_snapshot: CPURegistersSnapshot(temps=...) not found")
    tv = next(k.value for k in ctor[0].keywords if k.arg == "temps")
    ctx.need(isinstance(tv, ast.Name), "load_snapshot: temps argument is not a local")
    name = tv.id
    stmts = []
    for st in ast.walk(load):
        if isinstance(st, (ast.Assign, ast.AnnAssign)) and any(isinstance(t, ast.Name) and t.id == name for t in (st.targets if isinstance(st, ast.Assign) else [st.target])):
            stmts.append(st)
        elif isinstance(st, ast.For) and any(isinstance(x, ast.Subscript) and isinstance(x.ctx, ast.Store) and isinstance(x.value, ast.Name) and x.value.id == name for x in ast.walk(st)):
            stmts.append(st)
    stmts.sort(key=lambda s_: s_.lineno)
    ctx.need(bool(stmts), "load_snapshot: statements building the temps mapping not found")
    meta_names = {a.targets[0].id for a in ast.walk(load) if isinstance(a, ast.Assign) and len(a.targets) == 1 and isinstance(a.targets[0], ast.Name) and "json.loads" in unparse(a.value)} or {"metadata"}
    out: set[str] = set()
    for tag, key in (("<n>", "3"), ("TEMP<n>", "TEMP3")):
        ev = PyEval(py, py.module(EMU), budget=[20000])
        ev.env = {m_: {"temps": {key: 7}} for m_ in meta_names}
        try:
            ev.exec_block(stmts)
            got = ev.env.get(name)
        except PyRaised:
            got = None           # the loader raises on this spelling
        except (ValueError, KeyError, TypeError):
            got = None           # a conversion in the loader fails on this spelling
        except NotConst as e:
            raise AnalysisError(f"load_snapshot: building the temps mapping left the evaluable fragment: {e}")
        if isinstance(got, dict) and got == {3: 7}:
            out.add(tag)
    return out


def temp_key_format(ctx: Ctx, py: PyProgram, rs: RustProgram) -> None:
    """`temps` is a map keyed by register name; the key format each loader parses must be the format the other saver writes."""
    n = 0
    # Python writer: {str(k): int(v) for k, v in cpu_snapshot.temps.items()}  with temps keyed by int index
    save = py.func(EMU, "PCE500Emulator.save_snapshot")
    meta, _subs = _saver_dicts(ctx, save)
    tv = None
    for k, v in zip(meta.keys, meta.values):
        if isinstance(k, ast.Constant) and k.value == "temps":
            tv = v
    ctx.need(isinstance(tv, ast.DictComp), "save_snapshot: temps dict comprehension not found")
    py_w = "TEMP<n>" if "TEMP" in unparse(tv.key) else ("<n>" if unparse(tv.key) in ("str(k)", "str(int(k))") else "?")
    fr = py.func(STEPPER, "CPURegistersSnapshot.from_registers")
    tnames = {unparse(k.value) for c in ast.walk(fr) if isinstance(c, ast.Call) for k in c.keywords if k.arg == "temps" and isinstance(k.value, ast.Name)}
    idx_keys = any(isinstance(lp, ast.For) and isinstance(lp.target, ast.Name) and isinstance(lp.iter, ast.Call) and unparse(lp.iter.func) == "range"
                   and any(isinstance(s_, ast.Assign) and isinstance(s_.targets[0], ast.Subscript) and unparse(s_.targets[0].value) in tnames and unparse(s_.targets[0].slice) == lp.target.id for s_ in ast.walk(lp))
                   for lp in ast.walk(fr))
    ctx.need(idx_keys, "from_registers: temps[index] not found")
    # Python reader
    load = py.func(EMU, "PCE500Emulator.load_snapshot")
    py_r = _py_temps_reader_formats(ctx, py, load)
    # Rust writer: collect_registers format!("TEMP{idx}")
    cr = rs.fn(isa.LIB_RS, "collect_registers")
    fm = [m for m in walk(cr.body) if m.get("k") == "macro" and m.get("name") == "format"]
    rs_w = "TEMP<n>" if any("TEMP{" in expr_text(m) for m in fm) else "?"
    # Rust reader in CoreRuntime::load_snapshot
    ld = rs.fn(isa.LIB_RS, "CoreRuntime::load_snapshot")
    sp = [c for c in walk(ld.body) if c.get("k") == "mcall" and c["m"] == "strip_prefix"]
    ctx.need(sp, "CoreRuntime::load_snapshot: temps key parser not found")
    rs_r = {"TEMP<n>"}
    # accepted forms that also take bare numbers: strip_prefix(..).unwrap_or(name...)
    for c in walk(ld.body):
        if c.get("k") == "mcall" and c["m"] == "unwrap_or" and c["recv"].get("k") == "mcall" and c["recv"]["m"] == "strip_prefix":
            rs_r = {"TEMP<n>", "<n>"}
    pairs = [("Python loader <- Python saver", py_w, py_r, EMU), ("Python loader <- Rust saver", rs_w, py_r, EMU),
             ("Rust loader <- Python saver", py_w, rs_r, rs.file_for(isa.LIB_RS)), ("Rust loader <- Rust saver", rs_w, rs_r, rs.file_for(isa.LIB_RS))]
    for who, w, r, where in pairs:
        n += 1
        if w not in r:
            ctx.violation("C16.1/temps-key-format", f"temps-key-format:{who}", f"{who}: scratch-register keys are written as {w!r} but the loader parses only {sorted(r)}", where)
    ctx.instance("C16.1/temps-key-format", "format of `temps` keys: writer format accepted by reader, 4 saver x loader pairs", n, 4)
    ctx.sample({"python_writes": py_w, "python_reads": sorted(py_r), "rust_writes": rs_w, "rust_reads": sorted(rs_r)})


# ---------------------------------------------------------------------------
# frozen transient lists: (field, reason)
RUST_TIMER_TRANSIENT = {
    "last_fired": "diagnostic mirror of irq_source; only read by tracing",
    "instruction_start_cycle": "per-instruction scratch set at instruction start",
    "last_mti_fire_cycle": "tick accounting for perfetto counters",
    "last_sti_fire_cycle": "tick accounting for perfetto counters",
    "fired_mti_since_boundary": "tick accounting for perfetto counters",
    "fired_sti_since_boundary": "tick accounting for perfetto counters",
    "timer_scale": "configuration chosen by the host, not machine state",
    "preserve_phase": "configuration chosen by the host, not machine state",
}
RUST_KB_TRANSIENT = {
    "keyi_on_any_press": "configuration (device model)",
    "raw_kil": "configuration (device model)",
    "emit_events": "configuration",
    "repeat_enabled": "configuration",
    "states": "saved per key through key_states",
    "keyi_latch": "recomputed from fifo_len on load",
}
PY_STEP_FUNCS = ("step", "_tick_timers", "_scan_keyboard_per_instruction", "_simulate_wait", "_set_isr_bits")


def _rs_self_fields(body: Any) -> tuple[set[str], set[str]]:
    """(fields read as self.F, fields assigned self.F = ...)"""
    reads, writes = set(), set()
    for n in walk(body):
        if n.get("k") in ("assign", "opassign") and n["l"].get("k") == "field" and expr_text(n["l"]["e"]) == "self":
            writes.add(n["l"]["name"])
        if n.get("k") == "field" and expr_text(n["e"]) == "self":
            reads.add(n["name"])
        if n.get("k") == "macro" and n.get("tokens"):
            # un-reparsed macro bodies (json!{..}): token text is `self . field`
            reads |= set(re.findall(r"self \. (\w+)", n["tokens"]))
    return reads, writes


def field_cover_rust(ctx: Ctx, rs: RustProgram) -> None:
    n = 0
    for suffix, sname, saver, loader, transient in ((TIMER_RS, "TimerContext", "TimerContext::snapshot_info", "TimerContext::apply_snapshot_info", RUST_TIMER_TRANSIENT),
                                                    (KB_RS, "KeyboardMatrix", "KeyboardMatrix::snapshot_state", "KeyboardMatrix::load_snapshot_state", RUST_KB_TRANSIENT)):
        st = rs.struct(suffix, sname)
        fields = [f["name"] for f in st["fields"]]
        sv = rs.fn(suffix, saver)
        ld = rs.fn(suffix, loader)
        saved, _ = _rs_self_fields(sv.body)
        # restored = assigned from the snapshot argument (rhs mentions a parameter of the loader), reset = assigned a constant
        params = [p for p in ld.params() if p != "self"]
        ld_defs = rs_defs(ld.body)
        restored, reset = set(), set()
        for a in walk(ld.body):
            tgt = a.get("l") if a.get("k") == "assign" else None
            if tgt is not None and tgt.get("k") == "index" and tgt["e"].get("k") == "field" and expr_text(tgt["e"]["e"]) == "self":
                tgt = tgt["e"]            # self.array[idx] = value
                a = {"k": "assign", "l": tgt, "r": a["r"]}
            if a.get("k") == "assign" and a["l"].get("k") == "field" and expr_text(a["l"]["e"]) == "self":
                # snapshot-derived = some leaf of the value, through lets / if-lets / loop and closure bindings, is a parameter of the loader
                lv_ = rs_leaves(a["r"], ld_defs)
                roots_ = {re.split(r"[.\[(]", l_.lstrip("&*<"))[0].rstrip(">") for l_ in lv_}
                if roots_ & set(params):
                    restored.add(a["l"]["name"])
                else:
                    reset.add(a["l"]["name"])
        rel = rs.file_for(suffix)
        for f in fields:
            n += 1
            if f in transient:
                continue
            if f not in saved:
                ctx.violation("C16.3/field-cover", f"{rel}::{sname}.{f}:save", f"{sname}.{f} is run-time state but {saver} does not save it", sv.where)
            elif f not in restored:
                how = "reset to a constant" if f in reset else "left untouched"
                ctx.violation("C16.3/field-cover", f"{rel}::{sname}.{f}:restore", f"{sname}.{f} is saved but {loader} does not restore it from the snapshot ({how})", ld.where)
        # transients must really be unsaved (else the list is stale)
        for f in transient:
            if f not in fields:
                raise AnalysisError(f"transient list names {sname}.{f} which no longer exists")
        ctx.sample({"struct": sname, "saved": sorted(saved & set(fields)), "restored": sorted(restored), "reset_on_load": sorted(reset - restored), "transient": sorted(transient)})
    # LlamaState: power_state / call_depth / call_sub_level / regs(temps) saved in CoreRuntime::save_snapshot, restored in load_snapshot
    sv = rs.fn(isa.LIB_RS, "CoreRuntime::save_snapshot")
    ld = rs.fn(isa.LIB_RS, "CoreRuntime::load_snapshot")
    svt, ldt = expr_text(sv.body["stmts"]) if False else " ".join(expr_text(s.get("e") or s.get("init") or {}) for s in sv.body["stmts"]), " ".join(s.get("src", "") for s in ld.body["stmts"])
    sv_src = " ".join(s.get("src", "") for s in sv.body["stmts"])
    for what, s_pat, l_pat in (("power_state", "self.state.power_state()", "set_power_state"), ("call_depth", "self.state.call_depth()", "call_depth_inc"),
                               ("call_sub_level", "self.state.call_sub_level()", "set_call_sub_level"), ("registers", "collect_registers", "apply_registers"),
                               ("temps", ".temps", "RegName::Temp")):
        n += 1
        if s_pat.replace(" ", "") not in sv_src.replace(" ", ""):
            ctx.violation("C16.3/field-cover", f"{rs.file_for(isa.LIB_RS)}::CoreRuntime::save_snapshot:{what}", f"CoreRuntime::save_snapshot does not save {what}", sv.where)
        if l_pat.replace(" ", "") not in ldt.replace(" ", ""):
            ctx.violation("C16.3/field-cover", f"{rs.file_for(isa.LIB_RS)}::CoreRuntime::load_snapshot:{what}", f"CoreRuntime::load_snapshot does not restore {what}", ld.where)
    ctx.instance("C16.3/field-cover-rust", "TimerContext / KeyboardMatrix fields saved+restored or transient; LlamaState pieces saved+restored", n, 55)


def field_cover_python(ctx: Ctx, py: PyProgram) -> None:
    mod = py.module(EMU)
    cls = py.need_cls(mod, "PCE500Emulator")
    cond_reads: set[str] = set()
    writes: set[str] = set()
    for mname in PY_STEP_FUNCS:
        m = cls.methods.get(mname)
        ctx.need(m is not None, f"PCE500Emulator.{mname} vanished")
        for n in ast.walk(m):
            tests = []
            if isinstance(n, (ast.If, ast.While, ast.IfExp)):
                tests.append(n.test)
            for t in tests:
                for a in ast.walk(t):
                    ch = attr_chain(a) if isinstance(a, ast.Attribute) else None
                    if ch and ch.startswith("self."):
                        cond_reads.add(ch)
                    if isinstance(a, ast.Call) and isinstance(a.func, ast.Name) and a.func.id == "getattr" and len(a.args) >= 2 and isinstance(a.args[1], ast.Constant):
                        base = attr_chain(a.args[0]) or unparse(a.args[0])
                        cond_reads.add(f"{base}.{a.args[1].value}")
            if isinstance(n, ast.Assign):
                for t in n.targets:
                    ch = attr_chain(t)
                    if ch and ch.startswith("self."):
                        writes.add(ch)
            elif isinstance(n, ast.AugAssign):
                ch = attr_chain(n.target)
                if ch and ch.startswith("self."):
                    writes.add(ch)
            elif isinstance(n, ast.Call) and isinstance(n.func, ast.Name) and n.func.id == "setattr" and len(n.args) >= 2 and isinstance(n.args[1], ast.Constant):
                writes.add(f"{attr_chain(n.args[0]) or unparse(n.args[0])}.{n.args[1].value}")
    steering = sorted(f for f in cond_reads & writes)
    save = cls.methods["save_snapshot"]
    load = cls.methods["load_snapshot"]
    save_txt = unparse(save)
    load_writes = {attr_chain(t) for a in ast.walk(load) if isinstance(a, ast.Assign) for t in a.targets if attr_chain(t)}
    transient = {
        "self.cycle_count": None,  # checked below like the others (saved as cycle_count)
    }
    n = 0
    for f in steering:
        n += 1
        short = f.split(".")[-1]
        saved = (f in save_txt) or (f'getattr(self, "{short}"' in save_txt) or (f"getattr(self, '{short}'" in save_txt)
        restored = f in load_writes
        if not saved:
            ctx.violation("C16.3/field-cover", f"{EMU}::PCE500Emulator::{f}:save", f"{f} steers the step path (read in a branch, written while stepping) but save_snapshot does not save it", f"{EMU}:{save.lineno}")
        elif not restored:
            ctx.violation("C16.3/field-cover", f"{EMU}::PCE500Emulator::{f}:restore", f"{f} is saved but load_snapshot does not restore it", f"{EMU}:{load.lineno}")
    ctx.instance("C16.3/field-cover-python", "PCE500Emulator fields that steer the step path (branch-read and step-written) are saved and restored", n, 4)
    ctx.sample({"python_steering_fields": steering})


def save_completeness(ctx: Ctx, py: PyProgram) -> None:
    """(a) loops that copy per-entry state into a snapshot store every entry (no filter); (b) the flattened memory image copies every
    overlay payload up to and including the last byte of its window."""
    import ast as _ast
    from .. import cfg as _cfg
    from ..linform import NotLinear, alternatives, shift, show
    n = 0
    # (a)
    for rel, q in ((KM_PY, "KeyboardMatrix.snapshot_state"),):
        fn = py.func(rel, q)
        g = _cfg.build_py(fn, q)
        loops = [l for l in _ast.walk(fn) if isinstance(l, _ast.For) and "self._" in unparse(l.iter)]
        if not loops:
            raise AnalysisError(f"{q}: per-entry save loop not found")
        for lp in loops:
            stores = [a for a in _ast.walk(lp) if isinstance(a, _ast.Assign) and isinstance(a.targets[0], _ast.Subscript)]
            for a in stores:
                n += 1
                guards = [unparse(x) for x, _pol, _o in g.guards_of(g.node_of(a)) if isinstance(x, _ast.AST) and x is not lp.iter and unparse(x) != unparse(lp.iter)]
                skips = [x for x in _ast.walk(lp) if isinstance(x, (_ast.Continue, _ast.Break))]
                if guards or skips:
                    ctx.violation("C16.7/save-all-entries", key_of(rel, q, f"entries of {unparse(lp.iter)} saved selectively"),
                                  f"{q} saves only some entries of `{unparse(lp.iter)}` ({'guard ' + guards[0] if guards else 'continue/break in the loop'}): state of the skipped entries (debounce/release counters of a key that was just released) is lost by save + load",
                                  f"{rel}:{a.lineno}")
    # (b)
    rel, q = "pce500/memory.py", "PCE500Memory.export_flat_memory"
    ctx.file_used(REPO / rel)
    fn = py.func(rel, q)
    defs: dict = {}
    for a in _ast.walk(fn):
        if isinstance(a, _ast.Assign) and len(a.targets) == 1 and isinstance(a.targets[0], _ast.Name):
            defs.setdefault(a.targets[0].id, []).append(a.value)
    # roles, identified by definition: the image under construction, the overlay being copied, its window bounds, the image length
    blob_v = next((k for k, vs in defs.items() if any(isinstance(v, _ast.Call) and unparse(v.func) == "bytearray" and "external_memory" in unparse(v) for v in vs)), None)
    loops_ = [l for l in _ast.walk(fn) if isinstance(l, _ast.For) and isinstance(l.target, _ast.Name) and "overlay" in unparse(l.iter).lower()]
    if blob_v is None or len(loops_) != 1:
        raise AnalysisError(f"{q}: image variable / overlay loop not identified")
    ov_v = loops_[0].target.id

    def _role(attr: str) -> str | None:
        return next((k for k, vs in defs.items() if len(vs) == 1 and any(isinstance(x, _ast.Attribute) and x.attr == attr and unparse(x.value) == ov_v for x in _ast.walk(vs[0]))
                     and not any(isinstance(x, _ast.Call) for x in _ast.walk(vs[0]))), None)
    start_v, end_v = _role("start"), _role("end")
    len_v = next((k for k, vs in defs.items() if len(vs) == 1 and unparse(vs[0]) == f"len({blob_v})"), None)
    if not (start_v and end_v and len_v):
        raise AnalysisError(f"{q}: window bounds / image length locals not identified ({start_v}, {end_v}, {len_v})")
    single = {k: v[0] for k, v in defs.items() if len(v) == 1 and k not in (start_v, end_v, len_v)}
    copies = [a for a in _ast.walk(fn) if isinstance(a, _ast.Assign) and isinstance(a.targets[0], _ast.Subscript) and isinstance(a.targets[0].slice, _ast.Slice)
              and unparse(a.targets[0].value) == blob_v and f"{ov_v}.data" in unparse(a.value)]
    if len(copies) != 1:
        raise AnalysisError(f"{q}: expected one slice copy of overlay.data into the blob, found {len(copies)}")
    cp = copies[0]
    n += 1
    try:
        lo = alternatives(cp.targets[0].slice.lower, single)
        hi = alternatives(cp.targets[0].slice.upper, single)
        src = cp.value
        if not (isinstance(src, _ast.Subscript) and isinstance(src.slice, _ast.Slice) and src.slice.lower is None):
            raise NotLinear("source is not overlay.data[:k]")
        k = alternatives(src.slice.upper, single)
        want_hi = {(1, frozenset({(end_v, 1)})), (0, frozenset({(len_v, 1)})), (0, frozenset({(start_v, 1), (f"len({ov_v}.data)", 1)}))}
        if lo != {(0, frozenset({(start_v, 1)}))}:
            ctx.violation("C16.7/flat-image", key_of(rel, q, "overlay copy start"), f"the overlay payload is copied to blob[{unparse(cp.targets[0].slice.lower)}:..], not from the overlay's start", f"{rel}:{cp.lineno}")
        if hi != want_hi:
            ctx.violation("C16.7/flat-image", key_of(rel, q, "overlay copy does not reach the last byte of the window"),
                          f"the overlay payload is copied up to (exclusive) {sorted(show(f) for f in hi)}; covering the window needs {sorted(show(f) for f in want_hi)}: the last byte of every data-backed overlay (e.g. 0xFFFFF of the ROM) is saved from the wrong source",
                          f"{rel}:{cp.lineno}")
        klen = {(c - 0, t) for c, t in k}
        hi_minus_start = {(c, frozenset(x for x in t if x != (start_v, 1)) if (start_v, 1) in t else t | {(start_v, -1)}) for c, t in hi}
        if klen != hi_minus_start:
            ctx.violation("C16.7/flat-image", key_of(rel, q, "slice lengths differ"), f"blob slice and payload slice have different lengths: {sorted(show(f) for f in hi_minus_start)} vs {sorted(show(f) for f in klen)}", f"{rel}:{cp.lineno}")
    except NotLinear as e:
        raise AnalysisError(f"{q}: slice bounds left the linear fragment: {e}")
    # (c) every backing store a CPU write handler mutates is part of what save_snapshot exports
    memmod = py.module("pce500/memory.py")
    init = py.func("pce500/memory.py", "PCE500Memory.__init__")
    closures = {f.name: f for f in _ast.walk(init) if isinstance(f, _ast.FunctionDef) and f is not init}
    stores: dict[str, int] = {}
    for c in _ast.walk(init):
        if isinstance(c, _ast.Call) and unparse(c.func).endswith("MemoryOverlay"):
            for kw in c.keywords:
                if kw.arg == "write_handler" and isinstance(kw.value, _ast.Name) and kw.value.id in closures:
                    for a in _ast.walk(closures[kw.value.id]):
                        if isinstance(a, _ast.Assign) and isinstance(a.targets[0], _ast.Subscript) and (attr_chain(a.targets[0].value) or "").startswith("self."):
                            stores[attr_chain(a.targets[0].value)] = a.lineno
    if not stores:
        raise AnalysisError("PCE500Memory.__init__: no handler-backed store found (memory card window expected)")
    exporters = [py.func("pce500/memory.py", "PCE500Memory.export_flat_memory"), py.func("pce500/memory.py", "PCE500Memory.get_internal_memory_bytes"), py.func(EMU, "PCE500Emulator.save_snapshot")]
    exported = " ".join(unparse(f) for f in exporters)
    for st, ln in sorted(stores.items()):
        n += 1
        nm = st.split(".", 1)[1]
        if nm not in exported:
            ctx.violation("C16.7/storage-cover", key_of("pce500/memory.py", "PCE500Memory", f"{st} not in the snapshot"),
                          f"{st} is written by a CPU store handler but neither export_flat_memory nor save_snapshot reads it: its contents are lost by save + load", f"pce500/memory.py:{ln}")
    ctx.instance("C16.7/save-completeness", "per-entry save loops store every entry; flattened image copies overlay payloads through the last window byte", n, 2)


# ---------------------------------------------------------------------------
_CASTS = {"bool", "int", "list", "dict", "str", "tuple", "bytes", "float"}


_CASTS = {"int", "bool", "float", "str", "getattr", "list", "dict", "tuple", "bytes", "hasattr", "isinstance"}


def _state_fields(e: ast.AST, defs: dict, depth: int = 0) -> tuple[set[str], list[str]]:
    """(state fields the value is read from, operators that combine/alter values) with locals resolved."""
    fields: set[str] = set()
    ops: list[str] = []
    for n in ast.walk(e):
        if isinstance(n, (ast.BoolOp, ast.BinOp, ast.Compare, ast.UnaryOp)):
            ops.append(type(n).__name__ + ":" + unparse(n)[:60])
        if isinstance(n, ast.Call) and isinstance(n.func, ast.Name) and n.func.id not in _CASTS and n.func.id not in defs:
            ops.append("Call:" + unparse(n)[:60])       # min/max/abs/round/...: a clamp or filter, not the field
        if isinstance(n, ast.Call) and isinstance(n.func, ast.Name) and n.func.id == "getattr" and len(n.args) >= 2 and attr_chain(n.args[0]) == "self" and isinstance(n.args[1], ast.Constant):
            fields.add("self." + str(n.args[1].value))
        if isinstance(n, ast.Attribute):
            ch = attr_chain(n)
            if ch and ch.startswith("self.") and ch.count(".") == 1:
                fields.add(ch)
        if isinstance(n, ast.Name) and n.id in defs and depth < 4 and n.id != "self":
            for v in defs[n.id]:
                f2, o2 = _state_fields(v, defs, depth + 1)
                fields |= f2
                ops += o2
    return fields, ops


def save_exact(ctx: Ctx, py: PyProgram) -> None:
    """What save_snapshot records for the timer, interrupt and keyboard-metric latches is the field itself (through a cast or a default),
    never a function of several pieces of state: a saver that filters or combines drops state the restored machine needs."""
    fn = py.func(EMU, "PCE500Emulator.save_snapshot")
    defs = py_defs(fn)
    n = 0
    for st in ast.walk(fn):
        pass
    _meta, subs_ = _saver_dicts(ctx, fn)
    for dname, dd in (("timer_info", subs_["timer"]), ("interrupts", subs_["interrupts"]), ("kb_metrics", subs_["kb_metrics"])):
        if True:
            for k, v in zip(dd.keys, dd.values):
                if not isinstance(k, ast.Constant):
                    continue
                n += 1
                fields, ops = _state_fields(v, defs)
                if len(fields) != 1 or ops:
                    ctx.violation("C16.6/save-exact", key_of(EMU, "PCE500Emulator.save_snapshot", f"{dname}[{k.value!r}]"),
                                  f"save_snapshot records {dname}[{k.value!r}] as `{unparse(v)[:120]}`: {'it combines ' + ', '.join(sorted(fields)) if len(fields) != 1 else 'it is altered by ' + ops[0]} instead of storing the field itself, so the restored machine differs from the saved one whenever the extra condition is false",
                                  f"{EMU}:{v.lineno}")
    ctx.instance("C16.6/save-exact", "timer/interrupt/keyboard-metric entries written by save_snapshot are identity projections of one state field", n, 18)


def live_sources(ctx: Ctx, py: PyProgram) -> None:
    """The LCD state the saver captures comes from the chips themselves; a stored copy in the display layer must be dropped by every
    function that changes chip state (reads advance the column pointer and clear BUSY too)."""
    from ..memo import incoherent_copies
    mods = [py.module(f) for f in ("pce500/display/pipeline.py", "pce500/display/controller_wrapper.py")]
    for m in mods:
        ctx.file_used(REPO / m.rel)
    found, scanned = incoherent_copies(mods, py.module("pce500/display/hd61202.py"), "HD61202")
    for rel, ln, what in found:
        ctx.violation("C16.4/live-sources", key_of(rel, what.split(" changes ")[0], "stale stored copy"), what, f"{rel}:{ln}")
    ctx.instance("C16.4/live-sources", "display-layer methods scanned for stored copies of chip state and their invalidation", scanned, 20)


def lcd_state_cover(ctx: Ctx, py: PyProgram, rs: RustProgram) -> None:
    """Every field of the per-chip controller state (the state struct/dataclass itself is the rule's slot) is written by the LCD saver
    and assigned by the LCD loader, in each implementation."""
    HD = "pce500/display/hd61202.py"
    CW = "pce500/display/controller_wrapper.py"
    PL = "pce500/display/pipeline.py"
    for f in (HD, CW, PL):
        ctx.file_used(REPO / f)
    mod = py.module(HD)
    cls = next((n for n in mod.tree.body if isinstance(n, ast.ClassDef) and n.name == "HD61202State"), None)
    ctx.need(cls is not None, "HD61202State dataclass vanished")
    fields = [st.target.id for st in cls.body if isinstance(st, ast.AnnAssign) and isinstance(st.target, ast.Name)]
    ctx.need(len(fields) >= 4, f"HD61202State has only {fields}")
    cap = py.func(PL, "_snapshot_from_chips")
    saver = py.func(EMU, "PCE500Emulator._capture_lcd_snapshot")
    loader = py.func(CW, "HD61202Controller.load_snapshot")
    captured = {a.attr for a in ast.walk(cap) if isinstance(a, ast.Attribute) and attr_chain(a.value) and attr_chain(a.value).endswith(".state")}
    written = {k.value for d in ast.walk(saver) if isinstance(d, ast.Dict) for k in d.keys if isinstance(k, ast.Constant)}
    restored = {t.attr for a in ast.walk(loader) if isinstance(a, ast.Assign) for t in a.targets if isinstance(t, ast.Attribute) and attr_chain(t.value) and attr_chain(t.value).endswith(".state")}
    n = 0
    for f in fields:
        n += 1
        miss = [w for w, ok in (("captured by _snapshot_from_chips", f in captured), ("written by _capture_lcd_snapshot", f in written), ("restored by HD61202Controller.load_snapshot", f in restored)) if not ok]
        if miss:
            ctx.violation("C16.3/lcd-state-cover", key_of(HD, "HD61202State", f),
                          f"Python HD61202State.{f} is not " + ", not ".join(miss) + ": after a restore the chip's behaviour that depends on it differs from the uninterrupted machine", f"{HD}:{cls.lineno}")
    LCD = "core/src/lcd.rs"
    ctx.file_used(REPO / rs.file_for(LCD))
    stt = rs.struct(LCD, "Hd61202State")
    rfields = [f["name"] for f in stt["fields"]]
    ex = rs.fn(LCD, "LcdController::export_snapshot")
    ld = rs.fn(LCD, "LcdController::load_snapshot")
    ex_read = {expr_text(e).replace(" ", "").split(".")[-1] for e in walk(ex.body) if e.get("k") == "field" and ".state." in expr_text(e).replace(" ", "")}
    ex_read |= {m.group(1) for st in walk(ex.body) if st.get("k") == "macro" for m in re.finditer(r"state\s*\.\s*(\w+)", st.get("src", "") or st.get("tokens", "") or "")}
    ld_set = {expr_text(a["l"]).replace(" ", "").split(".")[-1] for a in walk(ld.body) if a.get("k") == "assign" and ".state." in expr_text(a["l"]).replace(" ", "")}
    for f in rfields:
        n += 1
        miss = [w for w, ok in (("exported by LcdController::export_snapshot", f in ex_read), ("restored by LcdController::load_snapshot", f in ld_set)) if not ok]
        if miss:
            ctx.violation("C16.3/lcd-state-cover", key_of(rs.file_for(LCD), "Hd61202State", f),
                          f"Rust Hd61202State.{f} is not " + ", not ".join(miss) + ": after a restore the chip's behaviour that depends on it differs from the uninterrupted machine", ex.where)
    ctx.instance("C16.3/lcd-state-cover", "per-chip LCD controller state fields x {saved, restored} x {Python, Rust}", n, 8)


LCD_FIELD_DOMAIN = {"on": (False, True), "start_line": range(64), "page": range(8), "y_address": range(64)}   # HD61202 register widths: 6, 3, 6 bits
RS_POST_RESTORE_OK = {
    # fields apply_snapshot_info may overwrite after restoring them, with the reason (frozen from reading the code)
    "irq_pending": "dropped only when the restored ISR is empty: nothing is left to deliver",
    "irq_source": "cleared together with irq_pending when the restored ISR is empty",
}


def restore_identity(ctx: Ctx, py: PyProgram, rs: RustProgram) -> None:
    """Restore is the identity on what was saved.  (a) Python LCD loader: each `chip.state.<f> = EXPR(chip_meta)` is evaluated for
    every value the register can hold and must give that value back (a reduction narrower than the register loses state).
    (b) Rust timer loader: a field restored from the snapshot is not overwritten afterwards, except for the two sanitising stores
    listed above."""
    CW = "pce500/display/controller_wrapper.py"
    HD = "pce500/display/hd61202.py"
    fn = py.func(CW, "HD61202Controller.load_snapshot")
    mod = py.module(CW)
    hmod = py.module(HD)
    consts: dict = {}
    for st in ast.walk(hmod.tree):
        if isinstance(st, ast.ClassDef) and st.name == "HD61202":
            for a in st.body:
                if isinstance(a, ast.Assign) and isinstance(a.targets[0], ast.Name):
                    try:
                        ev0 = PyEval(py, hmod)
                        ev0.env = dict(consts)
                        v = ev0.eval(a.value)
                        if isinstance(v, int):
                            consts[a.targets[0].id] = v
                    except Exception:  # noqa: BLE001
                        pass
    from ..pyfacts import Term, NotConst
    defs = py_defs(fn)
    n = 0
    for a in ast.walk(fn):
        if not (isinstance(a, ast.Assign) and len(a.targets) == 1 and isinstance(a.targets[0], ast.Attribute) and isinstance(a.targets[0].value, ast.Attribute) and a.targets[0].value.attr == "state"):
            continue
        fld = a.targets[0].attr
        if fld not in LCD_FIELD_DOMAIN:
            continue
        # the per-chip metadata mapping is whatever `.get("<fld>")` is called on in the expression
        metas = {unparse(c.func.value) for c in ast.walk(a.value) if isinstance(c, ast.Call) and isinstance(c.func, ast.Attribute) and c.func.attr == "get" and c.args and isinstance(c.args[0], ast.Constant) and c.args[0].value == fld}
        ctx.need(len(metas) == 1, f"load_snapshot: the saved value of {fld} is not read with .get({fld!r})")
        meta_name = next(iter(metas))
        bad = None
        for v in LCD_FIELD_DOMAIN[fld]:
            n += 1
            ev = PyEval(py, mod, budget=[5000])
            ev.env = {meta_name: {fld: v}, "HD61202": Term("HD61202", (), dict(consts)), "pages": consts.get("LCD_PAGES"), "width": consts.get("LCD_WIDTH_PIXELS")}
            # locals the expression uses, evaluated from their definitions
            for nm in {x.id for x in ast.walk(a.value) if isinstance(x, ast.Name)} - set(ev.env):
                for dv in defs.get(nm, []):
                    if isinstance(dv, ast.AST):
                        try:
                            ev.env[nm] = ev.eval(dv)
                        except NotConst:
                            pass
            try:
                got = ev.eval(a.value)
            except NotConst as e:
                raise AnalysisError(f"load_snapshot: restore expression of {fld} left the evaluable fragment: {e}")
            if got != v and bad is None:
                bad = (v, got)
        if bad is not None:
            ctx.violation("C16.6/restore-exact", key_of(CW, "HD61202Controller.load_snapshot", f"{fld} not restored as saved"),
                          f"load_snapshot restores chip.state.{fld} as `{unparse(a.value)[:80]}`: a saved value of {bad[0]} comes back as {bad[1]} although the register holds {len(LCD_FIELD_DOMAIN[fld])} values - the restored display differs from the one that was saved", f"{CW}:{a.lineno}")
    ctx.need(n >= 100, f"load_snapshot: only {n} restore evaluations (state field stores not recognised)")
    # (b)
    ld = rs.fn(TIMER_RS, "TimerContext::apply_snapshot_info")
    params = set(p for p in ld.params() if p != "self")
    ld_defs = rs_defs(ld.body)
    restored: dict[str, dict] = {}
    for a in walk(ld.body):
        if a.get("k") == "assign" and a["l"].get("k") == "field" and expr_text(a["l"]["e"]) == "self":
            roots = {re.split(r"[.\[(]", l_.lstrip("&*<"))[0].rstrip(">") for l_ in rs_leaves(a["r"], ld_defs)}
            from_snap = bool(roots & params)
            nm = a["l"]["name"]
            n += 1
            if from_snap:
                restored.setdefault(nm, a)
            elif nm in restored and nm not in RS_POST_RESTORE_OK:
                ctx.violation("C16.6/restore-exact", key_of(ld.file, ld.qual, f"{nm} overwritten after being restored"),
                              f"apply_snapshot_info restores self.{nm} from the snapshot and then overwrites it with `{expr_text(a['r'])}` under a condition of its own: a snapshot taken in that state (e.g. inside a handler, written by the Python saver with an empty frame stack) resumes differently", f"{ld.file}:{a['ln']}")
    ctx.instance("C16.6/restore-identity", "LCD state restore expressions evaluated over each register's domain; Rust timer fields not overwritten after restore", n, 150)


def rust_apply_whole(ctx: Ctx, rs: RustProgram, rule: str, inst: str) -> None:
    """The Rust restore writes every layout register *whole*, through the name looked up from the layout: a restore through named
    sub-registers is not the identity (writing IL clears IH; F restored through FC/FZ loses bits 2..7).  Shared with C08."""
    fn = rs.fn(isa.LIB_RS, "apply_registers")
    n = 0
    loops = [l for l in walk(fn.body) if l.get("k") == "for" and "SNAPSHOT_REGISTER_LAYOUT" in expr_text(l["iter"])]
    ctx.need(len(loops) == 1, "apply_registers: loop over SNAPSHOT_REGISTER_LAYOUT not found")
    for c in walk(loops[0]["body"]):
        if c.get("k") == "mcall" and c["m"] == "set_reg" and c["args"]:
            n += 1
            a0 = c["args"][0]
            if a0.get("k") == "path" and a0["p"].startswith("RegName::"):
                ctx.violation(rule, key_of(fn.file, fn.qual, "layout register restored through a named sub-register"),
                              f"apply_registers writes `{expr_text(c)[:70]}` inside the layout loop: restoring a register through its parts is not the identity on the register file (a write to IL clears IH; F written through FC/FZ comes back without bits 2..7)", f"{fn.file}:{c['ln']}")
    ctx.instance(inst, "set_reg calls of apply_registers' layout loop write the register named by the layout, whole", n, 1)


# classes a snapshot saver/loader reaches through `self.<field>.<method>(...)`; methods are resolved by name over these
SNAPSHOT_CLASSES = (
    (EMU, "PCE500Emulator"), ("pce500/memory.py", "PCE500Memory"), ("pce500/memory_bus.py", "MemoryBus"),
    ("pce500/display/controller_wrapper.py", "HD61202Controller"), ("pce500/display/hd61202.py", "HD61202"),
    (KM_PY, "KeyboardMatrix"), ("pce500/keyboard_handler.py", "PCE500KeyboardHandler"),
)
# the CPU-visible access entry points: calling one is an access the machine can observe (handlers run, FIFOs drain, counters tick)
ACCESS_ENTRY = {"read_byte", "read_word", "read_long", "read_bytes", "write_byte", "write_word", "write_long", "read_handler", "write_handler",
                "handle_read", "handle_write", "read_register", "write_register", "step", "tick", "scan_tick"}
_AGGREGATES = {"any", "all", "sum", "max", "min", "sorted", "set", "count"}


def _snapshot_methods(ctx: Ctx, py: PyProgram) -> dict[str, list[tuple[str, str, ast.FunctionDef]]]:
    out: dict[str, list] = {}
    for rel, cls in SNAPSHOT_CLASSES:
        try:
            c = py.cls(py.module(rel), cls)
        except Exception:  # noqa: BLE001
            c = None
        if c is None:
            continue
        ctx.file_used(REPO / rel)
        for nm, fn in c.methods.items():
            out.setdefault(nm, []).append((rel, cls, fn))
    return out


def _field_classes(py: PyProgram, classes: dict[str, tuple[str, Any]]) -> dict[tuple[str, str], str]:
    """(class, field) -> class name, from `self.<field> = <Class>(...)` assignments (import aliases resolved through the module)"""
    out: dict[tuple[str, str], str] = {}
    for cname, (rel, c) in classes.items():
        mod = py.module(rel)
        for a in ast.walk(c.node):
            if isinstance(a, ast.Assign) and isinstance(a.value, ast.Call) and isinstance(a.value.func, ast.Name):
                target_cls = a.value.func.id
                imp = mod.imports.get(target_cls)
                if imp and imp[1]:
                    target_cls = imp[1]
                if target_cls in classes:
                    for t in a.targets:
                        if isinstance(t, ast.Attribute) and attr_chain(t.value) == "self":
                            out[(cname, t.attr)] = target_cls
    return out


def _closure(py: PyProgram, root_cls: str, root_name: str, stop: set[str], depth: int = 5) -> list[tuple[str, ast.FunctionDef, list[str]]]:
    """methods reachable from `root_cls.root_name` through `self.m(...)` and `self.<field>.m(...)` calls, the field's class taken from
    its constructor assignment; calls to names in `stop` are not followed (the caller reports them)"""
    from ..memo import _live_walk
    classes: dict[str, tuple[str, Any]] = {}
    for rel, cls in SNAPSHOT_CLASSES:
        c = py.cls(py.module(rel), cls)
        if c is not None:
            classes[cls] = (rel, c)
    fields = _field_classes(py, classes)
    root = classes[root_cls][1].methods[root_name]
    seen = {(root_cls, root_name)}
    out = [(f"{root_cls}.{root_name}", root, [f"{root_cls}.{root_name}"], root_cls)]
    todo = [(root_cls, root, [f"{root_cls}.{root_name}"], 0)]
    while todo:
        cls, fn, path, d = todo.pop()
        if d >= depth:
            continue
        for c in _live_walk(fn):
            if not (isinstance(c, ast.Call) and isinstance(c.func, ast.Attribute)) or c.func.attr in stop:
                continue
            base = attr_chain(c.func.value) or ""
            tcls = None
            if base == "self":
                tcls = cls
            elif base.startswith("self.") and base.count(".") == 1:
                tcls = fields.get((cls, base.split(".")[1]))
            if tcls is None:
                continue
            hit = classes[tcls][1].find_method(c.func.attr)
            if hit is None or (tcls, c.func.attr) in seen:
                continue
            seen.add((tcls, c.func.attr))
            q = f"{tcls}.{c.func.attr}"
            out.append((q, hit[1], path + [q], tcls))
            todo.append((tcls, hit[1], path + [q], d + 1))
    return out


def save_is_pure_and_restore_is_unconditional(ctx: Ctx, py: PyProgram) -> None:
    """(a) Taking a snapshot is not an access: nothing the saver reaches may call a CPU-visible access entry point (a bus read runs
    device handlers - it drains the key FIFO, ticks debounce counters, clears BUSY), so saving would change the machine's future.
    (b) Restoring is not decided by the *content* of the saved data: a restore helper may skip its work when a part is absent, but a
    test that aggregates over the payload (any/all/sum/...) drops saved state for particular contents."""
    for rel, _c in SNAPSHOT_CLASSES:
        ctx.file_used(REPO / rel)
    n = 0
    from ..memo import _live_walk
    for q, fn, path, _cls in _closure(py, "PCE500Emulator", "save_snapshot", ACCESS_ENTRY):
        n += 1
        for c in _live_walk(fn):
            if isinstance(c, ast.Call) and isinstance(c.func, ast.Attribute) and c.func.attr in ACCESS_ENTRY:
                base = attr_chain(c.func.value) or unparse(c.func.value)
                if not (base == "self" or base.startswith("self.") or "overlay" in base):
                    continue
                ctx.violation("C16.5/save-is-pure", key_of(EMU, q, f"{c.func.attr} while saving"),
                              f"save_snapshot reaches `{unparse(c)[:80]}` ({' -> '.join(path)}): that is a CPU-visible access (device read handlers run, the key FIFO is drained, counters tick), "
                              "so taking a snapshot changes what the snapshotted machine does next", f"{EMU}:{c.lineno}")
    ns = n
    ctx.need(ns >= 4, f"saver closure has only {ns} functions")
    for q, fn, path, _cls in _closure(py, "PCE500Emulator", "load_snapshot", set()):
        params = {a.arg for a in fn.args.args + fn.args.kwonlyargs if a.arg != "self"}
        n += 1
        for i in _live_walk(fn):
            tests = [i.test] if isinstance(i, (ast.If, ast.IfExp, ast.While)) else []
            for t in tests:
                for c in ast.walk(t):
                    if isinstance(c, ast.Call) and ((isinstance(c.func, ast.Name) and c.func.id in _AGGREGATES) or (isinstance(c.func, ast.Attribute) and c.func.attr == "count")):
                        used = {x.id for a in c.args for x in ast.walk(a) if isinstance(x, ast.Name)}
                        if q != "PCE500Emulator.load_snapshot" and not (used & params):
                            continue
                        if q == "PCE500Emulator.load_snapshot" and not used:
                            continue
                        ctx.violation("C16.6/restore-unconditional", key_of(EMU, q, f"restore decided by {unparse(c.func)}() of the saved data"),
                                      f"{q} branches on `{unparse(t)[:80]}`: whether saved state is restored depends on the content of the saved data, so a snapshot taken at such a point comes back without it "
                                      f"({' -> '.join(path)})", f"{EMU}:{i.lineno}")
    ctx.instance("C16.5/save-pure-restore-unconditional", "functions reachable from save_snapshot (no CPU-visible access) and from load_snapshot (no content-aggregating guard)", n, 12)


def keyboard_restore_identity(ctx: Ctx, py: PyProgram) -> None:
    """KeyboardMatrix.load_state gives every per-key counter and the ring indices back exactly as saved: the method is interpreted whole
    (on a stand-in with one key) for saved counter values inside and beyond the configured debounce / repeat windows - the repeat
    countdown legitimately starts at repeat_delay, far above repeat_interval, so a 'clamp to the window' loses state."""
    from ..pyfacts import ClassHost, NotConst
    mod = py.module(KM_PY)
    km = py.need_cls(mod, "KeyboardMatrix")
    ctx.need("load_state" in km.methods, "KeyboardMatrix.load_state vanished")

    class H:
        _sa_host = True

        def __init__(self, **k: Any):
            for a_, b_ in k.items():
                setattr(self, a_, b_)
    n = 0
    bad = None
    for counters in ({"press_ticks": 0, "release_ticks": 0, "repeat_ticks": 0}, {"press_ticks": 5, "release_ticks": 4, "repeat_ticks": 23},
                     {"press_ticks": 1, "release_ticks": 6, "repeat_ticks": 7}, {"press_ticks": 40, "release_ticks": 40, "repeat_ticks": 200}):
        for pressed, debounced in ((True, True), (False, True), (True, False)):
            ks = H(pressed=False, debounced=False, press_ticks=0, release_ticks=0, repeat_ticks=0, location=H(column=0, row=1))
            me = ClassHost(py, mod, km, press_threshold=6, release_threshold=6, repeat_delay=24, repeat_interval=6, columns_active_high=True, scan_enabled=True,
                           _pressed_keys=set(), _key_states={"KEY_Q": ks}, _fifo=[0] * 8, _head=0, _tail=0, strobe_count=0, column_histogram=[0] * 11,
                           kol=0, koh=0, _kil_latch=0, irq_count=0, _count=0)
            saved = {"pressed": pressed, "debounced": debounced, **counters}
            state = {"press_threshold": 6, "release_threshold": 6, "repeat_delay": 24, "repeat_interval": 6, "key_states": {"KEY_Q": dict(saved)},
                     "fifo": [1, 2, 3, 4, 5, 6, 7, 8], "head": 2, "tail": 5}
            try:
                me._sa_call(km, km.methods["load_state"], (state,), {})
            except NotConst as e:
                raise AnalysisError(f"KeyboardMatrix.load_state left the evaluable fragment: {e}")
            for f_, want in saved.items():
                n += 1
                got = getattr(ks, f_)
                if got != want and bad is None:
                    bad = (f_, want, got)
            n += 2
            if (me._head, me._tail) != (2, 5) and bad is None:
                bad = ("head/tail", (2, 5), (me._head, me._tail))
    if bad:
        ctx.violation("C16.6/keyboard-restore-identity", key_of(KM_PY, "KeyboardMatrix.load_state", f"{bad[0]} not restored as saved"),
                      f"load_state restores {bad[0]} = {bad[2]!r} from a snapshot that holds {bad[1]!r}: the restored keyboard continues differently from the one that was saved "
                      "(e.g. the first auto-repeat of a held key comes up to repeat_delay - repeat_interval scan ticks early)", f"{KM_PY}:{km.methods['load_state'].lineno}")
    ctx.instance("C16.6/keyboard-restore-identity", "per-key counters x flag combinations and ring indices through KeyboardMatrix.load_state (interpreted): restored == saved", n, 80)


# fields load_snapshot may assign again after restoring them, with the reason (confirmed by reading)
_RESTORE_REASSIGN_OK = {
    "_timer_mti_period": "llama-backend timer rescale: host configuration (self._timer_scale), applied on purpose whatever the snapshot says",
    "_timer_sti_period": "llama-backend timer rescale: host configuration (self._timer_scale), applied on purpose whatever the snapshot says",
}


def restore_once(ctx: Ctx, py: PyProgram) -> None:
    """A field that load_snapshot has set from the saved data is not assigned again later in load_snapshot: a second assignment
    (under whatever condition) replaces what was saved by something computed at load time, so the restored machine is not the saved
    one whenever that condition holds."""
    fn = py.func(EMU, "PCE500Emulator.load_snapshot")
    params = {a.arg for a in fn.args.args + fn.args.kwonlyargs if a.arg != "self"}
    defs = py_defs(fn)

    def from_saved(e: Any, depth: int = 0) -> bool:
        if isinstance(e, tuple):
            return any(from_saved(y, depth) for y in e if isinstance(y, (ast.AST, tuple)))
        if not isinstance(e, ast.AST):
            return False
        for x in ast.walk(e):
            if isinstance(x, ast.Call) and isinstance(x.func, ast.Attribute) and x.func.attr in ("loads", "load", "read"):
                return True         # json.loads(..) / zf.read(..): the saved bundle itself
            if isinstance(x, ast.Name):
                if x.id in params:
                    return True
                if x.id in defs and depth < 6 and any(from_saved(v, depth + 1) for v in defs[x.id]):
                    return True
        return False
    first: dict[str, ast.AST] = {}
    n = 0
    stmts = sorted([s_ for s_ in ast.walk(fn) if isinstance(s_, (ast.Assign, ast.AugAssign, ast.AnnAssign))], key=lambda s_: (s_.lineno, s_.col_offset))
    for st in stmts:
        ts = st.targets if isinstance(st, ast.Assign) else [st.target]
        for t in ts:
            for e in (t.elts if isinstance(t, (ast.Tuple, ast.List)) else [t]):
                if not (isinstance(e, ast.Attribute) and isinstance(e.value, ast.Name) and e.value.id == "self"):
                    continue
                val = getattr(st, "value", None)
                if e.attr not in first:
                    if val is not None and from_saved(val):
                        first[e.attr] = st
                        n += 1
                    continue
                if e.attr in _RESTORE_REASSIGN_OK:
                    continue
                ctx.violation("C16.6/restore-once", key_of(EMU, "PCE500Emulator.load_snapshot", f"self.{e.attr} assigned again after the restore"),
                              f"load_snapshot restores self.{e.attr} from the saved data (line {first[e.attr].lineno}) and assigns it again at line {st.lineno} (`{unparse(st)[:100]}`): "
                              "whenever that statement runs, the restored machine no longer has the saved value", f"{EMU}:{st.lineno}")
    ctx.instance("C16.6/restore-once", "fields load_snapshot sets from the saved data; none may be assigned again in the same function (two reasoned exceptions)", n, 15)
