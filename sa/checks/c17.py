"""C17 - every copy of the architecture's tables and constants says the same thing.

TABLE-AGREE over every duplicated table/constant, both languages + README.
Statically complete for this property: the domain is finite and enumerated."""
from __future__ import annotations

import ast
import re
from typing import Any

from .. import isa, mdfacts
from ..core import REPO, AnalysisError, Ctx
from ..pyfacts import EnumMember, PyEval, PyProgram, Term, attr_chain, unparse
from ..rules import key_of
from ..rsfacts import RustProgram, expr_text, pat_text, walk

LEVEL = "other"
EXPLANATION = (
    "TABLE-AGREE: each duplicated table/constant is evaluated from its initialiser in the syntax tree "
    "(Python: ast + constant folding; Rust: syn tree + constant folding; README: pipe tables) and the copies are "
    "compared row by row after the normalisation the repository's own generator script documents. The domain "
    "(256 opcode rows, 15 PRE bytes, 98 single-addressable opcodes, register tables, IMEM offsets, IMR/ISR bits, "
    "vectors, address-space constants, view segments) is finite and enumerated completely."
)
TRUSTED = [
    "syn 2.0.117 parser (vendored) and CPython ast as front ends",
    "scripts/generate_llama_opcodes.py::_map_operand/_opcode_entry as the documented Python->Rust table mapping (re-implemented over constructor terms; its kind_map is read from the script on every run)",
]


def _mode_name_rs_to_py(s: str) -> str:
    return {"N": "N", "BpN": "BP_N", "PxN": "PX_N", "PyN": "PY_N", "BpPx": "BP_PX", "BpPy": "BP_PY"}[s]


def match_arms_map(fn_body: dict, scrut_contains: str | None = None) -> list[tuple[list[str], dict]]:
    """[(pattern-alternatives-as-text, body-expr)] of the first `match` in a fn body."""
    for n in walk(fn_body):
        if n.get("k") == "match":
            out = []
            for arm in n["arms"]:
                pat = arm["pat"]
                alts = pat["cases"] if pat.get("k") == "p_or" else [pat]
                out.append(([pat_text(a) for a in alts], arm["body"]))
            return out
    raise AnalysisError("no match expression found")


def run(ctx: Ctx) -> None:
    py = PyProgram()
    rs = RustProgram()
    ctx.functions_analysed = rs.n_fns
    for f in [isa.OPTABLE, isa.OPCODES_PY, isa.EMU_PY, isa.CONST_PY, isa.ARCH_PY, isa.VIEW_PY,
              "sc62015/pysc62015/intrinsics.py", "scripts/generate_llama_opcodes.py", mdfacts.README,
              "pce500/emulator.py", "pce500/memory.py"]:
        ctx.file_used(REPO / f)
    for suffix in [isa.OPCODES_RS, isa.EVAL_RS, isa.STATE_RS, isa.LIB_RS, isa.MEMORY_RS, "core/src/pce500.rs", "core/src/timer.rs"]:
        ctx.file_used(REPO / rs.file_for(suffix))

    check_opcode_tables(ctx, py, rs)
    check_single_opcode_table(ctx, py)
    check_pre_tables(ctx, py, rs)
    check_single_addressable(ctx, py, rs)
    check_registers(ctx, py, rs)
    check_imem_offsets(ctx, py, rs)
    check_irq_bits(ctx, py, rs)
    check_vectors_and_spaces(ctx, py, rs)
    check_views(ctx, py)
    check_trace_register_copy(ctx, py)
    # the snapshot register blob's (name, width) table is duplicated between pce500/emulator.py and the Rust snapshot module: order,
    # names and widths must agree (rule shared with C16/C08)
    from .c16 import layout
    layout(ctx, py, rs)
    ctx.extra["exhaustive"] = True


# ---------------------------------------------------------------------------
def check_single_opcode_table(ctx: Ctx, py: PyProgram) -> None:
    """Every consumer decodes with *the* opcode table: outside its home module the table is only ever imported or aliased.  A
    module that builds its own dict from it (`{**OPCODES, k: v}`, `dict(OPCODES, ..)`, a copy that is then updated) has forked the
    table: decoder, hooks, emulator and the Rust table no longer say the same thing about the keys it changes."""
    n = 0
    for rel, m in sorted(py.modules.items()):
        if rel == isa.OPTABLE or "/test" in rel or rel.startswith("tests/") or "test_" in rel.rsplit("/", 1)[-1]:
            continue
        aliases = set()
        for st in ast.walk(m.tree):
            if isinstance(st, ast.ImportFrom) and st.module and st.module.endswith("opcode_table"):
                for a in st.names:
                    if a.name == "OPCODES":
                        aliases.add(a.asname or a.name)
        if not aliases:
            r0 = py.resolve_symbol(m, "OPCODES")
            if r0 is not None and r0[0].rel == isa.OPTABLE:
                aliases.add("OPCODES")
        if not aliases:
            continue
        n += 1
        for x in ast.walk(m.tree):
            forked = None
            if isinstance(x, ast.Dict) and any(k is None and isinstance(v, ast.Name) and v.id in aliases for k, v in zip(x.keys, x.values)) and any(k is not None for k in x.keys):
                forked = x
            if isinstance(x, ast.Call) and isinstance(x.func, ast.Name) and x.func.id == "dict" and x.args and isinstance(x.args[0], ast.Name) and x.args[0].id in aliases and (len(x.args) > 1 or x.keywords):
                forked = x
            if isinstance(x, ast.Call) and isinstance(x.func, ast.Attribute) and x.func.attr in ("update", "pop", "setdefault", "__setitem__") and isinstance(x.func.value, ast.Name) and x.func.value.id in aliases:
                forked = x
            if isinstance(x, (ast.Assign, ast.AugAssign, ast.Delete)):
                for t in (x.targets if not isinstance(x, ast.AugAssign) else [x.target]):
                    if isinstance(t, ast.Subscript) and isinstance(t.value, ast.Name) and t.value.id in aliases:
                        forked = x
            if forked is not None:
                ctx.violation("C17/opcode-table-single", key_of(rel, "module", "own opcode table derived from OPCODES"),
                              f"{rel}:{forked.lineno} builds or edits its own opcode table (`{unparse(forked)[:90]}`): this consumer decodes some opcodes differently from the decoder, the hooks and the Rust table", f"{rel}:{forked.lineno}")
    ctx.instance("C17/opcode-table-single", "modules that import the opcode table: none derives an edited copy of it", n, 2)


def check_opcode_tables(ctx: Ctx, py: PyProgram, rs: RustProgram) -> None:
    prow = isa.py_rows(py)
    rrow = isa.rs_rows(rs)
    kind_map = isa.generator_kind_map(py)
    ctx.need(sorted(prow) == list(range(256)), f"Python OPCODES keys are not exactly 0..255 ({len(prow)} keys)")
    ctx.need(len(rrow) == 256, f"Rust OPCODES has {len(rrow)} entries, expected 256")
    rel = rs.file_for(isa.OPCODES_RS)
    n = 0
    for i, r in enumerate(rrow):
        n += 1
        if r.opcode != i:
            ctx.violation("C17/opcode-index", f"{rel}::OPCODES[{i}].opcode", f"Rust OPCODES[{i}] has opcode {r.opcode:#04x}; dispatch::lookup indexes by opcode",
                          rel, index=i, opcode=r.opcode)
            continue
        e = isa.expected_rs_row(py, prow[i], kind_map)
        for fld in ("kind", "name", "cond", "ops_reversed", "operands"):
            got, exp = getattr(r, fld), getattr(e, fld)
            if got != exp:
                ctx.violation(
                    "C17/opcode-table", f"{rel}::OPCODES[0x{i:02X}].{fld}",
                    f"opcode 0x{i:02X} ({prow[i].name}): Rust table {fld}={got!r}, Python table implies {exp!r}",
                    f"{rel} (entry 0x{i:02X}) vs {isa.OPTABLE}:{prow[i].ln}", python=repr(prow[i].ops), rust=repr(r.operands))
        if i in (0x00, 0x56, 0xD6, 0xE3):
            ctx.sample({"opcode": f"0x{i:02X}", "python": f"{prow[i].cls} {prow[i].ops!r}", "rust": f"{r.kind} {r.operands!r}"})
    ctx.instance("C17/opcode-table", "Python OPCODES rows vs Rust OPCODES entries (kind,name,cond,ops_reversed,operand kinds+widths)", n, 256)
    # every InstrKind used in the table exists in the enum
    kinds = {v["name"] for v in rs.enum(isa.OPCODES_RS, "InstrKind")["variants"]}
    used = {r.kind for r in rrow}
    ctx.need(used <= kinds, f"Rust table uses kinds missing from InstrKind: {used - kinds}")


def check_pre_tables(ctx: Ctx, py: PyProgram, rs: RustProgram) -> None:
    matrix = py.value(isa.OPCODES_PY, "_PRE_OPCODE_MATRIX")
    table = py.value(isa.OPCODES_PY, "PRE_TABLE")
    reverse = py.value(isa.OPCODES_PY, "REVERSE_PRE_TABLE")
    rs_modes = rs.eval_const(isa.EVAL_RS, "PRE_MODES")
    pyd = {op: (a.name, b.name) for (a, b), op in matrix.items()}
    ctx.need(len(pyd) == len(matrix), "duplicate opcode in _PRE_OPCODE_MATRIX")
    rsd = {}
    for row in rs_modes:
        op, a, b = row
        rsd[op] = (_mode_name_rs_to_py(a[1].split("::")[-1]), _mode_name_rs_to_py(b[1].split("::")[-1]))
    ctx.need(len(rsd) == len(rs_modes), "duplicate opcode in Rust PRE_MODES")
    rel = rs.file_for(isa.EVAL_RS)
    for op in sorted(set(pyd) | set(rsd)):
        if pyd.get(op) != rsd.get(op):
            ctx.violation("C17/pre-matrix", f"{rel}::PRE_MODES[0x{op:02X}]",
                          f"PRE byte 0x{op:02X}: Python (first,second)={pyd.get(op)}, Rust={rsd.get(op)}", rel)
    # derived tables agree with the matrix (slot 1 = first = row, slot 2 = second = column)
    for op, (a, b) in pyd.items():
        t1 = table[1].get(op)
        t2 = table[2].get(op)
        if not (t1 is not None and t1.name == a and t2 is not None and t2.name == b):
            ctx.violation("C17/pre-matrix", f"{isa.OPCODES_PY}::PRE_TABLE[0x{op:02X}]",
                          f"PRE_TABLE for 0x{op:02X} is ({t1},{t2}) but the matrix says ({a},{b})", isa.OPCODES_PY)
    for (a, b), op in reverse.items():
        if pyd.get(op) != (a.name, b.name):
            ctx.violation("C17/pre-matrix", f"{isa.OPCODES_PY}::REVERSE_PRE_TABLE[{a.name},{b.name}]",
                          f"REVERSE_PRE_TABLE maps ({a.name},{b.name}) to 0x{op:02X}, matrix disagrees", isa.OPCODES_PY)
    # PRE opcodes of the table == matrix values
    prow = isa.py_rows(py)
    pre_ops = {k for k, r in prow.items() if r.cls == "PRE"}
    if pre_ops != set(pyd):
        ctx.violation("C17/pre-matrix", f"{isa.OPTABLE}::OPCODES[PRE rows]",
                      f"opcodes decoded as PRE {sorted(map(hex, pre_ops))} differ from the prefix matrix {sorted(map(hex, pyd))}", isa.OPTABLE)
    # README matrix
    tabs = mdfacts.tables()
    t = mdfacts.table_under(tabs, "Prefix Byte Table")
    col_modes = []
    for h in t.header[1:]:
        col_modes.append(_doc_mode(h))
    doc = {}
    for row in t.rows:
        rmode = _doc_mode(row[0])
        for cm, cell in zip(col_modes, row[1:]):
            cell = cell.strip()
            if not cell:
                continue
            m = re.fullmatch(r"([0-9A-Fa-f]{2})H", cell)
            ctx.need(m, f"README prefix table cell {cell!r} unreadable")
            doc[int(m.group(1), 16)] = (rmode, cm)
    for op in sorted(set(doc) | set(pyd)):
        if doc.get(op) != pyd.get(op):
            ctx.violation("C17/pre-matrix", f"{mdfacts.README}::PrefixByteTable[0x{op:02X}]",
                          f"PRE byte 0x{op:02X}: README says {doc.get(op)}, decoder matrix says {pyd.get(op)}", mdfacts.README)
    ctx.instance("C17/pre-matrix", "PRE byte -> (first,second) mode in Python matrix/derived tables, Rust PRE_MODES, README matrix, OPCODES PRE rows", len(pyd), 15)
    ctx.sample({"pre": "0x25", "python": pyd.get(0x25), "rust": rsd.get(0x25), "readme": doc.get(0x25)})


def _doc_mode(s: str) -> str:
    s = s.strip().replace(" ", "")
    m = {"(n)": "N", "(BP+n)": "BP_N", "(PX+n)": "PX_N", "(PY+n)": "PY_N", "(BP+PX)": "BP_PX", "(BP+PY)": "BP_PY"}
    if s not in m:
        raise AnalysisError(f"README prefix table mode {s!r} unreadable")
    return m[s]


def check_single_addressable(ctx: Ctx, py: PyProgram, rs: RustProgram) -> None:
    a = set(py.value(isa.OPCODES_PY, "SINGLE_ADDRESSABLE_OPCODES"))
    b = set(rs.eval_const(isa.EVAL_RS, "SINGLE_ADDRESSABLE_OPCODES"))
    rel = rs.file_for(isa.EVAL_RS)
    for op in sorted(a ^ b):
        ctx.violation("C17/single-addressable", f"{rel}::SINGLE_ADDRESSABLE_OPCODES[0x{op:02X}]",
                      f"opcode 0x{op:02X} is single-addressable in {'Python' if op in a else 'Rust'} only", rel)
    ctx.instance("C17/single-addressable", "SINGLE_ADDRESSABLE_OPCODES Python set vs Rust slice", len(a | b), 98)


# ---------------------------------------------------------------------------
def _rs_mask_for(rs: RustProgram) -> dict[str, int]:
    fn = rs.fn(isa.STATE_RS, "mask_for")
    ev = rs.evaluator(isa.STATE_RS)
    out = {}
    for alts, body in match_arms_map(fn.body):
        v = ev.eval(body)
        for a in alts:
            out[a.replace("RegName::", "")] = v
    return out


def _rs_str_match(rs: RustProgram, file: str, fname: str) -> tuple[dict[str, Any], Any]:
    fn = rs.fn(file, fname)
    ev = rs.evaluator(file)
    out = {}
    default = None
    for alts, body in match_arms_map(fn.body):
        v = ev.eval(body)
        for a in alts:
            if a == "_":
                default = v
            else:
                out.setdefault(a.strip('"'), v)        # a match takes its first matching arm
    return out, default


def _is_membership_if(n: ast.AST) -> bool:
    return (isinstance(n, ast.If) and isinstance(n.test, ast.Compare) and len(n.test.ops) == 1
            and isinstance(n.test.ops[0], ast.In))


def _mentions_outside_membership_ifs(n: ast.AST, name: str) -> bool:
    """`name` is used in `n` outside any nested `if x in <collection>:` (those are judged on their own)."""
    if _is_membership_if(n):
        return False
    if isinstance(n, ast.Name) and n.id == name:
        return True
    return any(_mentions_outside_membership_ifs(c, name) for c in ast.iter_child_nodes(n))


def check_registers(ctx: Ctx, py: PyProgram, rs: RustProgram) -> None:
    emu = py.module(isa.EMU_PY)
    sizes = {k.name: v for k, v in py.value(isa.EMU_PY, "REGISTER_SIZE").items()}
    pc_mask = py.value(isa.CONST_PY, "PC_MASK")
    ev = PyEval(py, emu)
    subinfo = {k.name: (v[0].name, v[1], v[2]) for k, v in
               ev.eval(ast.Attribute(value=ast.Name(id="Registers"), attr="_SUBREG_INFO", lineno=0)).items()}
    base = {m.name for m in ev.eval(ast.Attribute(value=ast.Name(id="Registers"), attr="BASE", lineno=0))}
    # the set of registers masked with PC_MASK in Registers.get and Registers.set
    masked_sets = []
    for meth in ("get", "set"):
        fn = py.func(isa.EMU_PY, f"Registers.{meth}")
        found = None
        for n in ast.walk(fn):
            # `if reg in <collection>:` guarding a use of PC_MASK; the collection may be a literal
            # or a module/class constant
            if not (isinstance(n, ast.If) and isinstance(n.test, ast.Compare) and len(n.test.ops) == 1
                    and isinstance(n.test.ops[0], ast.In)):
                continue
            if not any(_mentions_outside_membership_ifs(b, "PC_MASK") for b in n.body):
                continue
            coll = n.test.comparators[0]
            if isinstance(coll, ast.Attribute) and isinstance(coll.value, ast.Name) and coll.value.id in ("self", "cls"):
                coll = ast.Attribute(value=ast.Name(id="Registers"), attr=coll.attr, lineno=0)
            try:
                members = ev.eval(coll)
                names = {m.name for m in members}
            except Exception as e:  # noqa: BLE001
                raise AnalysisError(f"Registers.{meth}: PC_MASK register collection not evaluable: {e}")
            found = names if found is None else found | names
        ctx.need(found is not None, f"Registers.{meth}: PC_MASK register tuple not found")
        masked_sets.append(found)
    if masked_sets[0] != masked_sets[1]:
        ctx.violation("C17/register-model", f"{isa.EMU_PY}::Registers.get/set::PC_MASK-set",
                      f"Registers.get masks {sorted(masked_sets[0])} to 20 bits but Registers.set masks {sorted(masked_sets[1])}", isa.EMU_PY)
    masked20 = masked_sets[1]
    # the lifter keeps its own list of 20-bit pointer registers (INC/DEC/ADD/SUB mask their result with it): a further copy
    try:
        lift20 = {str(getattr(x, "name", x)) for x in py.value(isa.INSTR_PY, "REG3_20BIT_REGS")}
    except Exception as e:  # noqa: BLE001
        raise AnalysisError(f"{isa.INSTR_PY}: REG3_20BIT_REGS not evaluable: {e}")
    reg20 = {str(getattr(x, "name", x)) for x in masked20} - {"PC"}
    if lift20 != reg20:
        ctx.violation("C17/register-model", f"{isa.INSTR_PY}::REG3_20BIT_REGS",
                      f"the lifter's list of 20-bit registers is {sorted(lift20)} but the register file masks {sorted(reg20)} (besides PC) to 20 bits: "
                      f"INC/DEC/ADD/SUB of {sorted(lift20 ^ reg20)} compute result and Z at another width than the register holds", isa.INSTR_PY)

    def py_mask(name: str) -> int:
        if name in subinfo:
            return subinfo[name][2]
        if name in masked20:
            return pc_mask
        return (1 << (8 * sizes[name])) - 1

    rs_mask = _rs_mask_for(rs)
    rs_width, rs_default_width = _rs_str_match(rs, isa.LIB_RS, "register_width")
    rs_names, _ = _rs_str_match(rs, isa.LIB_RS, "reg_from_name")
    rel_state = rs.file_for(isa.STATE_RS)
    rel_lib = rs.file_for(isa.LIB_RS)
    n = 0
    arch_names = [nm for nm in sizes if not nm.startswith("TEMP")]
    for nm in arch_names:
        n += 1
        pm = py_mask(nm)
        rm = rs_mask.get(nm)
        if rm != pm:
            ctx.violation("C17/register-model", f"{rel_state}::mask_for::RegName::{nm}",
                          f"register {nm}: Python effective mask {pm:#x}, Rust mask_for {rm if rm is None else hex(rm)}", rel_state)
        if nm not in rs_names:
            ctx.violation("C17/register-model", f"{rel_lib}::reg_from_name::{nm}", f"register {nm} unknown to reg_from_name", rel_lib)
        w = rs_width.get(nm)
        if w is None:
            ctx.violation("C17/register-model", f"{rel_lib}::register_width::{nm}", f"register {nm} falls to the default width in register_width", rel_lib)
        else:
            storage_bits = 8 * sizes[nm] if nm not in ("FC", "FZ") else 1
            eff_bits = pm.bit_length()
            if w not in (storage_bits, eff_bits):
                ctx.violation("C17/register-model", f"{rel_lib}::register_width::{nm}",
                              f"register {nm}: register_width={w} bits, Python storage {storage_bits} bits / effective {eff_bits} bits", rel_lib)
    # temps
    tm = rs_mask.get("Temp(_)")
    if tm != (1 << (8 * sizes["TEMP0"])) - 1:
        ctx.violation("C17/register-model", f"{rel_state}::mask_for::RegName::Temp", f"temp mask {tm} vs Python {sizes['TEMP0']} bytes", rel_state)
    n_temps_py = py.value(isa.EMU_PY, "NUM_TEMP_REGISTERS")
    temps_opcodes = [py.value(isa.OPCODES_PY, nme) for nme in py.module(isa.OPCODES_PY).symbols if nme.startswith("Temp")]
    idxs = sorted(t.args[0] for t in temps_opcodes if isinstance(t, Term) and t.ctor == "LLIL_TEMP")
    if idxs != list(range(n_temps_py)):
        ctx.violation("C17/register-model", f"{isa.OPCODES_PY}::Temp*", f"lifter temporaries {idxs} are not exactly 0..{n_temps_py - 1} (NUM_TEMP_REGISTERS)", isa.OPCODES_PY)
    # rust loops `for idx in 0..14u8`
    for fname in ("collect_registers", "apply_registers"):
        fn = rs.fn(isa.LIB_RS, fname)
        his = []
        for nd in walk(fn.body):
            if nd.get("k") == "for" and nd["iter"].get("k") == "range":
                his.append(rs.evaluator(isa.LIB_RS).eval(nd["iter"]["hi"]))
        if n_temps_py not in his:
            ctx.violation("C17/register-model", f"{rel_lib}::{fname}::temp-range", f"{fname} iterates temps over {his}, Python has {n_temps_py}", rel_lib)

    # sub-register layout: Python _SUBREG_INFO vs arch.py RegisterInfo vs Rust set_reg/get_reg arms (C08 checks the arms)
    arch = py.module(isa.ARCH_PY)
    regs = PyEval(py, arch).eval(ast.Attribute(value=ast.Name(id="SC62015"), attr="regs", lineno=0))
    for nm, info in regs.items():
        n += 1
        ctx.need(isinstance(info, Term) and info.ctor == "RegisterInfo", f"arch.py regs[{nm}] is not a RegisterInfo term")
        full, size = info.args[0], info.args[1]
        off = info.args[2] if len(info.args) > 2 else 0
        if nm == "PS":
            continue  # page segment view of PC: Binary Ninja only
        if nm not in sizes:
            ctx.violation("C17/register-model", f"{isa.ARCH_PY}::SC62015.regs[{nm}]", f"arch register {nm} unknown to the emulator", isa.ARCH_PY)
            continue
        if size != sizes[nm]:
            ctx.violation("C17/register-model", f"{isa.ARCH_PY}::SC62015.regs[{nm}].size", f"arch.py size {size} bytes vs emulator {sizes[nm]}", isa.ARCH_PY)
        if nm in subinfo:
            b, shift, _m = subinfo[nm]
            if (full, off * 8) != (b, shift):
                ctx.violation("C17/register-model", f"{isa.ARCH_PY}::SC62015.regs[{nm}].offset",
                              f"arch.py places {nm} in {full} at byte {off}; emulator in {b} at bit {shift}", isa.ARCH_PY)
        elif full != nm:
            ctx.violation("C17/register-model", f"{isa.ARCH_PY}::SC62015.regs[{nm}].full", f"{nm} is a base register in the emulator but a sub-register of {full} in arch.py", isa.ARCH_PY)
    for nm in ("A", "B", "IL", "IH", "BA", "I", "X", "Y", "U", "S", "PC"):
        if nm not in regs:
            ctx.violation("C17/register-model", f"{isa.ARCH_PY}::SC62015.regs[{nm}]", f"register {nm} missing from arch.py", isa.ARCH_PY)
    # opcodes.py REGISTERS/REG_SIZES
    reg_sizes = py.value(isa.OPCODES_PY, "REG_SIZES")
    for nm, sz in reg_sizes.items():
        n += 1
        if sizes.get(nm) != sz:
            ctx.violation("C17/register-model", f"{isa.OPCODES_PY}::REG_SIZES[{nm}]", f"REG_SIZES[{nm}]={sz} vs REGISTER_SIZE {sizes.get(nm)}", isa.OPCODES_PY)
    # Reg3 selector order: REG_NAMES vs Rust decode arm, reg_from_selector, README
    reg_names = py.value(isa.OPCODES_PY, "REG_NAMES")
    tabs = mdfacts.tables()
    enc = mdfacts.table_under(tabs, "Register Encoding Table")
    ci, cr = enc.col("Opcode Value"), enc.col("Register")
    doc_sel = {int(r[ci]): r[cr] for r in enc.rows}
    rs_sel = _rs_reg3_selector(rs)
    for sel in range(8):
        n += 1
        trio = (reg_names[sel], doc_sel.get(sel), rs_sel.get(sel))
        if len(set(trio)) != 1:
            ctx.violation("C17/register-model", f"reg3-selector[{sel}]", f"3-bit register selector {sel}: Python {trio[0]}, README {trio[1]}, Rust {trio[2]}", isa.OPCODES_PY)
    # README CPU Registers sizes
    cpu = mdfacts.table_under(tabs, "CPU Registers")
    cn, cs = cpu.col("Register"), cpu.col("Size")
    for r in cpu.rows:
        nm = r[cn].replace("↳", "").strip()
        nm = {"C": "FC", "Z": "FZ"}.get(nm, nm)
        bits = int(r[cs])
        n += 1
        if nm not in sizes:
            ctx.violation("C17/register-model", f"{mdfacts.README}::CPU Registers[{nm}]", f"README register {nm} unknown to the emulator", mdfacts.README)
            continue
        if bits not in (8 * sizes[nm], py_mask(nm).bit_length()):
            ctx.violation("C17/register-model", f"{mdfacts.README}::CPU Registers[{nm}]", f"README says {bits} bits; emulator stores {8 * sizes[nm]} bits, effective {py_mask(nm).bit_length()}", mdfacts.README)
        rw = rs_width.get(nm)
        if rw is not None and rw != bits:
            ctx.violation("C17/register-model", f"{rel_lib}::register_width::{nm}~README", f"register_width({nm})={rw} but README says {bits} bits", rel_lib)
    ctx.instance("C17/register-model", "register name -> (width, mask, base, shift) across emulator.py, arch.py, opcodes.py, state.rs, lib.rs, README", n, 50)
    ctx.sample({"register": "X", "python_mask": hex(py_mask("X")), "rust_mask": hex(rs_mask.get("X", 0)), "rust_width_bits": rs_width.get("X"), "arch_bytes": regs["X"].args[1]})


def _rs_reg3_selector(rs: RustProgram) -> dict[int, str]:
    """selector -> register from the `match selector & 0x7` in decode_operands' Reg3 arm."""
    fn = rs.fn(isa.EVAL_RS, "LlamaExecutor::decode_operands")
    best: dict[int, str] = {}
    for n in walk(fn.body):
        if n.get("k") == "match" and "0x7" in (n.get("e_src") or "").replace(" ", "") or (n.get("k") == "match" and "&7" in expr_text(n["e"])):
            d = {}
            for arm in n["arms"]:
                if arm["pat"].get("k") == "p_lit" and arm["body"].get("k") == "path":
                    d[int(arm["pat"]["e"]["v"])] = arm["body"]["p"].split("::")[-1]
            if len(d) == 8:
                best = d
    if not best:
        raise AnalysisError("Reg3 selector match not found in decode_operands")
    return best


# ---------------------------------------------------------------------------
def check_imem_offsets(ctx: Ctx, py: PyProgram, rs: RustProgram) -> None:
    ev = PyEval(py, py.module(isa.OPCODES_PY))
    members = ev.enum_members(ev.name("IMEMRegisters"))
    pyoff = {k: int(v.value) for k, v in members.items()}
    rel = rs.file_for(isa.MEMORY_RS)
    n = 0
    for (r, q), c in rs.consts.items():
        m = re.fullmatch(r"IMEM_([A-Z0-9]+)_OFFSET", q)
        if r == rel and m:
            n += 1
            v = rs.evaluator(isa.MEMORY_RS).eval(c["e"])
            nm = m.group(1)
            if pyoff.get(nm) != v:
                ctx.violation("C17/imem-offsets", f"{rel}::{q}", f"{q}={v:#x} but IMEMRegisters.{nm}={pyoff.get(nm)}", rel)
    isr = rs.eval_const("core/src/timer.rs", "ISR_OFFSET")
    n += 1
    if isr != pyoff["ISR"]:
        ctx.violation("C17/imem-offsets", f"{rs.file_for('core/src/timer.rs')}::ISR_OFFSET", f"ISR_OFFSET={isr:#x} vs IMEMRegisters.ISR={pyoff['ISR']:#x}", "timer.rs")
    # README internal memory map + logic registers
    tabs = mdfacts.tables()
    for head in ("Internal Memory Map", "Logic Registers"):
        t = mdfacts.table_under(tabs, head)
        cn, ca = t.col("Name"), t.col("Address")
        for r in t.rows:
            nm = r[cn]
            m = re.match(r"0x([0-9A-Fa-f]+)", r[ca])
            ctx.need(m, f"README {head} address cell {r[ca]!r} unreadable")
            n += 1
            if pyoff.get(nm) != int(m.group(1), 16):
                ctx.violation("C17/imem-offsets", f"{mdfacts.README}::{head}[{nm}]", f"README puts {nm} at 0x{m.group(1)}, IMEMRegisters.{nm}={pyoff.get(nm)}", mdfacts.README)
    # pce500/memory.py local copy of INTERNAL_MEMORY_START etc. handled in vectors
    ctx.instance("C17/imem-offsets", "IMEMRegisters vs memory.rs IMEM_*_OFFSET, timer.rs ISR_OFFSET, README memory map", n, 40)
    ctx.sample({"IMR": hex(pyoff["IMR"]), "ISR": hex(pyoff["ISR"]), "rust_ISR_OFFSET": hex(isr)})


def check_irq_bits(ctx: Ctx, py: PyProgram, rs: RustProgram) -> None:
    ev = PyEval(py, py.module(isa.CONST_PY))
    imr = {k: int(v.value) for k, v in ev.enum_members(ev.name("IMRFlag")).items()}
    isr = {k: int(v.value) for k, v in ev.enum_members(ev.name("ISRFlag")).items()}
    pairs = [("IMR_MASTER", imr["IRM"]), ("IMR_MTI", imr["MTM"]), ("IMR_STI", imr["STM"]), ("IMR_KEY", imr["KEYM"]),
             ("IMR_ONK", imr["ONKM"]), ("ISR_MTI", isr["MTI"]), ("ISR_STI", isr["STI"]), ("ISR_KEYI", isr["KEYI"]), ("ISR_ONKI", isr["ONKI"])]
    rel = rs.file_for(isa.LIB_RS)
    n = 0
    for nm, want in pairs:
        n += 1
        got = rs.eval_const(isa.LIB_RS, nm)
        if got != want:
            ctx.violation("C17/irq-bits", f"{rel}::{nm}", f"{nm}={got:#x} but constants.py says {want:#x}", rel)
    # README bit layouts
    tabs = mdfacts.tables()
    t = mdfacts.table_under(tabs, "Internal Memory Map")
    cn, cd = t.col("Name"), t.col("Description")
    for reg, table in (("IMR", imr), ("ISR", isr)):
        row = [r for r in t.rows if r[cn] == reg]
        ctx.need(row, f"README has no {reg} row")
        m = re.search(r"Bit layout \(7→0\):\s*([A-Za-z0-9\- ]+?)<br>", row[0][cd])
        ctx.need(m, f"README {reg} bit layout line unreadable")
        names = m.group(1).split()
        ctx.need(len(names) == 8, f"README {reg} bit layout has {len(names)} names")
        for i, nm in enumerate(names):
            bit = 7 - i
            if nm == "-":
                continue
            n += 1
            if table.get(nm) != (1 << bit):
                ctx.violation("C17/irq-bits", f"{mdfacts.README}::{reg}.{nm}", f"README puts {nm} at bit {bit}; constants.py {reg}Flag.{nm}={table.get(nm)}", mdfacts.README)
    # pce500 IRQSource enum value = ISR bit index
    ev2 = PyEval(py, py.module("pce500/emulator.py"))
    src = ev2.enum_members(ev2.name("IRQSource"))
    for nm, mem in src.items():
        n += 1
        want = {"MTI": isr["MTI"], "STI": isr["STI"], "KEY": isr["KEYI"], "ONK": isr["ONKI"]}.get(nm)
        if want is None or (1 << int(mem.value)) != want:
            ctx.violation("C17/irq-bits", f"pce500/emulator.py::IRQSource.{nm}", f"IRQSource.{nm}={mem.value} (bit index) vs ISR mask {want}", "pce500/emulator.py")
    # rust src_mask_for_name
    m, _d = _rs_str_match(rs, isa.LIB_RS, "src_mask_for_name")
    for nm, v in m.items():
        n += 1
        want = {"MTI": isr["MTI"], "STI": isr["STI"], "KEY": isr["KEYI"], "ONK": isr["ONKI"]}.get(nm)
        if v != want:
            ctx.violation("C17/irq-bits", f"{rel}::src_mask_for_name::{nm}", f"src_mask_for_name({nm})={v} vs ISR mask {want}", rel)
    ctx.instance("C17/irq-bits", "IMR/ISR bit constants: constants.py, lib.rs, README bit layouts, IRQSource, src_mask_for_name", n, 30)


def _py_literal_addr_reads(fn: ast.AST, py: PyProgram, mod) -> list[tuple[int, int, str]]:
    """(value, line, call-text) of memory.read_byte/read_long(<constant>) calls."""
    out = []
    ev = PyEval(py, mod)
    for c in ast.walk(fn):
        if isinstance(c, ast.Call) and isinstance(c.func, ast.Attribute) and c.func.attr in ("read_byte", "read_long", "read_word") and c.args:
            try:
                v = ev.eval(c.args[0])
            except Exception:
                continue
            if isinstance(v, int):
                out.append((v, c.lineno, unparse(c)))
    return out


def check_vectors_and_spaces(ctx: Ctx, py: PyProgram, rs: RustProgram) -> None:
    iv = py.value(isa.OPCODES_PY, "INTERRUPT_VECTOR_ADDR")
    ep = py.value(isa.OPCODES_PY, "ENTRY_POINT_ADDR")
    ims = py.value(isa.CONST_PY, "INTERNAL_MEMORY_START")
    iml = py.value(isa.CONST_PY, "INTERNAL_MEMORY_LENGTH")
    ass = py.value(isa.CONST_PY, "ADDRESS_SPACE_SIZE")
    pcm = py.value(isa.CONST_PY, "PC_MASK")
    n = 0

    def cmp(rule_key: str, where: str, got: Any, want: Any, what: str) -> None:
        nonlocal n
        n += 1
        if got != want:
            ctx.violation("C17/vectors-spaces", rule_key, f"{what}: {got:#x} vs {want:#x}" if isinstance(got, int) and isinstance(want, int) else f"{what}: {got!r} vs {want!r}", where)

    e_rel, l_rel, m_rel, p_rel = (rs.file_for(x) for x in (isa.EVAL_RS, isa.LIB_RS, isa.MEMORY_RS, "core/src/pce500.rs"))
    cmp(f"{e_rel}::INTERRUPT_VECTOR_ADDR", e_rel, rs.eval_const(isa.EVAL_RS, "INTERRUPT_VECTOR_ADDR"), iv, "eval.rs interrupt vector vs opcodes.py")
    cmp(f"{l_rel}::INTERRUPT_VECTOR_ADDR", l_rel, rs.eval_const(isa.LIB_RS, "INTERRUPT_VECTOR_ADDR"), iv, "lib.rs interrupt vector vs opcodes.py")
    cmp(f"{e_rel}::ROM_RESET_VECTOR_ADDR", e_rel, rs.eval_const(isa.EVAL_RS, "ROM_RESET_VECTOR_ADDR"), ep, "eval.rs reset vector vs ENTRY_POINT_ADDR")
    cmp(f"{p_rel}::ROM_RESET_VECTOR_ADDR", p_rel, rs.eval_const("core/src/pce500.rs", "ROM_RESET_VECTOR_ADDR"), ep, "pce500.rs reset vector vs ENTRY_POINT_ADDR")
    cmp(f"{m_rel}::INTERNAL_MEMORY_START", m_rel, rs.eval_const(isa.MEMORY_RS, "INTERNAL_MEMORY_START"), ims, "memory.rs INTERNAL_MEMORY_START vs constants.py")
    cmp(f"{m_rel}::INTERNAL_SPACE", m_rel, rs.eval_const(isa.MEMORY_RS, "INTERNAL_SPACE"), iml, "memory.rs INTERNAL_SPACE vs INTERNAL_MEMORY_LENGTH")
    cmp(f"{m_rel}::EXTERNAL_SPACE", m_rel, rs.eval_const(isa.MEMORY_RS, "EXTERNAL_SPACE"), ims, "memory.rs EXTERNAL_SPACE vs INTERNAL_MEMORY_START (external space ends where internal begins)")
    cmp(f"{m_rel}::INTERNAL_ADDR_MASK", m_rel, rs.eval_const(isa.MEMORY_RS, "INTERNAL_ADDR_MASK"), iml - 1, "memory.rs INTERNAL_ADDR_MASK vs INTERNAL_MEMORY_LENGTH-1")
    cmp(f"{p_rel}::SYSTEM_IMAGE_LEN", p_rel, rs.eval_const("core/src/pce500.rs", "SYSTEM_IMAGE_LEN"), ims, "pce500.rs SYSTEM_IMAGE_LEN vs external space size")
    cmp(f"{isa.CONST_PY}::ADDRESS_SPACE_SIZE", isa.CONST_PY, ass, ims + iml, "ADDRESS_SPACE_SIZE = INTERNAL_MEMORY_START + INTERNAL_MEMORY_LENGTH")
    cmp(f"{isa.CONST_PY}::PC_MASK", isa.CONST_PY, pcm, ims - 1, "PC_MASK covers exactly the external space")
    cmp("pce500/emulator.py::INTERNAL_MEMORY_START", "pce500/emulator.py", py.value("pce500/emulator.py", "INTERNAL_MEMORY_START"), ims, "pce500/emulator.py local INTERNAL_MEMORY_START")
    cmp("pce500/memory.py::INTERNAL_MEMORY_START", "pce500/memory.py", py.value("pce500/memory.py", "INTERNAL_MEMORY_START"), ims, "pce500/memory.py local INTERNAL_MEMORY_START")
    # the PC mask used by state.rs
    cmp(f"{rs.file_for(isa.STATE_RS)}::mask_for::PC", isa.STATE_RS, _rs_mask_for(rs).get("PC"), pcm, "Rust PC mask vs PC_MASK")

    # literal vector reads
    intr = py.module("sc62015/pysc62015/intrinsics.py")
    fn = py.func("sc62015/pysc62015/intrinsics.py", "eval_intrinsic_reset")
    reads = [(v, ln, txt) for v, ln, txt in _py_literal_addr_reads(fn, py, intr) if v < ims]
    ctx.need(len(reads) >= 3, "eval_intrinsic_reset: reset-vector reads not found")
    base = min(v for v, _l, _t in reads)
    n += 1
    if sorted(v for v, _l, _t in reads) != [ep, ep + 1, ep + 2]:
        ctx.violation("C17/vectors-spaces", "sc62015/pysc62015/intrinsics.py::eval_intrinsic_reset::reset-vector-read",
                      f"Python RESET loads PC from 0x{base:05X}..0x{base + 2:05X}; ENTRY_POINT_ADDR / Rust ROM_RESET_VECTOR_ADDR / pce500 reset use 0x{ep:05X}",
                      f"sc62015/pysc62015/intrinsics.py:{reads[0][1]}", reads=[t for _v, _l, t in reads])
    # Rust power_on_reset uses the named constant
    fnr = rs.fn(isa.EVAL_RS, "power_on_reset")
    uses = {nd["p"] for nd in walk(fnr.body) if nd.get("k") == "path" and "VECTOR" in nd["p"]}
    n += 1
    if uses != {"ROM_RESET_VECTOR_ADDR"}:
        ctx.violation("C17/vectors-spaces", f"{e_rel}::power_on_reset::vector", f"power_on_reset reads its vector through {sorted(uses)}", e_rel)
    # pce500/emulator.py literal vector reads: every literal must be one of the two vectors and match its role
    mod = py.module("pce500/emulator.py")
    from ..pyfacts import PyEval as _PyEval, NotConst as _NotConst
    for q, f in mod.functions():
        for c in ast.walk(f):
            if not (isinstance(c, ast.Call) and isinstance(c.func, ast.Attribute) and c.func.attr == "read_long" and c.args):
                continue
            try:
                v = _PyEval(py, mod).eval(c.args[0])
            except _NotConst:
                continue
            if not isinstance(v, int) or isinstance(v, bool) or v < 0xFFF00:
                continue
            n += 1
            txt = unparse(c)
            ln = c.lineno
            # role from the statement the read sits in: what is the loaded value called / used for
            stmt_txt = ""
            for st in ast.walk(f):
                if isinstance(st, ast.stmt) and any(x is c for x in ast.walk(st)) and not isinstance(st, (ast.FunctionDef, ast.If, ast.For, ast.While, ast.Try, ast.With)):
                    stmt_txt = unparse(st)
            low = (q + " " + stmt_txt).lower()
            role = "reset" if any(k in low for k in ("reset", "load_rom", "entry", "bootstrap", "__init__")) else ("interrupt" if any(k in low for k in ("vector_addr", "irq", "interrupt")) else None)
            if v not in (iv, ep):
                ctx.violation("C17/vectors-spaces", f"pce500/emulator.py::{q}::vector read {v:#x}", f"{q}: `{txt}` reads {v:#x}, which is neither INTERRUPT_VECTOR_ADDR nor ENTRY_POINT_ADDR", f"pce500/emulator.py:{ln}")
            elif role == "reset" and v != ep:
                ctx.violation("C17/vectors-spaces", f"pce500/emulator.py::{q}::reset path reads the interrupt vector", f"{q}: `{stmt_txt[:80]}` loads the start address from {v:#x}; the reset vector (ENTRY_POINT_ADDR, Rust ROM_RESET_VECTOR_ADDR) is {ep:#x}", f"pce500/emulator.py:{ln}")
            elif role == "interrupt" and v != iv:
                ctx.violation("C17/vectors-spaces", f"pce500/emulator.py::{q}::interrupt path reads the reset vector", f"{q}: `{stmt_txt[:80]}` loads the handler address from {v:#x}; INTERRUPT_VECTOR_ADDR is {iv:#x}", f"pce500/emulator.py:{ln}")
    # IR.lift uses INTERRUPT_VECTOR_ADDR by name
    irl = py.func(isa.INSTR_PY, "IR.lift")
    names = {nd.id for nd in ast.walk(irl) if isinstance(nd, ast.Name)}
    n += 1
    if "INTERRUPT_VECTOR_ADDR" not in names:
        ctx.violation("C17/vectors-spaces", f"{isa.INSTR_PY}::IR.lift::vector", "IR.lift does not jump through INTERRUPT_VECTOR_ADDR", isa.INSTR_PY)
    ctx.instance("C17/vectors-spaces", "vector addresses and address-space constants across opcodes.py, constants.py, intrinsics.py, pce500/*.py, eval.rs, lib.rs, memory.rs, pce500.rs", n, 20)
    ctx.sample({"INTERRUPT_VECTOR_ADDR": hex(iv), "ENTRY_POINT_ADDR": hex(ep), "python_reset_reads": [hex(v) for v, _l, _t in reads]})


def check_views(ctx: Ctx, py: PyProgram) -> None:
    view = py.module(isa.VIEW_PY)
    ims = py.value(isa.CONST_PY, "INTERNAL_MEMORY_START")
    iml = py.value(isa.CONST_PY, "INTERNAL_MEMORY_LENGTH")
    ass = py.value(isa.CONST_PY, "ADDRESS_SPACE_SIZE")
    n = 0
    for cls in ("SC62015RomView", "SC62015FullView"):
        segs = PyEval(py, view).eval(ast.Attribute(value=ast.Name(id=cls), attr="SEGMENTS", lineno=0))
        ctx.need(isinstance(segs, list) and segs, f"{cls}.SEGMENTS not a list display")
        spans = []
        for s in segs:
            ctx.need(isinstance(s, Term) and s.ctor == "SegmentDef", f"{cls}.SEGMENTS element is not a SegmentDef term")
            name, start, length = s.kwargs["name"], s.kwargs["start"], s.kwargs["length"]
            spans.append((start, start + length, name))
            n += 1
            if start < 0 or length <= 0 or start + length > ass:
                ctx.violation("C17/view-segments", f"{isa.VIEW_PY}::{cls}.SEGMENTS[{name}]", f"segment {name} [{start:#x},{start + length:#x}) leaves the address space {ass:#x}", isa.VIEW_PY)
            if "internal" in name.lower():
                if (start, length) != (ims, iml):
                    ctx.violation("C17/view-segments", f"{isa.VIEW_PY}::{cls}.SEGMENTS[{name}]", f"internal RAM segment at {start:#x}+{length:#x}; lifter uses {ims:#x}+{iml:#x}", isa.VIEW_PY)
            fo = s.kwargs.get("file_offset")
            if fo is not None and cls == "SC62015FullView" and fo != start:
                ctx.violation("C17/view-segments", f"{isa.VIEW_PY}::{cls}.SEGMENTS[{name}].file_offset", f"full-image view maps {name} at {start:#x} from file offset {fo:#x}", isa.VIEW_PY)
        if not any("internal" in nm.lower() for _a, _b, nm in spans):
            ctx.violation("C17/view-segments", f"{isa.VIEW_PY}::{cls}.SEGMENTS[Internal RAM]", f"{cls} has no internal RAM segment", isa.VIEW_PY)
        spans.sort()
        for (a0, a1, an), (b0, b1, bn) in zip(spans, spans[1:]):
            if b0 < a1:
                ctx.violation("C17/view-segments", f"{isa.VIEW_PY}::{cls}.SEGMENTS[{an}&{bn}]", f"segments {an} and {bn} overlap", isa.VIEW_PY)
        ctx.sample({"view": cls, "segments": [(nm, hex(a), hex(b)) for a, b, nm in spans]})
    ctx.instance("C17/view-segments", "Binary Ninja view segments: disjoint, inside the address space, internal RAM at INTERNAL_MEMORY_START", n, 9)

CLAIM = ("Decides, completely for the finite domain, that every duplicated architecture table/constant agrees across the Python decoder, "
         "Binary Ninja arch/view definitions, Python emulator, Rust core and README (table agreement over evaluated initialisers). "
         "This property is a statement about source-level tables, so static table agreement is the matching level.")
NOTE = ("Trusted: syn/CPython parsers; the generator script's operand mapping as the intended Python->Rust correspondence. "
        "Constants built by arbitrary run-time code (none today) would be reported as ANALYSIS-ERROR, not passed.")
TECHNIQUE = "static table agreement: constant-folded syntax trees of both languages + README tables, row-by-row comparison with site floors"


def check_trace_register_copy(ctx: Ctx, py: PyProgram) -> None:
    """The machine emulator's trace-register collector is one more copy of the sub-register layout (A/B in BA, IL/IH in I, FC/FZ in F).
    It is run by the evaluator with a symbolic register snapshot (bit provenance) and every sub-register it reports must be the
    architectural slice of its parent - the same law C08 decides for the register files."""
    from ..bits import BitVec
    from ..pyfacts import NotConst, _Return
    EMU = "pce500/emulator.py"
    fn = py.func(EMU, "PCE500Emulator._collect_trace_registers_from_snapshot")
    mod = py.module(EMU)
    nested = [st for st in fn.body if isinstance(st, ast.FunctionDef) and len(st.args.args) == 2 and any(isinstance(c, ast.Call) and isinstance(c.func, ast.Name) and c.func.id == "getattr" for c in ast.walk(st))]
    ctx.need(len(nested) == 1, "_collect_trace_registers_from_snapshot: the masked-attribute helper was not identified")
    helper = nested[0]
    widths = {"pc": 24, "ba": 16, "i": 16, "x": 24, "y": 24, "u": 24, "s": 24, "f": 8}

    def masked(attr: str, mask: int) -> BitVec:
        return BitVec.sym(str(attr), widths.get(str(attr), 24)) & int(mask)
    ev = PyEval(py, mod, budget=[200000])
    ev.env = {helper.name: masked, "snapshot": None}
    regs = None
    body = [st for st in fn.body if st is not helper and not isinstance(st, ast.Try)]
    try:
        try:
            ev.exec_block(body)
        except _Return as r:
            regs = r.v
    except NotConst as e:
        raise AnalysisError(f"_collect_trace_registers_from_snapshot left the evaluable fragment: {e}")
    ctx.need(isinstance(regs, dict) and len(regs) >= 10, "_collect_trace_registers_from_snapshot did not return a register dict")
    law = {"A": ("ba", 0, 8), "B": ("ba", 8, 8), "IL": ("i", 0, 8), "IH": ("i", 8, 8), "FC": ("f", 0, 1), "FZ": ("f", 1, 1),
           "BA": ("ba", 0, 16), "I": ("i", 0, 16), "F": ("f", 0, 8), "X": ("x", 0, 24), "Y": ("y", 0, 24), "U": ("u", 0, 24), "S": ("s", 0, 24)}
    n = 0
    for name, (src, lo, width) in law.items():
        if name not in regs:
            continue
        n += 1
        v = BitVec.lift(regs[name])
        want = [(src, lo + i, False) for i in range(width)]
        got = list(v.bits[:width])
        rest = list(v.bits[width:32])
        if got != want or any(b != 0 for b in rest):
            ctx.violation("C17/register-model", key_of(EMU, "PCE500Emulator._collect_trace_registers_from_snapshot", f"trace register {name}"),
                          f"the trace collector reports {name} as bits {[b if not isinstance(b, tuple) else f'{b[0]}.{b[1]}' for b in got[:4]]}... of the snapshot; architecturally {name} is {src.upper()}[{lo}..{lo + width - 1}] (arch.py, Registers._SUBREG_INFO and the Rust register file agree on that)", f"{EMU}:{fn.lineno}")
    ctx.instance("C17/trace-register-copy", "sub-registers reported by the trace collector are the architectural slices of the snapshot registers", n, 10)
