"""C18 - the virtual-time task scheduler wakes tasks exactly on time and in order.

Decides (structure; not wake times under budget partitions):
  1 WHO-MAY   determinism: the scheduler state lives in ordered containers used FIFO; no hash iteration, wall clock,
              randomness or threads in the four async modules
  2 SEQ-PAIR  NEXT_WAKE_CYCLE is reset before every poll, the pending event is taken after every poll, CURRENT_CYCLE is
              published after every clock change and before the polls of that cycle
  3 MONOTONE  every value stored as a wake cycle or assigned to the clock is built from the current cycle/clock with
              non-decreasing operators only; the clock is assigned only from queue keys
  4 SHAPE     the CPU task is `sleep one cycle; one synchronous step` per instruction
              (a counting while-loop is the same thing only if its counter advances by exactly one per iteration)
"""
from __future__ import annotations

import re
from typing import Any

from .. import cfg as cfgmod
from .. import isa
from ..core import REPO, AnalysisError, Ctx
from ..rsfacts import RustProgram, expr_text, pat_text, walk
from ..rules import key_of, rs_canon, rs_defs, rs_is_call, rs_is_mcall, rs_leaves

LEVEL = "other"
EXPLANATION = (
    "WHO-MAY / SEQ-PAIR / MONOTONE rules over async_driver.rs, async_runtime.rs, async_cpu.rs, async_devices.rs (non-test code): container "
    "types and the methods applied to them, banned nondeterminism sources, must-pass-through checks on the CFG of AsyncDriver::run_for "
    "(reset-before-poll, take-after-poll, publish-cycle-before-poll), provenance of every wake-cycle/clock value, and the shape of the CPU task. "
    "Exact wake times under arbitrary budget partitions, same-cycle order across budgets and CPU equivalence with the synchronous loop are declined."
)
TRUSTED = ["syn parser", "sa/cfg.py CFG with closure-opaque statements", "std semantics: BTreeMap iterates keys ascending, Vec/VecDeque preserve insertion order"]
CLAIM = ("Decides that the scheduler has no source of nondeterminism, that the task/driver channel is reset and drained around every poll on every path, "
         "that wake cycles and the clock can only move forward, and that the CPU task interleaves exactly one sleep with one step.")
NOTE = "Schedule-quantified clauses (exact wake times, budget-independence, async==sync machine state) are not decided by this technique."
TECHNIQUE = "container/method who-may-call lint + must-pass-through on the run_for CFG + monotone provenance of wake-cycle values"

FILES = ["core/src/async_driver.rs", "core/src/async_runtime.rs", "core/src/async_cpu.rs", "core/src/async_devices.rs"]
DRV = FILES[0]
BANNED = ["HashMap", "HashSet", "Instant", "SystemTime", "thread::", "rand", "Mutex", "RwLock", "AtomicU", "mpsc", "spawn_blocking", "tokio"]


def run(ctx: Ctx) -> None:
    rs = RustProgram()
    for s in FILES:
        ctx.file_used(REPO / rs.file_for(s))
    determinism(ctx, rs)
    seq_pairs(ctx, rs)
    monotone(ctx, rs)
    queued_events_first(ctx, rs)
    cpu_task(ctx, rs)
    runner_and_sleep(ctx, rs)


def _non_test_items(items: list, out: list) -> None:
    for it in items:
        if it.get("cfg_test"):
            continue
        out.append(it)
        if it.get("k") in ("impl", "mod") and it.get("items"):
            _non_test_items(it["items"], out)


def determinism(ctx: Ctx, rs: RustProgram) -> None:
    n = 0
    for suffix in FILES:
        rel = rs.file_for(suffix)
        items: list = []
        _non_test_items(rs.files[rel]["items"], items)
        for it in items:
            texts = []
            if it["k"] == "use":
                texts.append(it["tree"])
            elif it["k"] == "struct":
                texts += [f["ty"] for f in it["fields"]]
            elif it["k"] == "type":
                texts.append(it["ty"])
            elif it["k"] == "fn":
                for nd in walk(it):
                    if nd.get("k") == "path":
                        texts.append(nd["p"])
                    if nd.get("k") in ("let",) and nd.get("pat", {}).get("ty"):
                        texts.append(nd["pat"]["ty"])
            for t in texts:
                n += 1
                for b in BANNED:
                    if b in t:
                        ctx.violation("C18.1/determinism", key_of(rel, it.get("name", it["k"]), f"uses {b}"), f"{rel}: `{t}` brings a nondeterminism source ({b}) into the scheduler modules", f"{rel}:{it['ln']}")
    # scheduler state containers and the operations applied to them
    st = rs.struct(DRV, "AsyncDriver")
    types = {f["name"]: f["ty"].replace(" ", "") for f in st["fields"]}
    alias = {it["name"]: it["ty"].replace(" ", "") for it in rs.files[rs.file_for(DRV)]["items"] if it.get("k") == "type"}
    fq = alias.get(types.get("futures_queue", ""), types.get("futures_queue", ""))
    n += 2
    if not fq.startswith("BTreeMap<u64,Vec<"):
        ctx.violation("C18.1/containers", key_of(rs.file_for(DRV), "AsyncDriver", "futures_queue"), f"futures_queue is `{fq}`; wake order needs an ordered map of insertion-ordered vectors", rs.file_for(DRV))
    if not types.get("events_queue", "").startswith("VecDeque<"):
        ctx.violation("C18.1/containers", key_of(rs.file_for(DRV), "AsyncDriver", "events_queue"), f"events_queue is `{types.get('events_queue')}`; emission order needs a FIFO", rs.file_for(DRV))
    allowed = {"self.futures_queue": {"entry", "remove", "keys", "is_empty", "first_key_value", "pop_first", "len"},
               "self.events_queue": {"push_back", "pop_front", "is_empty", "len"}}
    for fn in rs.fns_in(DRV):
        if fn.body is None:
            continue
        for c in walk(fn.body):
            if c.get("k") == "mcall":
                r = expr_text(c["recv"])
                if r in allowed:
                    n += 1
                    if c["m"] not in allowed[r]:
                        ctx.violation("C18.1/containers", key_of(fn.file, fn.qual, f"{r}.{c['m']}"), f"`{r}.{c['m']}()` is not a FIFO/ordered-map operation (allowed: {sorted(allowed[r])})", f"{fn.file}:{c['ln']}")
    # same-cycle tasks are polled in insertion order: `for mut future in futures` iterates the removed Vec directly, pushes use `push`
    rf = rs.fn(DRV, "AsyncDriver::run_for")
    d = rs_defs(rf.body)
    loops = [l for l in walk(rf.body) if l.get("k") == "for" and any(rs_is_mcall(c, "poll") for c in walk(l["body"]))]
    ctx.need(len(loops) == 1, "run_for: the per-cycle poll loop was not found")
    it_txt = expr_text(loops[0]["iter"])
    n += 1
    src_c = rs_canon(loops[0]["iter"], d)
    if not (loops[0]["iter"].get("k") == "path" and "self.futures_queue.remove(" in src_c):
        ctx.violation("C18.1/fifo-order", key_of(rf.file, rf.qual, "for future in futures"), f"tasks of one cycle are iterated as `{it_txt}` (not the removed vector in insertion order)", rf.where)
    for c in walk(rf.body):
        if c.get("k") == "mcall" and c["m"] in ("insert", "push_front", "swap_remove", "sort", "reverse", "rev", "pop") and ("futures_queue" in rs_canon(c, d) or "poll(" in rs_canon(c, d)):
            n += 1
            ctx.violation("C18.1/fifo-order", key_of(rf.file, rf.qual, expr_text(c)[:60]), f"`{c['m']}` reorders same-cycle tasks", f"{rf.file}:{c['ln']}")
    # the earliest key is taken: keys().next()
    # the cycle the clock is advanced to (and whose tasks are removed) is the smallest key
    EARLIEST = ("(*self.futures_queue.keys().next().unwrap())", "*self.futures_queue.keys().next().unwrap()", "(*self.futures_queue.first_key_value().unwrap().0)")
    cw0 = [a["r"] for a in walk(rf.body) if a.get("k") == "assign" and expr_text(a["l"]) == "self.clock"]
    if not cw0:
        # the clock may be advanced through a setter: a method of the driver that stores its parameter into self.clock
        setters = {f_.name for f_ in rs.fns_in(DRV) if f_.body is not None and any(x.get("k") == "assign" and expr_text(x["l"]) == "self.clock" and expr_text(x["r"]) in f_.params() for x in walk(f_.body))}
        cw0 = [c["args"][0] for c in walk(rf.body) if c.get("k") == "mcall" and c["m"] in setters and expr_text(c["recv"]) == "self" and c["args"]]
    ctx.need(bool(cw0), "run_for: no clock update found")
    nk_c = rs_canon(cw0[0], d)
    nk = cw0[0]
    n += 1
    if nk_c not in EARLIEST:
        ctx.violation("C18.1/earliest-first", key_of(rf.file, rf.qual, "next_cycle"), f"the cycle run next is `{nk_c}`, not the smallest queued wake cycle", rf.where)
    rm = [c for c in walk(rf.body) if rs_is_mcall(c, "remove", "self.futures_queue")]
    if rm and rs_canon(rm[0]["args"][0], d).lstrip("&") not in EARLIEST:
        ctx.violation("C18.1/earliest-first", key_of(rf.file, rf.qual, "removed bucket"), f"the bucket removed for polling is `{rs_canon(rm[0]['args'][0], d)}`, not the smallest queued wake cycle", rf.where)
    ctx.instance("C18.1/determinism", "banned nondeterminism sources, container types, container operations, same-cycle FIFO, earliest-key-first", n, 60)
    ctx.sample({"futures_queue": fq, "events_queue": types.get("events_queue"), "poll_loop_iterates": it_txt, "next_cycle": nk_c})


def _tl_sets(body: Any, name: str) -> list[dict]:
    """Statements `NAME.with(|cell| cell.set(X))` -> list of the mcall nodes."""
    out = []
    for c in walk(body):
        if rs_is_mcall(c, "with", name) and c["args"] and c["args"][0].get("k") == "closure":
            if any(rs_is_mcall(x, "set") for x in walk(c["args"][0]["body"])):
                out.append(c)
    return out


def _set_value(c: dict) -> str:
    for x in walk(c["args"][0]["body"]):
        if rs_is_mcall(x, "set"):
            return expr_text(x["args"][0])
    return ""


def seq_pairs(ctx: Ctx, rs: RustProgram) -> None:
    rf = rs.fn(DRV, "AsyncDriver::run_for")
    g = cfgmod.build_rs(rf.node, rf.qual)
    ctx.functions_analysed += 1
    ctx.cfg_nodes += len(g.nodes)
    polls = [g.node_of(c) for c in walk(rf.body) if rs_is_mcall(c, "poll")]
    ctx.need(len(polls) >= 1 and all(p is not None for p in polls), "run_for: poll site not found")
    resets = [g.node_of(c) for c in _tl_sets(rf.body, "NEXT_WAKE_CYCLE") if _set_value(c) == "None"]
    takes = [g.node_of(c) for c in walk(rf.body) if rs_is_call(c, "take_pending_event")]
    pubs = [g.node_of(c) for c in _tl_sets(rf.body, "CURRENT_CYCLE") if _set_value(c) == "self.clock"]
    clock_writes = [g.node_of(a) for a in walk(rf.body) if a.get("k") == "assign" and expr_text(a["l"]) == "self.clock"]
    n = 0
    for p in polls:
        # reset before poll: from entry and from after any poll, p is unreachable when reset nodes are removed
        n += 1
        starts = [g.entry] + [s for q in polls for s in g.succ[q]]
        bad = any(p in g.reachable_from(s, avoid=resets) for s in starts if s not in resets)
        if not resets or bad:
            ctx.violation("C18.2/reset-before-poll", key_of(rf.file, rf.qual, "poll:reset"), "a task can be polled with a stale NEXT_WAKE_CYCLE (no reset on some path to the poll)", f"{rf.file}:{g.nodes[p].line}")
        # take after poll: exit and every poll unreachable from after p when take nodes are removed
        n += 1
        after = g.succ[p]
        reach = set()
        for s in after:
            reach |= g.reachable_from(s, avoid=takes)
        if not takes or g.exit in reach or any(q in reach for q in polls):
            ctx.violation("C18.2/take-after-poll", key_of(rf.file, rf.qual, "poll:take"), "an event emitted by a task can be left in PENDING_EVENT (a path from a poll to the next poll/return skips take_pending_event)", f"{rf.file}:{g.nodes[p].line}")
        # publish current cycle after every clock write, before poll
        n += 1
        bad = any(p in g.reachable_from(s, avoid=pubs) for w in clock_writes for s in g.succ[w])
        if not pubs or bad or p in g.reachable_from(g.entry, avoid=pubs):
            ctx.violation("C18.2/publish-cycle", key_of(rf.file, rf.qual, "poll:current-cycle"), "a task can observe a stale current_cycle() (clock changed without CURRENT_CYCLE being published before the poll)", f"{rf.file}:{g.nodes[p].line}")
    # the taken event is queued (push_back) and events are returned from the front
    n += 1
    pushed = [c for c in walk(rf.body) if rs_is_mcall(c, "push_back", "self.events_queue")]
    if not pushed:
        ctx.violation("C18.2/event-queued", key_of(rf.file, rf.qual, "events_queue.push_back"), "a taken event is not queued for delivery", rf.where)
    # the wake cycle of a pending task is read after its own poll and before the next reset: wake_cycle def uses NEXT_WAKE_CYCLE get
    d = rs_defs(rf.body)
    ent = [c for c in walk(rf.body) if rs_is_mcall(c, "entry", "self.futures_queue")]
    wk_c = rs_canon(ent[0]["args"][0], d) if len(ent) == 1 else None
    wk = ent[0]["args"][0] if len(ent) == 1 else None
    n += 1
    if not (wk_c and "NEXT_WAKE_CYCLE.with(|..|_c0.get())" in wk_c and "unwrap_or(self.clock.saturating_add(1))" in wk_c):
        ctx.violation("C18.2/wake-source", key_of(rf.file, rf.qual, "wake_cycle"), f"a pending task is re-queued at `{wk_c}` instead of its requested cycle (or clock+1)", rf.where)
    n += 1
    if len(ent) != 1:
        ctx.violation("C18.2/wake-source", key_of(rf.file, rf.qual, "futures_queue.entry"), "a pending task is not re-queued under its wake cycle", rf.where)
    ctx.instance("C18.2/seq-pairs", "reset-before-poll, take-after-poll, publish-cycle-before-poll, event queued, requeue at requested cycle", n, 6)
    ctx.sample({"polls": len(polls), "resets": len(resets), "takes": len(takes), "publishes": len(pubs), "clock_writes": len(clock_writes), "wake_cycle": wk_c})


_MONO = re.compile(r"^(self\.clock|current_cycle|clock|next_cycle|next|wake_cycle|start_cycle)(\.saturating_add\([^()]*\))?$")


def monotone(ctx: Ctx, rs: RustProgram) -> None:
    n = 0
    rel = rs.file_for(DRV)
    # every NEXT_WAKE_CYCLE.set(Some(X)): X = current_cycle.saturating_add(..)
    for fn in rs.fns_in(DRV):
        if fn.body is None:
            continue
        d = rs_defs(fn.body)
        for c in _tl_sets(fn.body, "NEXT_WAKE_CYCLE"):
            v = _set_value(c)
            if v == "None":
                continue
            n += 1
            setc = [x for x in walk(c["args"][0]["body"]) if rs_is_mcall(x, "set")][0]
            vc = rs_canon(setc["args"][0], d)
            # Some(<current cycle>.saturating_add(<the sleep's own cycle count>)) with the current cycle read by current_cycle()
            ok = bool(re.fullmatch(r"Some\(\(current_cycle\(\)\)\.saturating_add\((\(self\.get_mut\(\)\)|self)\.cycles\)\)", vc))
            if not ok:
                ctx.violation("C18.3/monotone", key_of(rel, fn.qual, f"NEXT_WAKE_CYCLE.set({v})"), f"wake cycle `{v}` is not `current cycle (+ non-negative sleep)`: a task could be woken in the past or at an unrelated time", f"{rel}:{c['ln']}")
        # every CURRENT_CYCLE.set(X): X is the function's running clock (self.clock or the local that the loop advances), never a copy
        # of the clock saved earlier in the same call - publishing a saved copy after time has advanced moves virtual time backwards
        for c in _tl_sets(fn.body, "CURRENT_CYCLE"):
            n += 1
            setc = [x for x in walk(c["args"][0]["body"]) if rs_is_mcall(x, "set")][0]
            a0 = setc["args"][0]
            if a0.get("k") == "path" and "::" not in a0["p"] and a0["p"] not in fn.params():
                ds_ = [v_ for v_ in d.get(a0["p"], []) if isinstance(v_, dict)]
                if len(d.get(a0["p"], [])) == 1 and ds_ and expr_text(ds_[0]).replace(" ", "") == "current_cycle()":
                    ctx.violation("C18.3/monotone", key_of(rel, fn.qual, "CURRENT_CYCLE set back to a saved copy"),
                                  f"{fn.qual} publishes `{a0['p']}` as the current cycle, a copy of the clock saved when the call began and never advanced: after the call has slept, virtual time jumps back "
                                  "and the next task is resumed at cycles that were already passed", f"{rel}:{c['ln']}")
        # clock assignments (a setter's store of its own parameter is judged at the setter's call sites)
        def _is_clock(l_: dict) -> bool:
            if l_.get("k") == "field" and l_.get("name") == "clock":
                return True
            if l_.get("k") == "path":
                ds_ = [v for v in d.get(l_["p"], []) if isinstance(v, dict)]
                return bool(ds_) and expr_text(ds_[0]).replace(" ", "") == "current_cycle()"
            return False
        clock_stores = [a for a in walk(fn.body) if a.get("k") == "assign" and _is_clock(a["l"])]
        clock_stores += [{"k": "assign", "l": {"k": "path", "p": "self.clock"}, "r": c["args"][0], "ln": c["ln"]} for c in walk(fn.body)
                         if c.get("k") == "mcall" and expr_text(c["recv"]) == "self" and c["args"] and c["m"] in _clock_setters(rs)]
        for a in clock_stores:
            if True:
                n += 1
                r = expr_text(a["r"])
                if fn.qual == "AsyncDriver::with_clock" or fn.qual == "AsyncDriver::new":
                    continue
                if r in fn.params() and fn.name in _clock_setters(rs):
                    continue
                ok = False
                rc_ = rs_canon(a["r"], d)
                if "self.futures_queue.keys().next()" in rc_ or "self.futures_queue.first_key_value()" in rc_:
                    ok = True
                elif fn.qual == "block_on":
                    ok = r.replace(" ", "") in ("ifnext<=clock{..}",) or a["r"].get("k") == "if"
                if not ok:
                    ctx.violation("C18.3/monotone", key_of(rel, fn.qual, f"{expr_text(a['l'])} = {r}"), f"clock assigned `{r}`: not a queued wake cycle, virtual time could move backwards", f"{rel}:{a['ln']}")
        # queue keys
        for c in walk(fn.body):
            if rs_is_mcall(c, "entry", "self.futures_queue"):
                n += 1
                k = rs_canon(c["args"][0], d)
                if not (k == "self.clock" or ("NEXT_WAKE_CYCLE.with(" in k and "unwrap_or(self.clock.saturating_add(1))" in k)):
                    ctx.violation("C18.3/monotone", key_of(rel, fn.qual, f"entry({k})"), f"task queued under `{k}`: not the clock or a requested wake cycle", f"{rel}:{c['ln']}")
    # run_for loop only pops keys < target and the loop guard keeps clock < target: next_cycle >= target breaks before the clock write
    rf = rs.fn(DRV, "AsyncDriver::run_for")
    g = cfgmod.build_rs(rf.node, rf.qual)
    cw = [a for a in walk(rf.body) if a.get("k") == "assign" and expr_text(a["l"]) == "self.clock"]
    for a in cw:
        n += 1
        dd = rs_defs(rf.body)
        gs = [(rs_canon(x, dd), pol) for x, pol, _o in g.guards_of(g.node_of(a)) if isinstance(x, dict)]
        want_c = rs_canon(a["r"], dd)
        # not(<the cycle the clock moves to> >= <start + budget>) established on the path to the write
        budget_ok = any((not pol) and t.startswith(want_c + ">=") and ".saturating_add(max_cycles)" in t for t, pol in gs) or any(pol and t.startswith(want_c + "<") and ".saturating_add(max_cycles)" in t for t, pol in gs)
        if not budget_ok:
            ctx.violation("C18.3/budget", key_of(rel, rf.qual, "self.clock = next_cycle:budget"), "the clock can be advanced to a wake cycle at or beyond the budget target", f"{rel}:{a['ln']}", guards=gs)
    ctx.instance("C18.3/monotone", "wake-cycle values, clock assignments, queue keys are forward-only; clock stays inside the budget", n, 5)


def runner_and_sleep(ctx: Ctx, rs: RustProgram) -> None:
    """(a) The runner keeps slicing until the CPU task reports completion: the only way out of its loop is the arm of the completion
    event - a slice budget makes the result depend on the slice size.  (b) Every sleep goes through the scheduler once, including a
    zero-cycle one: the future is created un-initialised, so its first poll registers a wake cycle and returns Pending."""
    n = 0
    fn = rs.fn("core/src/async_runtime.rs", "AsyncRuntimeRunner::run_instructions")
    loops = [l for l in walk(fn.body) if l.get("k") in ("loop", "while", "for") and any(rs_is_mcall(c, "run_for") for c in walk(l))]
    ctx.need(len(loops) == 1, "AsyncRuntimeRunner::run_instructions: slicing loop not found")
    lp = loops[0]
    if lp["k"] != "loop":
        ctx.violation("C18.4/runner-until-done", key_of(fn.file, fn.qual, "bounded slicing loop"), f"the slicing loop is a `{lp['k']}` with its own bound, not `loop` until the completion event", fn.where)
    arms_done = [a for m_ in walk(lp["body"]) if m_.get("k") == "match" for a in m_["arms"] if "DONE" in pat_text(a["pat"]).upper()]
    done_nodes = {id(x) for a in arms_done for x in walk(a["body"])}
    for b in walk(lp["body"]):
        if b.get("k") in ("break", "return"):
            n += 1
            if id(b) not in done_nodes:
                ctx.violation("C18.4/runner-until-done", key_of(fn.file, fn.qual, "loop exit that is not the completion event"),
                              f"the slicing loop can be left at line {b.get('ln')} without the CPU task having reported completion: the run then retires fewer instructions than step(n), depending on the slice size", f"{fn.file}:{b.get('ln')}")
    ctx.need(n >= 1, "run_instructions: no loop exit found")
    sc = rs.fn(DRV, "sleep_cycles")
    lits = [x for x in walk(sc.body) if x.get("k") == "struct_lit" and x["p"].split("::")[-1] == "CycleSleep"]
    ctx.need(len(lits) == 1, "sleep_cycles: CycleSleep literal not found")
    init = [f for f in lits[0]["fields"] if f["name"] == "initialized"]
    n += 1
    if not (len(init) == 1 and expr_text(init[0]["e"]).strip() == "false"):
        ctx.violation("C18.2/sleep-yields", key_of(sc.file, sc.qual, "initialized"), f"sleep_cycles creates the future with initialized = `{expr_text(init[0]['e']) if init else '?'}`: a sleep that starts initialised completes on its first poll without going through the scheduler, so the task runs ahead of others due at that cycle and a second event emitted in the same resumption is dropped", sc.where)
    ctx.instance("C18.4/runner-and-sleep", "runner loop exits only on completion; sleeps start un-initialised", n, 2)


def _clock_setters(rs: RustProgram) -> set[str]:
    return {f_.name for f_ in rs.fns_in(DRV) if f_.body is not None and f_.name not in ("new", "with_clock")
            and any(x.get("k") == "assign" and expr_text(x["l"]) == "self.clock" and expr_text(x["r"]) in f_.params() for x in walk(f_.body))}


def cpu_task(ctx: Ctx, rs: RustProgram) -> None:
    fn = rs.fn("core/src/async_cpu.rs", "AsyncCpuHandle::run_instructions")
    loops = [l for l in walk(fn.body) if l.get("k") in ("for", "while", "loop")]
    ctx.need(len(loops) == 1, f"AsyncCpuHandle::run_instructions: expected one instruction loop, found {len(loops)}")
    body = loops[0]["body"]
    seq = []
    for nd in walk(body):
        if nd.get("k") == "await" and "sleep_cycles" in expr_text(nd["e"]):
            seq.append((nd["ln"], "sleep", expr_text(nd["e"])))
        if rs_is_mcall(nd, "step"):
            seq.append((nd["ln"], "step", expr_text(nd["args"][0]) if nd["args"] else ""))
    seq.sort()
    n = 1
    if [(k, v) for _l, k, v in seq] != [("sleep", "sleep_cycles(1)"), ("step", "1")]:
        ctx.violation("C18.4/cpu-task", key_of(fn.file, fn.qual, "loop-body"), f"CPU task body is {[(k, v) for _l, k, v in seq]}; expected one `sleep_cycles(1).await` then one `step(1)` per instruction", fn.where)
    n += 1
    lp = loops[0]
    if lp["k"] == "for":
        if expr_text(lp["iter"]) != "0..instructions":
            ctx.violation("C18.4/cpu-task", key_of(fn.file, fn.qual, "loop-range"), f"CPU task iterates `{expr_text(lp['iter'])}`, not once per requested instruction", fn.where)
    else:
        # a counting while-loop is the same thing only if its counter goes up by exactly one per iteration, whatever the step did
        cond = expr_text(lp.get("cond", {})).replace(" ", "")
        ctr = cond.split("<")[0] if "<" in cond else None
        incs = [expr_text(a["r"]) for a in walk(body) if a.get("k") == "opassign" and a["op"] == "+" and expr_text(a["l"]) == ctr]
        if ctr is None or incs != ["1"]:
            ctx.violation("C18.4/cpu-task", key_of(fn.file, fn.qual, "loop-range"),
                          f"CPU task loops `while {cond}` with `{ctr}` advanced by {incs or 'nothing'}: the number of steps depends on what the steps did (a halted core retires nothing), "
                          "while the synchronous loop performs exactly the requested number of steps", fn.where)
    # the runner spawns the task on a driver whose clock starts at the runtime's cycle count
    rn = rs.fn("core/src/async_runtime.rs", "AsyncRuntimeRunner::new")
    n += 1
    rd_ = rs_defs(rn.body)
    wc = [c for c in walk(rn.body) if c.get("k") == "call" and expr_text(c["f"]).endswith("with_clock") and c["args"]]
    seeded = [rs_canon(c["args"][0], rd_) for c in wc]
    if not (len(wc) == 1 and "cycle_count()" in seeded[0]):
        ctx.violation("C18.4/cpu-task", key_of(rn.file, rn.qual, "clock-seed"), "the async runner does not seed the driver clock from the runtime's cycle count", rn.where)
    ctx.instance("C18.4/cpu-task", "CPU task = sleep one cycle then one synchronous step, once per instruction; driver clock seeded from the runtime", n, 3)
    ctx.sample({"cpu_task_body": [(k, v) for _l, k, v in seq]})
    # step(n) must be step(1) n times: the CPU task calls step(1) per wake-up, the synchronous loop step(n).  Everything the function
    # does to the machine therefore has to sit inside its per-instruction loop; outside it only items, pure bindings and the result.
    st = rs.fn(isa.LIB_RS, "CoreRuntime::step")
    top = st.body["stmts"]
    loops = [x for x in top if x.get("k") == "expr_stmt" and isinstance(x.get("e"), dict) and x["e"].get("k") in ("for", "while", "loop")]
    ctx.need(len(loops) == 1, f"CoreRuntime::step: expected one top-level instruction loop, found {len(loops)}")
    lp = loops[0]["e"]
    if lp["k"] != "for" or expr_text(lp["iter"]).replace(" ", "") != "0..instructions":
        ctx.violation("C18.4/step-iterated", key_of(st.file, st.qual, "loop-range"), f"CoreRuntime::step iterates `{expr_text(lp.get('iter', lp.get('cond', {})))}`, not once per requested instruction", st.where)
    nn = 0
    for x in top:
        nn += 1
        if x is loops[0] or x.get("k") == "item_stmt":
            continue
        eff = [e for e in walk(x) if (e.get("k") == "mcall" and expr_text(e["recv"]).replace(" ", "").startswith("self")) or e.get("k") in ("assign", "opassign")
               or (e.get("k") == "macro")]
        pure_result = x is top[-1] and not eff
        if x.get("k") == "local" and not eff:
            continue
        if pure_result:
            continue
        what = expr_text(eff[0]) if eff else x.get("src", "")[:80]
        ctx.violation("C18.4/step-iterated", key_of(st.file, st.qual, "effect outside the instruction loop"),
                      f"CoreRuntime::step does `{what[:90]}` once per call, outside `for _ in 0..instructions`: step(n) is then not step(1) repeated n times, so the scheduler-driven CPU (one step(1) per wake-up) and the synchronous loop leave different machine states", f"{st.file}:{x.get('ln')}")
    ctx.instance("C18.4/step-iterated", "top-level statements of CoreRuntime::step: items, the per-instruction loop, the result - no per-call effects", nn, 3)


def queued_events_first(ctx: Ctx, rs: RustProgram) -> None:
    """An event that is already queued is handed out by the next run_for call whatever else is going on: one `events_queue.pop_front()`
    of run_for is reached unconditionally at entry.  If every pop sits under the `tasks remain && clock < target` loop condition, the
    second of two events emitted in the last batch is stranded once the task queue drains."""
    fn = rs.fn(DRV, "AsyncDriver::run_for")
    g = cfgmod.build_rs(fn.node, fn.qual)
    pops = [c for c in walk(fn.body) if c.get("k") == "mcall" and (c["m"].startswith("pop") or c["m"] in ("remove", "swap_remove", "drain", "take")) and "events_queue" in expr_text(c["recv"])]
    ctx.need(bool(pops), "AsyncDriver::run_for: no site that takes an event out of events_queue")
    uncond = 0
    for c in pops:
        node = g.node_of(c)
        gs = [a for a, _pol, _o in (g.guards_of(node) if node is not None else []) if isinstance(a, dict)]
        if not gs:
            uncond += 1
    if not uncond:
        ctx.violation("C18.2/queued-events-first", key_of(fn.file, fn.qual, "queued events handed out only while tasks remain"),
                      "every events_queue.pop_front() of run_for is guarded by the task-loop condition: an event still queued when the last task finishes is never returned "
                      "(two tasks emitting in the same final cycle: the driver reports one event and loses the other)", fn.where)
    ctx.instance("C18.2/queued-events-first", "sites of run_for that take an event out of events_queue; one is reached unconditionally at entry", len(pops), 2)
