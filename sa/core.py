"""Check runner: findings, known-findings, evidence, exit codes.

Exit codes:  0 property clauses held on everything analysed
             1 a violation not listed in known_findings.json (VIOLATION line printed)
             2 the analysis itself is broken (ANALYSIS-ERROR line printed) - never a silent pass
"""
from __future__ import annotations

import hashlib
import json
import os
import sys
import time
import traceback
from dataclasses import dataclass, field
from pathlib import Path
from typing import Any, Callable

VERIF = Path(__file__).resolve().parent.parent
REPO = Path(os.environ.get("VERIF_REPO", "/repo"))
EVIDENCE_DIR = Path(os.environ.get("VERIF_EVIDENCE_DIR") or (VERIF / "evidence"))
REPLAY_DIR = EVIDENCE_DIR / "replay"
KNOWN_FILE = VERIF / "known_findings.json"


class AnalysisError(Exception):
    """The analysis cannot be carried out (vanished anchor, unparsable file,
    unsupported construct, floor not met).  Maps to exit 2."""


@dataclass
class Finding:
    rule: str          # rule id, e.g. "C05.1/analyze-lift-agree"
    key: str           # stable construct key: file::qualname::normalised-construct
    what: str          # one-line human description
    where: str = ""    # file:line for the reader (not part of the key)
    facts: dict = field(default_factory=dict)


@dataclass
class Instance:
    rule: str
    desc: str
    sites: int
    floor: int
    discharged: int


class Ctx:
    def __init__(self, prop: str, tier: str):
        self.prop = prop
        self.tier = tier
        self.findings: list[Finding] = []
        self.instances: list[Instance] = []
        self.samples: list[Any] = []
        self.assumptions: list[str] = []
        self.notes: list[str] = []
        self.files: dict[str, str] = {}
        self.functions_analysed = 0
        self.cfg_nodes = 0
        self.extra: dict[str, Any] = {}
        self.observations: list[str] = []

    # -- bookkeeping -----------------------------------------------------
    def file_used(self, path: Path | str) -> None:
        p = Path(path)
        try:
            rel = str(p.relative_to(REPO))
        except ValueError:
            rel = str(p)
        if rel not in self.files:
            try:
                self.files[rel] = hashlib.sha256(p.read_bytes()).hexdigest()[:16]
            except OSError as e:  # vanished anchor
                raise AnalysisError(f"anchor file missing: {rel}: {e}")

    def need(self, cond: Any, msg: str) -> None:
        if not cond:
            raise AnalysisError(msg)

    def instance(self, rule: str, desc: str, sites: int, floor: int, discharged: int | None = None) -> None:
        """Record a rule instance.  `sites` is what the rule matched on this run,
        `floor` the count confirmed by hand on the pinned tree: fewer sites than the
        floor means the rule went (partly) vacuous -> analysis error."""
        if discharged is None:
            discharged = sites
        self.instances.append(Instance(rule, desc, sites, floor, discharged))
        if sites < floor:
            raise AnalysisError(
                f"rule {rule} matched {sites} sites, below the confirmed floor {floor} ({desc}); "
                "the anchor moved or the rule went vacuous"
            )

    def violation(self, rule: str, key: str, what: str, where: str = "", **facts: Any) -> None:
        self.findings.append(Finding(rule, key, what, where, facts))

    def sample(self, obj: Any, cap: int = 40) -> None:
        if len(self.samples) < cap:
            self.samples.append(obj)

    def assume(self, text: str) -> None:
        if text not in self.assumptions:
            self.assumptions.append(text)

    def observe(self, text: str) -> None:
        self.observations.append(text)


def load_known() -> list[dict]:
    if not KNOWN_FILE.exists():
        return []
    data = json.loads(KNOWN_FILE.read_text())
    return data.get("findings", [])


def norm_key(s: str) -> str:
    return " ".join(s.split())


def run_check(prop: str, tier: str, fn: Callable[[Ctx], None], level: str, explanation: str, trusted: list[str]) -> int:
    t0 = time.time()
    ctx = Ctx(prop, tier)
    seed = int(os.environ.get("VERIF_SEED", "0") or 0)
    EVIDENCE_DIR.mkdir(exist_ok=True)
    REPLAY_DIR.mkdir(exist_ok=True, parents=True)
    ev_path = EVIDENCE_DIR / f"{prop}.json"
    status = "ok"
    err = None
    try:
        fn(ctx)
    except AnalysisError as e:
        status = "analysis-error"
        err = str(e)
    except Exception as e:  # traceback = broken analysis, never a violation
        status = "analysis-error"
        err = f"{type(e).__name__}: {e}\n" + traceback.format_exc(limit=12)

    known = [k for k in load_known() if k.get("property") == prop]
    known_active = {(k["rule"], norm_key(k["key"])): k for k in known if k.get("status") == "known"}
    unlisted: list[Finding] = []
    listed: list[tuple[Finding, dict]] = []
    seen_keys = set()
    for f in ctx.findings:
        kk = (f.rule, norm_key(f.key))
        if kk in seen_keys:
            continue
        seen_keys.add(kk)
        if kk in known_active:
            listed.append((f, known_active[kk]))
        else:
            unlisted.append(f)

    obligations = sum(i.sites for i in ctx.instances)
    discharged = sum(i.discharged for i in ctx.instances)
    wall = time.time() - t0

    evidence = {
        "property_id": prop,
        "tier": tier,
        "seed": seed,
        "level": level,
        "coverage": {
            "explanation": explanation,
            "obligations": obligations,
            "discharged": discharged - len(ctx.findings) if discharged >= len(ctx.findings) else 0,
            "evaluations": max(obligations, 1),
            "distinct_nontrivial": max(len({(i.rule) for i in ctx.instances if i.sites > 0}), 0),
            "rule": "one evaluation = one obligation (site x rule instance) decided on the syntax tree / flow graph of /repo's working tree; "
                    "distinct_nontrivial = number of distinct rule instances that matched at least one site",
            "checker_cmd": f"./check {prop} --tier {tier}",
            "trusted_base": trusted,
            "rule_instances": [
                {"rule": i.rule, "desc": i.desc, "sites": i.sites, "floor": i.floor, "discharged": i.discharged}
                for i in ctx.instances
            ],
            "files_analysed": ctx.files,
            "functions_analysed": ctx.functions_analysed,
            "cfg_nodes": ctx.cfg_nodes,
            "samples": ctx.samples if ctx.samples else [{"note": "no samples recorded", "status": status}],
            "exhaustive": False,
            "known_findings_reported": [k["key"] for _f, k in listed],
            "observations": ctx.observations,
            **ctx.extra,
        },
        "assumptions": ctx.assumptions,
        "wall_s": round(wall, 3),
        "violations": len(unlisted),
        "status": status,
    }
    if err:
        evidence["analysis_error"] = err
    ev_path.write_text(json.dumps(evidence, indent=1, sort_keys=False, default=str))

    for f, k in listed:
        print(f"KNOWN-FINDING: property={prop} {k.get('what') or f.what} [{f.rule} @ {f.where}]")

    if status == "analysis-error":
        print(f"ANALYSIS-ERROR property={prop} {err}")
        return 2

    if unlisted:
        replay = REPLAY_DIR / f"{prop}.json"
        replay.write_text(json.dumps(
            [{"rule": f.rule, "key": f.key, "what": f.what, "where": f.where, "facts": f.facts} for f in unlisted],
            indent=1, default=str))
        for f in unlisted[:30]:
            print(f"  finding rule={f.rule} at {f.where}: {f.what}")
            print(f"          key={f.key}")
        if len(unlisted) > 30:
            print(f"  ... and {len(unlisted) - 30} more findings (all in the replay file)")
        print(f"VIOLATION property={prop} replay={replay}")
        return 1

    n_inst = len(ctx.instances)
    print(f"OK property={prop} tier={tier} rule_instances={n_inst} obligations={obligations} "
          f"known={len(listed)} files={len(ctx.files)} wall={wall:.2f}s")
    return 0
