"""Facts about lifted IL term lists produced by the abstract sweep (sa/isa_sweep.py)."""
from __future__ import annotations

from typing import Any, Iterator

from .bits import BitVec, Lin
from .pyfacts import Term

INTERNAL_BASE = 0x100000
IMEM_NAMES = {0xEC: "BP", 0xED: "PX", 0xEE: "PY"}


def walk(t: Any) -> Iterator[Term]:
    stack = [t]
    while stack:
        x = stack.pop()
        if isinstance(x, Term):
            yield x
            stack.extend(reversed(x.args))
            stack.extend(x.kwargs.values())
        elif isinstance(x, (list, tuple)):
            stack.extend(reversed(x))


def is_temp(x: Any) -> int | None:
    if isinstance(x, Term) and x.ctor == "LLIL_TEMP" and x.args:
        return int(x.args[0])
    return None


def value_of(t: Any) -> Any:
    """Abstract value (int / BitVec / Lin) of a constant-building IL expression, else None."""
    if isinstance(t, (int, BitVec, Lin)) and not isinstance(t, bool):
        return t
    if not isinstance(t, Term):
        return None
    c = t.ctor
    if c in ("const", "const_pointer") and len(t.args) == 2:
        return value_of(t.args[1])
    if c in ("or_expr", "and_expr", "add", "sub", "xor_expr") and len(t.args) >= 3:
        a, b = value_of(t.args[1]), value_of(t.args[2])
        if a is None or b is None:
            return None
        try:
            if c == "or_expr":
                return BitVec.lift(a) | BitVec.lift(b) if not isinstance(a, Lin) and not isinstance(b, Lin) else None
            if c == "and_expr":
                return BitVec.lift(a) & BitVec.lift(b) if not isinstance(a, Lin) and not isinstance(b, Lin) else None
            if c == "xor_expr":
                return BitVec.lift(a) ^ BitVec.lift(b)
            if c == "add":
                return a + b
            if c == "sub":
                return a - b
        except TypeError:
            return None
    return None


def same_value(a: Any, b: Any) -> bool:
    if a is None or b is None:
        return False
    try:
        if isinstance(a, Lin) or isinstance(b, Lin):
            return Lin.of(a) == Lin.of(b)
        return BitVec.lift(a).bits[:24] == BitVec.lift(b).bits[:24]
    except TypeError:
        return False


# ---------------------------------------------------------------------------
# internal-memory address forms

def _imem_reg_load(t: Any) -> str | None:
    """load(1, const_pointer(3, 0x1000EC)) -> 'BP'"""
    if isinstance(t, Term) and t.ctor == "load" and len(t.args) == 2:
        v = value_of(t.args[1])
        if isinstance(v, (int, BitVec)):
            bv = BitVec.lift(v)
            if bv.is_const() and bv.value() - INTERNAL_BASE in IMEM_NAMES:
                return IMEM_NAMES[bv.value() - INTERNAL_BASE]
    return None


def imem_offset_mode(t: Any) -> tuple[str, Any] | None:
    """Offset expression (1 byte wide) -> (mode, n)."""
    if isinstance(t, Term) and t.ctor == "const" and len(t.args) == 2:
        return ("N", t.args[1])
    if isinstance(t, Term) and t.ctor == "add" and len(t.args) >= 3:
        a, b = t.args[1], t.args[2]
        ra, rb = _imem_reg_load(a), _imem_reg_load(b)
        if ra and rb:
            m = {("BP", "PX"): "BP_PX", ("BP", "PY"): "BP_PY"}.get((ra, rb))
            return (m, None) if m else None
        if ra and isinstance(b, Term) and b.ctor == "const":
            return ({"BP": "BP_N", "PX": "PX_N", "PY": "PY_N"}[ra], b.args[1])
    return None


def imem_address(t: Any) -> tuple[str, Any] | None:
    """Full 3-byte internal address expression -> (mode, n)."""
    if isinstance(t, Term) and t.ctor == "const_pointer" and len(t.args) == 2:
        v = t.args[1]
        if isinstance(v, int) and INTERNAL_BASE <= v < INTERNAL_BASE + 0x100:
            return ("N", v - INTERNAL_BASE)
        if isinstance(v, (BitVec, Lin)):
            lv = Lin.of(v) - INTERNAL_BASE if isinstance(v, Lin) else None
            if isinstance(v, BitVec):
                # 0x100000 + n built carry-free: bit 20 set, low byte symbolic
                if v.bits[20] == 1 and all(b == 0 for b in v.bits[8:20]):
                    return ("N", BitVec(v.bits[:8]))
            elif lv is not None and lv.c == 0 and len(lv.terms) == 1 and lv.terms[0][0] == 1:
                return ("N", lv.terms[0][1])
    if isinstance(t, Term) and t.ctor == "add" and len(t.args) >= 3:
        a, b = t.args[1], t.args[2]
        for x, y in ((a, b), (b, a)):
            vy = value_of(y)
            if isinstance(vy, (int, BitVec)) and BitVec.lift(vy).is_const() and BitVec.lift(vy).value() == INTERNAL_BASE:
                m = imem_offset_mode(x)
                if m is not None:
                    return m
    return None


def imem_accesses(il: list) -> list[tuple[str, Any]]:
    """All internal-memory address computations in an IL list (outermost matches only; base-register loads excluded)."""
    out = []

    def rec(x: Any) -> None:
        if isinstance(x, Term):
            m = imem_address(x)
            if m is not None:
                out.append(m)
                return
            for a in x.args:
                rec(a)
            for v in x.kwargs.values():
                rec(v)
        elif isinstance(x, (list, tuple)):
            for a in x:
                rec(a)
    for st in il:
        rec(st)
    return out


# ---------------------------------------------------------------------------
# control flow inside one instruction's IL

def il_cfg(il: list) -> tuple[dict[int, list[int]], int]:
    """succ map over statement indices; index len(il) is the fall-through exit."""
    labels = {}
    for i, st in enumerate(il):
        if isinstance(st, Term) and st.ctor == "LABEL":
            labels[repr(st.args[0])] = i
    n = len(il)
    succ: dict[int, list[int]] = {i: [] for i in range(n + 1)}
    for i, st in enumerate(il):
        c = st.ctor if isinstance(st, Term) else ""
        if c == "if_expr":
            for lbl in st.args[1:3]:
                succ[i].append(labels.get(repr(lbl), n))
        elif c == "goto":
            succ[i].append(labels.get(repr(st.args[0]), n))
        elif c in ("jump", "ret", "tailcall"):
            pass
        else:
            succ[i].append(i + 1)
    return succ, n


def transfers(il: list) -> list[tuple[str, Any, int]]:
    """(kind, target-term, index) for jump/call/ret statements."""
    out = []
    for i, st in enumerate(il):
        if isinstance(st, Term) and st.ctor in ("jump", "call", "ret", "tailcall"):
            out.append((st.ctor, st.args[0] if st.args else None, i))
    return out


def flags_written(il: list) -> set[str]:
    out = set()
    for st in il:
        for t in walk(st):
            if t.ctor == "set_flag" and t.args:
                out.add(str(t.args[0]))
            elif t.ctor in ("add", "sub", "and_expr", "or_expr", "xor_expr", "rotate_left", "rotate_right", "rotate_left_carry", "rotate_right_carry",
                            "shift_left", "logical_shift_right", "arith_shift_right", "neg_expr", "not_expr"):
                fl = t.kwargs.get("flags")
                for a in t.args:
                    if isinstance(a, str) and a in ("C", "Z", "CZ"):
                        fl = a
                if fl:
                    out |= set(str(fl))
    return out


def regs_written(il: list) -> set[str]:
    out = set()
    for st in il:
        for t in walk(st):
            if t.ctor == "set_reg" and len(t.args) >= 2:
                r = t.args[1]
                out.add(f"TEMP{is_temp(r)}" if is_temp(r) is not None else str(r))
            elif t.ctor in ("push", "pop"):
                out.add("S")
    return out
