"""Opcode shape model (OSM): the resolved ISA tables of both languages, obtained by
syntax-directed evaluation of the table displays (no import of /repo)."""
from __future__ import annotations

import ast
from dataclasses import dataclass, field
from typing import Any

from .core import AnalysisError
from .pyfacts import ClassRef, EnumMember, PyClass, PyProgram, Term
from .rsfacts import NotConst as RsNotConst
from .rsfacts import RustProgram

OPTABLE = "sc62015/pysc62015/instr/opcode_table.py"
OPCODES_PY = "sc62015/pysc62015/instr/opcodes.py"
INSTR_PY = "sc62015/pysc62015/instr/instructions.py"
EMU_PY = "sc62015/pysc62015/emulator.py"
CONST_PY = "sc62015/pysc62015/constants.py"
ARCH_PY = "sc62015/arch.py"
VIEW_PY = "sc62015/view.py"
OPCODES_RS = "llama/opcodes.rs"
EVAL_RS = "llama/eval.rs"
STATE_RS = "llama/state.rs"
LIB_RS = "core/src/lib.rs"
MEMORY_RS = "core/src/memory.rs"


@dataclass
class PyRow:
    opcode: int
    cls: str
    name: str               # instr_name as create_instruction computes it
    table_name: str         # name the generator script uses (opts.name or cls.__name__)
    cond: str | None
    ops_reversed: bool | None
    ops: list[Term]
    ln: int = 0


def py_rows(prog: PyProgram) -> dict[int, PyRow]:
    table = prog.value(OPTABLE, "OPCODES")
    if not isinstance(table, dict):
        raise AnalysisError("OPCODES does not evaluate to a dict display")
    rows: dict[int, PyRow] = {}
    for k, v in table.items():
        if not isinstance(k, int):
            raise AnalysisError(f"OPCODES key {k!r} is not an integer")
        if isinstance(v, ClassRef):
            cls, opts = v, Term("Opts", (), {})
        elif isinstance(v, tuple) and len(v) == 2 and isinstance(v[0], ClassRef) and isinstance(v[1], Term) and v[1].ctor == "Opts":
            cls, opts = v
        else:
            raise AnalysisError(f"OPCODES[{k:#x}] has unsupported shape {v!r}")
        kw = opts.kwargs
        ops = kw.get("ops") or []
        for o in ops:
            if not isinstance(o, Term):
                raise AnalysisError(f"OPCODES[{k:#x}] operand {o!r} is not a constructor term")
        name = kw.get("name") or cls.name.split("_")[0]
        rows[k] = PyRow(k, cls.name, name, kw.get("name") or cls.name, kw.get("cond"), kw.get("ops_reversed"), list(ops), opts.ln)
    return rows


@dataclass
class RsRow:
    opcode: int
    kind: str
    name: str
    cond: str | None
    ops_reversed: bool | None
    operands: list[tuple]      # (variant, args...)
    index: int = 0


def _rs_operand(v: Any) -> tuple:
    if isinstance(v, tuple) and v and v[0] == "sym":
        return (v[1].split("::")[-1],)
    if isinstance(v, tuple) and v and v[0] == "ctor":
        args = []
        for a in v[2]:
            if isinstance(a, tuple) and a and a[0] == "sym":
                args.append(a[1].split("::")[-1])
            else:
                args.append(a)
        return (v[1].split("::")[-1], *args)
    raise AnalysisError(f"unsupported Rust operand initialiser {v!r}")


def rs_rows(rs: RustProgram) -> list[RsRow]:
    try:
        table = rs.eval_const(OPCODES_RS, "OPCODES")
    except RsNotConst as e:
        raise AnalysisError(f"Rust OPCODES table is not a constant display: {e}")
    rows = []
    for i, ent in enumerate(table):
        if not isinstance(ent, dict) or ent.get("__struct__") != "OpcodeEntry":
            raise AnalysisError(f"Rust OPCODES[{i}] is not an OpcodeEntry literal")
        kind = ent["kind"]
        if not (isinstance(kind, tuple) and kind[0] == "sym"):
            raise AnalysisError(f"Rust OPCODES[{i}].kind not a path")
        rows.append(RsRow(
            opcode=ent["opcode"], kind=kind[1].split("::")[-1], name=ent["name"], cond=ent["cond"],
            ops_reversed=ent["ops_reversed"], operands=[_rs_operand(o) for o in ent["operands"]], index=i))
    return rows


KIND_MAP = {
    "JP_Abs": "JpAbs", "JPF": "JpAbs", "JP_Rel": "JpRel", "CALL": "Call", "CALLF": "Call",
    "RET": "Ret", "RETF": "RetF", "RETI": "RetI", "PUSHU": "PushU", "POPU": "PopU",
    "PUSHS": "PushS", "POPS": "PopS", "ADCL": "Adc", "EXP": "Ex", "EXW": "Ex",
    "UnknownInstruction": "Unknown",
}


def generator_kind_map(prog: PyProgram) -> dict[str, str]:
    """Read kind_map from scripts/generate_llama_opcodes.py (the repository's own
    documented mapping) instead of trusting the copy above; they must agree."""
    mod = prog.module("scripts/generate_llama_opcodes.py")
    fn = prog.func("scripts/generate_llama_opcodes.py", "_opcode_entry")
    for st in ast.walk(fn):
        if isinstance(st, ast.Assign) and any(isinstance(t, ast.Name) and t.id == "kind_map" for t in st.targets):
            d = ast.literal_eval(st.value)
            return d
    raise AnalysisError("kind_map not found in scripts/generate_llama_opcodes.py::_opcode_entry")


def expected_rs_operand(prog: PyProgram, t: Term) -> tuple:
    """The generator's _map_operand, applied to constructor terms."""
    reg_sizes = prog.value(OPCODES_PY, "REG_SIZES")
    n = t.ctor
    kw = t.kwargs
    if n == "Reg":
        reg = kw.get("reg")
        if reg not in reg_sizes:
            raise AnalysisError(f"Reg({reg!r}) not in REG_SIZES")
        return ("Reg", reg, reg_sizes[reg] * 8)
    if n in ("RegIL", "RegIMR", "RegF", "Reg3", "RegB", "ImmOffset"):
        return (n,)
    if n == "RegPair":
        return ("RegPair", kw.get("size") or 0)
    if n in ("Imm8", "Imm16", "Imm20"):
        return ("Imm", int(n[3:]))
    if n in ("IMem8", "IMem16", "IMem20"):
        return ("IMem", int(n[4:]))
    if n == "EMemAddr":
        return ("EMemAddrWidth", kw["width"])
    if n == "EMemReg":
        allowed = {m.name for m in (kw.get("allowed_modes") or [])}
        if allowed == {"POST_INC", "PRE_DEC"}:
            return ("EMemRegModePostPre",)
        return ("EMemRegWidth", kw["width"])
    if n == "EMemIMem":
        return ("EMemIMemWidth", kw.get("width") or 1)
    if n == "RegIMemOffset":
        order = kw["order"]
        return ("RegIMemOffset", "DestImem" if order.name == "DEST_IMEM" else "DestRegOffset")
    if n == "EMemIMemOffset":
        order = kw["order"]
        return ("EMemImemOffsetDestIntMem",) if order.name == "DEST_INT_MEM" else ("EMemImemOffsetDestExtMem",)
    raise AnalysisError(f"operand class {n} has no mapping in the generator script")


def expected_rs_row(prog: PyProgram, r: PyRow, kind_map: dict[str, str]) -> RsRow:
    kind = kind_map.get(r.table_name, r.table_name.capitalize())
    return RsRow(r.opcode, kind, r.table_name, r.cond or None, True if r.ops_reversed else None,
                 [expected_rs_operand(prog, t) for t in r.ops])


def operand_class(prog: PyProgram, name: str) -> PyClass:
    return prog.need_cls(prog.module(OPTABLE), name)


def rs_exec_arms(rs: RustProgram) -> list[dict]:
    """Arms of `match entry.kind` in LlamaExecutor::execute_with:
    [{kinds:set[str], guard:expr|None, body:expr, ln:int, wild:bool}]"""
    from .rsfacts import expr_text, pat_text, walk
    fn = rs.fn(EVAL_RS, "LlamaExecutor::execute_with")
    for st in fn.body["stmts"]:
        e = st.get("e") if st.get("k") == "expr_stmt" else None
        if e and e.get("k") == "match" and expr_text(e["e"]) == "entry.kind":
            out = []
            for arm in e["arms"]:
                pat = arm["pat"]
                alts = pat["cases"] if pat.get("k") == "p_or" else [pat]
                kinds = set()
                wild = False
                for a in alts:
                    t = pat_text(a)
                    if t == "_":
                        wild = True
                    elif t.startswith("InstrKind::"):
                        kinds.add(t.split("::")[-1])
                    else:
                        raise AnalysisError(f"execute_with: unsupported arm pattern {t}")
                out.append({"kinds": kinds, "guard": arm.get("guard"), "body": arm["body"], "ln": arm["ln"], "wild": wild})
            return out
    raise AnalysisError("execute_with: top-level `match entry.kind` not found")


def rs_arm_for(rs: RustProgram, kind: str, unguarded_only: bool = True) -> dict:
    arms = [a for a in rs_exec_arms(rs) if kind in a["kinds"] and (a["guard"] is None or not unguarded_only)]
    if len(arms) != 1:
        raise AnalysisError(f"execute_with: expected exactly one unguarded arm for InstrKind::{kind}, found {len(arms)}")
    return arms[0]
