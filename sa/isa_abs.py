"""Abstract execution of the Python ISA layer for one opcode: decode / encode / render / analyze / lift
with symbolic operand bytes (sa/absint.py + sa/bits.py).  Trusted summary of binja_test_mocks.coding
Decoder/Encoder is the AbsDecoder/AbsEncoder pair below."""
from __future__ import annotations

from typing import Any

from . import isa
from .absint import AbsEval, Obj, Raised, Unknown, deepcopy_value, raised
from .bits import BitVec
from .core import AnalysisError
from .pyfacts import ClassRef, FuncRef, PyProgram, Term

ASSUMPTIONS = [
    "binja_test_mocks.coding.Decoder: unsigned_byte() consumes 1 byte, unsigned_word_le() consumes 2 bytes little-endian, peek(k) does not advance, "
    "a read past the buffer raises BufferTooShortErrorError; Encoder.unsigned_byte/unsigned_word_le append 1/2 bytes and reject values that do not fit",
]


class AbsDecoder:
    _abs_isinstance = {"Decoder"}

    def __init__(self, data: list):
        self.data = data
        self.pos = 0
        self.peeks: list[int] = []

    def get_pos(self) -> int:
        return self.pos

    def peek(self, offset: Any) -> Any:
        offset = int(offset)
        self.peeks.append(offset)
        if self.pos + offset >= len(self.data):
            raise raised("BufferTooShortErrorError")
        return self.data[self.pos + offset]

    def unsigned_byte(self) -> Any:
        if self.pos + 1 > len(self.data):
            raise raised("BufferTooShortErrorError")
        v = self.data[self.pos]
        self.pos += 1
        return v

    def unsigned_word_le(self) -> Any:
        if self.pos + 2 > len(self.data):
            raise raised("BufferTooShortErrorError")
        lo, hi = self.data[self.pos], self.data[self.pos + 1]
        self.pos += 2
        return BitVec.lift(lo) | (BitVec.lift(hi) << 8)


class AbsEncoder:
    _abs_isinstance = {"Encoder"}

    def __init__(self) -> None:
        self.buf: list = []
        self.overflow: list[str] = []

    def _emit(self, value: Any, nbytes: int) -> None:
        if value is None:
            raise raised("TypeError", "encoder given None")
        v = BitVec.lift(value)
        if any(b != 0 for b in v.bits[8 * nbytes:]):
            self.overflow.append(f"value wider than {nbytes} byte(s)")
        for i in range(nbytes):
            self.buf.append(BitVec(v.bits[8 * i:8 * i + 8]))

    def unsigned_byte(self, value: Any) -> None:
        self._emit(value, 1)

    def unsigned_word_le(self, value: Any) -> None:
        self._emit(value, 2)


class _Copy:
    @staticmethod
    def deepcopy(v: Any) -> Any:
        return deepcopy_value(v)

    @staticmethod
    def copy(v: Any) -> Any:
        # shallow: a new object sharing the attribute values (nested operand objects stay shared)
        if isinstance(v, Obj):
            o = Obj(v.cls)
            o.attrs = dict(v.attrs)
            return o
        if isinstance(v, list):
            return list(v)
        if isinstance(v, dict):
            return dict(v)
        return v


class IsaAbs:
    def __init__(self, prog: PyProgram):
        self.prog = prog
        self.mod = prog.module(isa.OPTABLE)
        self._label_counter = [0]

        def _new_label() -> Term:
            self._label_counter[0] += 1
            return Term("Label", (self._label_counter[0],), {})
        self.shared = {"class_attr_cache": {}, "natives": {"copy": _Copy, "LowLevelILLabel": _new_label}}
        self.ev = AbsEval(prog, self.mod, {}, [50_000_000], None, self.shared)
        table = prog.value(isa.OPTABLE, "OPCODES")
        self.opcodes = {k: self.ev.from_term(v) for k, v in table.items()}
        self.templates_fingerprint = self._fingerprint()

    def _fingerprint(self) -> str:
        return repr({k: _shape(v) for k, v in self.opcodes.items()})

    def evaluator(self, rel: str | None = None) -> AbsEval:
        m = self.prog.module(rel) if rel else self.mod
        return AbsEval(self.prog, m, {}, self.ev.budget, None, self.shared)

    def new_instruction(self, dec: AbsDecoder) -> Any:
        ev = self.evaluator(isa.OPCODES_PY)
        return ev.call(ev.name("create_instruction"), [dec, self.opcodes], {})

    def decode_one(self, data: list, addr: int = 0x1000) -> tuple[Any, AbsDecoder]:
        """Mirror of iter_decode's body for one instruction: create, decode, set_length."""
        dec = AbsDecoder(data)
        instr = self.new_instruction(dec)
        if instr is None:
            raise raised("NotImplementedError")
        start = dec.get_pos()
        ev = self.evaluator(isa.OPCODES_PY)
        ev.call(ev.getattr(instr, "decode"), [dec, addr], {})
        ev.call(ev.getattr(instr, "set_length"), [dec.get_pos() - start], {})
        return instr, dec

    def method(self, obj: Any, name: str, args: list, kwargs: dict | None = None) -> Any:
        ev = self.evaluator(isa.OPCODES_PY)
        return ev.call(ev.getattr(obj, name), args, kwargs or {})


def _shape(v: Any) -> Any:
    if isinstance(v, Obj):
        return (v.cls.name, tuple(sorted((k, _shape(x)) for k, x in v.attrs.items())))
    if isinstance(v, (list, tuple)):
        return tuple(_shape(x) for x in v)
    if isinstance(v, dict):
        return tuple(sorted((str(k), _shape(x)) for k, x in v.items()))
    return repr(v)


def sym_bytes(n: int, prefix: str = "in") -> list:
    return [BitVec.sym(f"{prefix}{j}", 8) for j in range(n)]
