"""Per-opcode abstract sweep of the Python ISA layer: decode -> (fuse) -> encode / render / analyze / lift.

One *case* = (prefix byte or None, opcode, selector byte or symbolic); operand bytes that do not steer control flow stay
symbolic bit-vectors, so one case stands for all their values.  The case list is complete for the structural part of the
instruction space: 256 opcodes x (symbolic | 256 selector values) and 15 prefixes x representatives of each outcome class."""
from __future__ import annotations

import multiprocessing as mp
import os
from dataclasses import dataclass, field
from typing import Any

from . import isa
from .absint import Obj, Raised, Unknown
from .bits import TOP, BitVec, Lin, show_bit
from .core import AnalysisError
from .isa_abs import AbsDecoder, AbsEncoder, IsaAbs, sym_bytes
from .pyfacts import ClassRef, EnumMember, PyProgram, Term

ADDR = 0x12345  # concrete address used for analyze/lift (page 0x01, non-trivial low bits)
MAXLEN = 7
SPLIT_BUDGET = 70000   # cases per opcode when operand values steer control flow


class AbsInfo:
    def __init__(self) -> None:
        self.length = 0
        self.branches: list[tuple] = []

    def add_branch(self, kind: Any, target: Any = None) -> None:
        k = kind[1].split(".")[-1] if isinstance(kind, tuple) else str(kind)
        self.branches.append((k, target))


class AbsIL:
    """IL builder: every method builds a Term; append records the statement list."""
    _abs_isinstance = {"LowLevelILFunction", "MockLowLevelILFunction"}

    def __init__(self) -> None:
        self.ils: list = []

    def append(self, x: Any) -> None:
        self.ils.append(x)

    def mark_label(self, lbl: Any) -> None:
        self.ils.append(Term("LABEL", (lbl,), {}))

    def __getattr__(self, name: str) -> Any:
        if name.startswith("_"):
            raise AttributeError(name)

        def build(*args: Any, **kwargs: Any) -> Term:
            return Term(name, tuple(args), dict(kwargs))
        return build


@dataclass
class Case:
    pre: int | None
    opcode: int
    selector: int | None
    status: str = "ok"                 # ok | reject:<Exc> | error
    stage: str = ""                    # stage at which a non-BufferTooShort exception escaped
    exc: str = ""
    exc_where: str = ""
    n: int = 0                         # bytes consumed by the (unfused) instruction
    length: int = 0                    # Instruction.length() after fuse
    cls: str = ""
    name: str = ""
    enc_len: int | None = None
    enc_identity: bool | None = None
    enc_detail: str = ""
    enc_overflow: list = field(default_factory=list)
    peeks: list = field(default_factory=list)
    operands: list = field(default_factory=list)       # logical operand class names
    tokens: list = field(default_factory=list)         # (token class, text)
    render_exc: str = ""
    info_len: int | None = None
    branches: list = field(default_factory=list)
    analyze_exc: str = ""
    il: list = field(default_factory=list)             # printed IL statements
    il_terms: list = field(default_factory=list)       # IL statements as Term trees (labels are Term('LABEL', (label-term,)))
    lift_exc: str = ""
    trunc_exc: str = ""                # exception when the buffer is one byte short
    templates_changed: bool = False
    fixed: tuple = ()                  # ((data index, value), ...) operand bytes made concrete because control flow depends on them


def _tok(t: Any) -> tuple:
    if isinstance(t, Term):
        a = t.args[0] if t.args else ""
        if isinstance(a, BitVec):
            from .absint import sym_name
            a = hex(a.value()) if a.is_const() else "<" + sym_name(a) + ">"
        elif isinstance(a, tuple) and a and a[0] == "external":
            a = a[1].split(".")[-1]
        return (t.ctor, str(a))
    return ("?", str(t))


def bits_str(v: BitVec, width: int) -> str:
    if v.is_const():
        return hex(v.value())
    return "[" + " ".join(show_bit(b) for b in v.bits[:width]) + "]"


def il_str(x: Any, depth: int = 0) -> str:
    if depth > 12:
        return "..."
    if isinstance(x, Term):
        parts = [il_str(a, depth + 1) for a in x.args] + [f"{k}={il_str(v, depth + 1)}" for k, v in x.kwargs.items()]
        return f"{x.ctor}({', '.join(parts)})"
    if isinstance(x, BitVec):
        return bits_str(x, 24)
    if isinstance(x, Lin):
        return repr(x)
    if isinstance(x, tuple) and x and x[0] == "external":
        return x[1].split(".")[-1]
    if isinstance(x, EnumMember):
        return f"{x.cls}.{x.name}"
    if isinstance(x, Obj):
        return f"<{x.cls.name}>"
    if isinstance(x, (list, tuple)):
        return "[" + ", ".join(il_str(a, depth + 1) for a in x) + "]"
    return repr(x)


def clean_term(x: Any) -> Any:
    """Make an IL tree picklable and canonical: objects -> class-name terms, externals -> short names."""
    if isinstance(x, Term):
        return Term(x.ctor, tuple(clean_term(a) for a in x.args), {k: clean_term(v) for k, v in x.kwargs.items()}, x.ln)
    if isinstance(x, Obj):
        return Term("OBJ:" + x.cls.name, (), {})
    if isinstance(x, tuple) and x and x[0] == "external":
        return x[1].split(".")[-1]
    if isinstance(x, EnumMember):
        return f"{x.cls}.{x.name}" if not isinstance(x.value, BitVec) else x.value
    if isinstance(x, (list, tuple)):
        return tuple(clean_term(a) for a in x)
    return x


class Sweeper:
    def __init__(self) -> None:
        self.py = PyProgram()
        self.ia = IsaAbs(self.py)

    def run_case(self, pre: int | None, opcode: int, selector: int | None, stages: tuple = ("encode", "render", "analyze", "lift", "trunc"), data: list | None = None, addr: int | None = None, fixed: dict | None = None) -> Case:
        """`data`: explicit instruction bytes after the prefix (bit-vectors over any symbols); default is opcode + fresh symbols in0.."""
        c = Case(pre, opcode, selector)
        ia = self.ia
        ia.ev.budget[0] = 50_000_000     # the evaluation budget bounds one case, not a worker's lifetime (value splitting multiplies cases)
        ADDR = addr if addr is not None else globals()['ADDR']
        if data is None:
            data = [BitVec.const(opcode)] + sym_bytes(MAXLEN - 1)
            if selector is not None:
                data[1] = BitVec.const(selector)
            for k, v in (fixed or {}).items():
                data[k] = BitVec.const(v)
            c.fixed = tuple(sorted((fixed or {}).items()))
        try:
            instr, dec = ia.decode_one(data, ADDR + (1 if pre is not None else 0))
        except Raised as e:
            c.status = "reject:" + e.cls_name
            c.stage, c.exc, c.exc_where = "decode", e.cls_name, e.where
            return c
        c.n = dec.get_pos()
        c.peeks = sorted(set(dec.peeks))
        c.cls = instr.cls.name
        consumed = data[:c.n]
        if pre is not None:
            try:
                pinstr, pdec = ia.decode_one([BitVec.const(pre)], ADDR)
                fused = ia.method(pinstr, "fuse", [instr])
            except Raised as e:
                c.status = "reject:" + e.cls_name
                c.stage, c.exc, c.exc_where = "fuse", e.cls_name, e.where
                return c
            if fused is None:
                c.status = "reject:nofuse"
                return c
            instr = fused
            consumed = [BitVec.const(pre)] + consumed
            # fusion() keeps going while the fused result still fuses with what follows (a prefix that absorbed a prefix)
            hops = 0
            while isinstance(instr, Obj) and instr.cls.name == "PRE" and c.n < len(data) and hops < 4:
                hops += 1
                try:
                    nxt, ndec = ia.decode_one(data[c.n:], ADDR + 1 + c.n)
                    again = ia.method(instr, "fuse", [nxt])
                except (Raised, Unknown):
                    break
                if again is None:
                    break
                k2 = ndec.get_pos()
                consumed = consumed + data[c.n:c.n + k2]
                c.n += k2
                instr = again
                c.cls = instr.cls.name
        try:
            c.name = ia.method(instr, "name", [])
            c.length = ia.method(instr, "length", [])
        except Raised as e:
            c.stage, c.exc, c.exc_where = "name", e.cls_name, e.where
        try:
            ops = ia.method(instr, "operands", [])
            ops = ops.items if hasattr(ops, "items") and not isinstance(ops, dict) else ops
            c.operands = [o.cls.name if isinstance(o, Obj) else type(o).__name__ for o in ops]
        except Raised as e:
            c.operands = [f"!{e.cls_name}"]
        if "encode" in stages:
            enc = AbsEncoder()
            try:
                ia.method(instr, "encode", [enc, ADDR])
                c.enc_len = len(enc.buf)
                c.enc_overflow = enc.overflow
                ok = c.enc_len == len(consumed)
                detail = ""
                if ok:
                    for i, (a, b) in enumerate(zip(enc.buf, consumed)):
                        ab, bb = list(BitVec.lift(a).bits[:8]), list(BitVec.lift(b).bits[:8])
                        if ab != bb:
                            ok = False
                            detail = f"byte {i}: emitted [{' '.join(show_bit(x) for x in ab)}] consumed [{' '.join(show_bit(x) for x in bb)}]"
                            break
                else:
                    detail = f"emitted {c.enc_len} bytes, consumed {len(consumed)}"
                c.enc_identity, c.enc_detail = ok, detail
            except Raised as e:
                c.enc_identity = False
                c.enc_detail = f"encode raised {e.cls_name} at {e.where}"
        if "render" in stages:
            try:
                toks = ia.method(instr, "render", [])
                c.tokens = [_tok(t) for t in toks]
            except Raised as e:
                c.render_exc = f"{e.cls_name}@{e.where}"
        if "analyze" in stages:
            info = AbsInfo()
            try:
                ia.method(instr, "analyze", [info, ADDR])
                c.info_len = info.length if isinstance(info.length, int) else None
                c.branches = [(k, t) for k, t in info.branches]
            except Raised as e:
                c.analyze_exc = f"{e.cls_name}@{e.where}"
        if "lift" in stages:
            il = AbsIL()
            try:
                ia.method(instr, "lift", [il, ADDR])
                c.il = [il_str(x) for x in il.ils]
                c.il_terms = [clean_term(x) for x in il.ils]
            except Raised as e:
                c.lift_exc = f"{e.cls_name}@{e.where}"
        if "trunc" in stages and pre is None and c.n > 1:
            try:
                ia.decode_one(data[:c.n - 1], ADDR)
                c.trunc_exc = "accepted-short-buffer"
            except Raised as e:
                c.trunc_exc = e.cls_name
        return c

    def cases_for_opcode(self, opcode: int, stages: tuple) -> list[Case]:
        return self.split_cases(None, opcode, {}, stages, [SPLIT_BUDGET])

    def split_cases(self, pre: int | None, opcode: int, fixed: dict, stages: tuple, budget: list, depth: int = 0) -> list[Case]:
        """Run one case; when control flow hinges on a symbolic operand byte, enumerate that byte (the selector byte first)."""
        try:
            return [self.run_case(pre, opcode, fixed.get(1), stages, fixed={k: v for k, v in fixed.items() if k != 1} or None)]
        except Unknown as e:
            syms = sorted(s for s in getattr(e, "symbols", ()) if len(s) == 3 and s.startswith("in") and s[2].isdigit())
            idx = [int(s[2]) + 1 for s in syms if int(s[2]) + 1 not in fixed]
            if idx and 1 not in idx and syms:
                k = idx[0]                  # the branch names the operand byte it hinges on: split that byte only
            elif 1 not in fixed:
                k = 1                       # the mode/selector byte decides most control flow
            elif idx:
                k = idx[0]
            else:
                raise AnalysisError(f"opcode {opcode:#04x} bytes {fixed}: abstract execution left the fragment: {e}")
            if depth >= 3:
                raise AnalysisError(f"opcode {opcode:#04x}: control flow depends on more than three operand bytes: {e}")
        out: list[Case] = []
        for v in range(256):
            budget[0] -= 1
            if budget[0] < 0:
                raise AnalysisError(f"opcode {opcode:#04x}: value-dependent control flow needs more than {SPLIT_BUDGET} cases")
            out += self.split_cases(pre, opcode, {**fixed, k: v}, stages, budget, depth + 1)
        return out


_SW: Sweeper | None = None


def _init() -> None:
    global _SW
    _SW = Sweeper()


def _work(job: tuple) -> list[Case]:
    global _SW
    if _SW is None:
        _SW = Sweeper()
    kind = job[0]
    try:
        if kind == "op":
            return _SW.cases_for_opcode(job[1], job[2])
        if kind == "pre":
            _k, pre, opcode, sels, stages = job
            out: list[Case] = []
            for fx in sels:
                out += _SW.split_cases(pre, opcode, dict(fx), stages, [SPLIT_BUDGET])
            return out
    except AnalysisError as e:
        return [Case(None, job[1], None, status="error", exc=str(e))]
    except Unknown as e:
        return [Case(None, job[1] if kind == "op" else job[2], None, status="error", exc=f"Unknown: {e}")]
    return []


def sweep(stages: tuple = ("encode", "render", "analyze", "lift", "trunc"), with_prefixes: str = "reps", jobs: int | None = None) -> tuple[list[Case], list[Case], bool]:
    """Returns (base cases, prefixed cases, templates_unchanged)."""
    jobs = jobs or min(16, os.cpu_count() or 4)
    ctxm = mp.get_context("fork")
    with ctxm.Pool(jobs, initializer=_init) as pool:
        base_lists = pool.map(_work, [("op", op, stages) for op in range(256)], chunksize=4)
        base = [c for lst in base_lists for c in lst]
        for c in base:
            if c.status == "error":
                raise AnalysisError(c.exc)
        pre_cases: list[Case] = []
        if with_prefixes != "none":
            py = PyProgram()
            rows = isa.py_rows(py)
            pre_ops = sorted(k for k, r in rows.items() if r.cls == "PRE")
            jobs_pre = []
            by_op: dict[int, list[Case]] = {}
            for c in base:
                by_op.setdefault(c.opcode, []).append(c)
            for op, cs in by_op.items():
                reps: dict[tuple, int | None] = {}
                for c in cs:
                    if c.status != "ok":
                        continue
                    key = (c.n, tuple(c.operands), c.cls) if with_prefixes == "reps" else (c.selector, c.fixed)
                    reps.setdefault(key, {**({1: c.selector} if c.selector is not None else {}), **dict(c.fixed)})
                sels = list(reps.values())
                if not sels:
                    continue
                for p in pre_ops:
                    jobs_pre.append(("pre", p, op, sels, stages))
            # a prefix in front of another prefix byte is a case of its own (the base case of a lone prefix is a rejection, so the
            # loop above never pairs them)
            for q in pre_ops:
                for p in pre_ops:
                    jobs_pre.append(("pre", p, q, [{}, {1: 0x00}, {1: 0xC8}], stages))   # nothing / NOP / MV (m),(n) behind the pair
            pre_lists = pool.map(_work, jobs_pre, chunksize=16)
            pre_cases = [c for lst in pre_lists for c in lst]
            for c in pre_cases:
                if c.status == "error":
                    raise AnalysisError(c.exc)
    # templates unchanged: decode must not write through the shared operand templates (checked in-process on a fresh sweeper)
    sw = Sweeper()
    before = sw.ia.templates_fingerprint
    for op in (0x08, 0x44, 0x56, 0x90, 0xC8, 0xE0, 0xF0, 0xFD, 0xD6):
        for sel in (0x04, 0x84, 0x24, 0x80, 0x12):
            try:
                sw.run_case(None, op, sel, ("encode", "render", "analyze", "lift"))
                sw.run_case(0x25, op, sel, ("encode", "render", "analyze", "lift"))
            except Unknown:
                pass
    unchanged = sw.ia._fingerprint() == before
    return base, pre_cases, unchanged
