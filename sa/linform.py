"""Tiny normaliser for integer index arithmetic in Python source: expressions over names, `len(x)`, constants, + and -, and
`min(...)` become a set of alternatives, each a linear form {atom: coefficient} + constant.  Local single assignments are inlined.
Anything else raises NotLinear (the caller fails closed)."""
from __future__ import annotations

import ast
from typing import Iterable


class NotLinear(Exception):
    pass


Form = tuple  # (const, frozenset((atom, coef), ...))


def _mk(c: int, terms: dict) -> Form:
    return (c, frozenset((k, v) for k, v in terms.items() if v != 0))


def _add(a: Form, b: Form, sign: int = 1) -> Form:
    t = dict(a[1])
    for k, v in b[1]:
        t[k] = t.get(k, 0) + sign * v
    return _mk(a[0] + sign * b[0], t)


def alternatives(e: ast.AST, defs: dict[str, ast.AST], depth: int = 0) -> set[Form]:
    """The set of linear forms `e` can take, one per way of resolving its min(...) sub-expressions."""
    if depth > 8:
        raise NotLinear("definition chain too deep")
    if isinstance(e, ast.Constant) and isinstance(e.value, int):
        return {_mk(e.value, {})}
    if isinstance(e, ast.Name):
        if e.id in defs:
            return alternatives(defs[e.id], defs, depth + 1)
        return {_mk(0, {e.id: 1})}
    if isinstance(e, ast.Call) and isinstance(e.func, ast.Name) and e.func.id == "len" and len(e.args) == 1:
        return {_mk(0, {"len(" + ast.unparse(e.args[0]) + ")": 1})}
    if isinstance(e, ast.Call) and isinstance(e.func, ast.Name) and e.func.id == "min":
        out: set[Form] = set()
        for a in e.args:
            out |= alternatives(a, defs, depth + 1)
        return out
    if isinstance(e, ast.BinOp) and isinstance(e.op, (ast.Add, ast.Sub)):
        sign = 1 if isinstance(e.op, ast.Add) else -1
        la, lb = alternatives(e.left, defs, depth + 1), alternatives(e.right, defs, depth + 1)
        if sign == -1 and len(lb) > 1:
            raise NotLinear("subtraction of a min(...)")
        return {_add(x, y, sign) for x in la for y in lb}
    if isinstance(e, ast.BinOp) and isinstance(e.op, ast.BitAnd) and isinstance(e.right, ast.Constant):
        return {_mk(0, {ast.unparse(e): 1})}
    if isinstance(e, ast.Attribute):
        return {_mk(0, {ast.unparse(e): 1})}
    raise NotLinear(f"expression {ast.unparse(e)!r}")


def show(f: Form) -> str:
    parts = [f"{'' if v == 1 else '-' if v == -1 else str(v) + '*'}{k}" for k, v in sorted(f[1])]
    if f[0] or not parts:
        parts.append(str(f[0]))
    return " + ".join(parts).replace("+ -", "- ")


def shift(forms: Iterable[Form], d: int) -> set[Form]:
    return {(c + d, t) for c, t in forms}
