"""README pipe-table reader (the repository's documentation of record)."""
from __future__ import annotations

import re
from dataclasses import dataclass, field
from pathlib import Path

from .core import REPO, AnalysisError

README = "sc62015/pysc62015/README.md"


@dataclass
class MdTable:
    heading: str
    header: list[str]
    rows: list[list[str]]
    line: int
    lines: list[int] = field(default_factory=list)

    def col(self, name_part: str) -> int:
        for i, h in enumerate(self.header):
            if name_part.lower() in h.lower():
                return i
        raise AnalysisError(f"README table under {self.heading!r} has no column matching {name_part!r}: {self.header}")


def _cells(line: str) -> list[str]:
    s = line.strip()
    if s.startswith("|"):
        s = s[1:]
    if s.endswith("|"):
        s = s[:-1]
    # split on unescaped pipes
    parts = re.split(r"(?<!\\)\|", s)
    return [p.strip() for p in parts]


def clean(cell: str) -> str:
    return cell.replace("**", "").replace("`", "").replace("\\|", "|").strip()


def tables(repo: Path = REPO, rel: str = README) -> list[MdTable]:
    p = repo / rel
    if not p.exists():
        raise AnalysisError(f"README anchor missing: {rel}")
    out: list[MdTable] = []
    heading = ""
    lines = p.read_text().splitlines()
    i = 0
    while i < len(lines):
        ln = lines[i]
        if ln.startswith("#"):
            heading = ln.lstrip("#").strip()
        if ln.strip().startswith("|") and i + 1 < len(lines) and re.match(r"^\s*\|?\s*:?-{2,}", lines[i + 1]):
            header = [clean(c) for c in _cells(ln)]
            rows = []
            rlines = []
            j = i + 2
            while j < len(lines) and lines[j].strip().startswith("|"):
                rows.append([clean(c) for c in _cells(lines[j])])
                rlines.append(j + 1)
                j += 1
            out.append(MdTable(heading, header, rows, i + 1, rlines))
            i = j
            continue
        i += 1
    return out


def table_under(tabs: list[MdTable], heading_part: str, nth: int = 0) -> MdTable:
    hits = [t for t in tabs if heading_part.lower() in t.heading.lower()]
    if len(hits) <= nth:
        raise AnalysisError(f"README table under heading containing {heading_part!r} not found")
    return hits[nth]
