"""README pipe-table reader (the repository's documentation of record)."""
from __future__ import annotations

import re
from dataclasses import dataclass, field
from pathlib import Path

from .core import REPO, AnalysisError

README = "sc62015/pysc62015/README.md"


@dataclass
class MdTable:
    heading: str
    header: list[str]
    rows: list[list[str]]
    line: int
    lines: list[int] = field(default_factory=list)

    def col(self, name_part: str) -> int:
        for i, h in enumerate(self.header):
            if name_part.lower() in h.lower():
                return i
        raise AnalysisError(f"README table under {self.heading!r} has no column matching {name_part!r}: {self.header}")


def _cells(line: str) -> list[str]:
    s = line.strip()
    if s.startswith("|"):
        s = s[1:]
    if s.endswith("|"):
        s = s[:-1]
    # split on unescaped pipes
    parts = re.split(r"(?<!\\)\|", s)
    return [p.strip() for p in parts]


def clean(cell: str) -> str:
    return cell.replace("**", "").replace("`", "").replace("\\|", "|").strip()


def tables(repo: Path = REPO, rel: str = README) -> list[MdTable]:
    p = repo / rel
    if not p.exists():
        raise AnalysisError(f"README anchor missing: {rel}")
    out: list[MdTable] = []
    heading = ""
    lines = p.read_text().splitlines()
    i = 0
    while i < len(lines):
        ln = lines[i]
        if ln.startswith("#"):
            heading = ln.lstrip("#").strip()
        if ln.strip().startswith("|") and i + 1 < len(lines) and re.match(r"^\s*\|?\s*:?-{2,}", lines[i + 1]):
            header = [clean(c) for c in _cells(ln)]
            rows = []
            rlines = []
            j = i + 2
            while j < len(lines) and lines[j].strip().startswith("|"):
                rows.append([clean(c) for c in _cells(lines[j])])
                rlines.append(j + 1)
                j += 1
            out.append(MdTable(heading, header, rows, i + 1, rlines))
            i = j
            continue
        i += 1
    return out


def table_under(tabs: list[MdTable], heading_part: str, nth: int = 0) -> MdTable:
    hits = [t for t in tabs if heading_part.lower() in t.heading.lower()]
    if len(hits) <= nth:
        raise AnalysisError(f"README table under heading containing {heading_part!r} not found")
    return hits[nth]


# ---------------------------------------------------------------------------
# instruction tables: rows keyed by their opcode bit patterns

_GROUPS = {"r₁": {0, 1}, "r₂": {2, 3}, "r₃": {4, 5, 6, 7}, "r₄": {4, 5, 6}, "r1": {0, 1}, "r2": {2, 3}, "r3": {4, 5, 6, 7}, "r4": {4, 5, 6}}


def _expand_bin(pattern: str) -> set[int] | None:
    """'0000 1 r' -> {0x08..0x0F}; '1s00 0 r'₃' -> {0x80..0x87, 0xC0..0xC7}; '0010 1rr0' -> {0x28,0x2A,0x2C,0x2E}."""
    p = pattern.replace(" ", "").replace("`", "")
    # tokens: bits or wildcard groups
    toks: list[str] = []
    i = 0
    while i < len(p):
        ch = p[i]
        if ch in "01":
            toks.append(ch)
            i += 1
        elif ch in "rs":
            j = i + 1
            while j < len(p) and p[j] in "'₁₂₃₄1234":
                j += 1
            toks.append(p[i:j])
            i = j
        else:
            return None
    fixed = sum(1 for t in toks if t in "01")
    wild = [t for t in toks if t not in ("0", "1")]
    if not toks:
        return None
    free = 8 - fixed
    if free < 0:
        return None
    if not wild:
        return {int("".join(toks), 2)} if len(toks) == 8 else None
    # distribute free bits: single-bit wildcards when the token count is exactly 8, else the last register group takes the rest
    widths = []
    if len(toks) == 8:
        widths = [1] * len(wild)
    else:
        rem = free
        for k, t in enumerate(wild):
            if t.startswith("s"):
                widths.append(1)
                rem -= 1
            else:
                widths.append(None)
        regs = [k for k, w in enumerate(widths) if w is None]
        if not regs:
            return None
        each = rem // len(regs)
        for k in regs:
            widths[k] = each
        if sum(widths) != free:
            return None
    out = {0}
    wi = 0
    for t in toks:
        if t in "01":
            out = {(v << 1) | int(t) for v in out}
        else:
            w = widths[wi]
            wi += 1
            out = {(v << w) | x for v in out for x in range(1 << w)}
    return out


def _hex_match(v: int, hexpat: str) -> bool:
    alts = [h.strip() for h in hexpat.split("/") if h.strip()]
    for h in alts:
        h = h.replace("H", "")
        if len(h) != 2:
            continue
        ok = True
        for nib, ch in zip(((v >> 4) & 0xF, v & 0xF), h.upper()):
            if ch == "X":
                continue
            if ch not in "0123456789ABCDEF" or int(ch, 16) != nib:
                ok = False
        if ok:
            return True
    return not alts


@dataclass
class InstrDoc:
    mnemonic: str
    flags: str
    nbytes: int | None
    opcodes: set[int]
    selectors: set[int] | None
    line: int
    heading: str
    function: str = ""


def instruction_docs(repo: Path = REPO) -> list[InstrDoc]:
    out = []
    for t in tables(repo):
        hdr = [h.strip() for h in t.header]
        if "Flags (C Z)" not in hdr or "Mnemonic" not in hdr:
            continue
        cm, cf, cb = hdr.index("Mnemonic"), hdr.index("Flags (C Z)"), hdr.index("Bytes")
        co = [i for i, h in enumerate(hdr) if h.startswith("Opcode")][0]
        for r, ln in zip(t.rows, t.lines):
            if len(r) <= co or not r[co].strip():
                continue
            parts = [x.strip() for x in r[co].split("<br>")]
            first = parts[0]
            if "/" not in first:
                continue
            binp, hexp = first.split("/", 1)
            ops = _expand_bin(binp)
            hexs = hexp.strip()
            if ops is None:
                # fall back on the hex alternatives when they are fully specified
                alts = [h.strip() for h in hexs.split("/")]
                if all(len(h) == 2 and "X" not in h.upper() for h in alts):
                    ops = {int(h, 16) for h in alts}
                else:
                    raise AnalysisError(f"README {t.heading!r} line {ln}: opcode pattern {first!r} unreadable")
            alts = [h.strip().replace("H", "") for h in hexs.split("/") if h.strip()]
            if alts and all(len(h) == 2 and all(ch in "0123456789ABCDEFabcdef" for ch in h) for h in alts):
                ops = {int(h, 16) for h in alts}      # fully specified hex codes are authoritative
            else:
                ops = {v for v in ops if _hex_match(v, hexs)}
            mn = r[cm]
            # restrict by the register size group of the operand encoded in the first byte
            first_op_groups = [g for g in _GROUPS if g in mn.replace("'" + g[1:], "")]
            if first_op_groups and len(ops) == 8:
                allowed = set()
                for g in first_op_groups:
                    allowed |= _GROUPS[g]
                ops = {v for v in ops if (v & 7) in allowed}
            sels = None
            if len(parts) > 1 and "/" in parts[1]:
                b2, h2 = parts[1].split("/", 1)
                s = _expand_bin(b2)
                if s is not None:
                    sels = {v for v in s if _hex_match(v, h2.strip())}
            elif len(parts) > 1:
                s = _expand_bin(parts[1])
                if s is not None and len(s) < 256 and any(ch in parts[1] for ch in "01"):
                    sels = s
            try:
                nb = int(r[cb])
            except ValueError:
                nb = None
            cfn = [i for i, h in enumerate(hdr) if h.startswith("Function")]
            out.append(InstrDoc(mn, r[cf].strip(), nb, ops, sels, ln, t.heading, r[cfn[0]] if cfn and len(r) > cfn[0] else ""))
    return out
