"""History-independence rule for functions whose result must be a function of their arguments (and, for the emulator fetch, of memory):
a value loaded from a *written* persistent container (module-level dict/list, `self.<attr>` container, functools cache) that can reach
a `return` is a memo; its key must be built from every argument the result depends on.  A memo keyed by less returns what an earlier
call computed for different inputs."""
from __future__ import annotations

import ast
from typing import Iterable

from .pyfacts import PyModule, unparse

_WRITE_METHODS = {"update", "setdefault", "append", "extend", "add", "insert", "pop", "popitem", "clear", "remove"}
_CACHE_DECOS = {"lru_cache", "cache", "cached_property", "memoize"}


def written_containers(mod: PyModule) -> dict[str, int]:
    """chain ('NAME' or 'self.attr') -> line of a write through it anywhere in the module's function bodies."""
    out: dict[str, int] = {}
    module_names = set()
    for st in mod.tree.body:
        if isinstance(st, (ast.Assign, ast.AnnAssign)):
            ts = st.targets if isinstance(st, ast.Assign) else [st.target]
            for t in ts:
                if isinstance(t, ast.Name):
                    module_names.add(t.id)
    for fn in [x for x in ast.walk(mod.tree) if isinstance(x, (ast.FunctionDef, ast.AsyncFunctionDef))]:
        for n in ast.walk(fn):
            tgt = None
            if isinstance(n, (ast.Assign, ast.AugAssign, ast.Delete)):
                ts = n.targets if isinstance(n, (ast.Assign, ast.Delete)) else [n.target]
                for t in ts:
                    if isinstance(t, ast.Subscript):
                        tgt = t.value
            elif isinstance(n, ast.Call) and isinstance(n.func, ast.Attribute) and n.func.attr in _WRITE_METHODS:
                tgt = n.func.value
            if tgt is None:
                continue
            ch = unparse(tgt)
            if isinstance(tgt, ast.Name) and tgt.id in module_names:
                out.setdefault(ch, n.lineno)
            elif isinstance(tgt, ast.Attribute) and isinstance(tgt.value, ast.Name) and tgt.value.id == "self":
                out.setdefault(ch, n.lineno)
    return out


def _names(e: ast.AST) -> set[str]:
    return {n.id for n in ast.walk(e) if isinstance(n, ast.Name)}


def memo_findings(mod: PyModule, fn: ast.FunctionDef, inputs: Iterable[str], memory_dependent: bool = False) -> list[tuple[int, str]]:
    """[(line, description)] for memos in `fn` whose key does not cover `inputs` (or any memo when the result also depends on memory)."""
    out: list[tuple[int, str]] = []
    for d in fn.decorator_list:
        dd = d.func if isinstance(d, ast.Call) else d
        nm = dd.id if isinstance(dd, ast.Name) else getattr(dd, "attr", "")
        if nm in _CACHE_DECOS:
            out.append((fn.lineno, f"@{nm} on {fn.name}: results are remembered across calls"))
    conts = written_containers(mod)
    # local single assignments for key resolution
    defs: dict[str, list[ast.AST]] = {}
    for n in ast.walk(fn):
        if isinstance(n, ast.Assign) and len(n.targets) == 1 and isinstance(n.targets[0], ast.Name):
            defs.setdefault(n.targets[0].id, []).append(n.value)
        if isinstance(n, ast.NamedExpr) and isinstance(n.target, ast.Name):
            defs.setdefault(n.target.id, []).append(n.value)

    def roots(e: ast.AST, depth: int = 0) -> set[str]:
        r: set[str] = set()
        for nm in _names(e):
            if nm in defs and depth < 5:
                for v in defs[nm]:
                    r |= roots(v, depth + 1)
            else:
                r.add(nm)
        return r

    loads: list[tuple[str, ast.AST, ast.AST, int]] = []     # (container, key expr, load node, line)
    for n in ast.walk(fn):
        if isinstance(n, ast.Call) and isinstance(n.func, ast.Attribute) and n.func.attr in ("get", "setdefault", "pop") and n.args and unparse(n.func.value) in conts:
            loads.append((unparse(n.func.value), n.args[0], n, n.lineno))
        if isinstance(n, ast.Subscript) and isinstance(n.ctx, ast.Load) and unparse(n.value) in conts:
            loads.append((unparse(n.value), n.slice, n, n.lineno))
    if not loads:
        return out
    # names that hold loaded values
    holders: dict[str, tuple] = {}
    for cont, key, node, ln in loads:
        for a in ast.walk(fn):
            tgt = None
            if isinstance(a, ast.Assign) and any(x is node for x in ast.walk(a.value)) and len(a.targets) == 1 and isinstance(a.targets[0], ast.Name):
                tgt = a.targets[0].id
            if isinstance(a, ast.NamedExpr) and any(x is node for x in ast.walk(a.value)) and isinstance(a.target, ast.Name):
                tgt = a.target.id
            if tgt:
                holders[tgt] = (cont, key, ln)
    rets = [r for r in ast.walk(fn) if isinstance(r, ast.Return) and r.value is not None]
    for cont, key, node, ln in loads:
        reach = any(any(x is node for x in ast.walk(r.value)) for r in rets) or any(h in _names(r.value) for r in rets for h, v in holders.items() if v[0] == cont and v[2] == ln)
        if not reach:
            continue
        kroots = roots(key)
        missing = [i for i in inputs if i not in kroots]
        if memory_dependent:
            out.append((ln, f"{fn.name} returns a value remembered in `{cont}` under key `{unparse(key)}`: the result depends on memory contents, which the key cannot cover"))
        elif missing:
            out.append((ln, f"{fn.name} returns a value remembered in `{cont}` under key `{unparse(key)}`, which does not include {missing}: a call with other {'/'.join(missing)} gets an earlier call's answer"))
    return out
