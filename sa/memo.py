"""History-independence rule for functions whose result must be a function of their arguments (and, for the emulator fetch, of memory):
a value loaded from a *written* persistent container (module-level dict/list, `self.<attr>` container, functools cache) that can reach
a `return` is a memo; its key must be built from every argument the result depends on.  A memo keyed by less returns what an earlier
call computed for different inputs."""
from __future__ import annotations

import ast
from typing import Iterable

from .pyfacts import PyModule, unparse

_WRITE_METHODS = {"update", "setdefault", "append", "extend", "add", "insert", "pop", "popitem", "clear", "remove"}
_CACHE_DECOS = {"lru_cache", "cache", "cached_property", "memoize"}


def written_containers(mod: PyModule) -> dict[str, int]:
    """chain ('NAME' or 'self.attr') -> line of a write through it anywhere in the module's function bodies."""
    out: dict[str, int] = {}
    module_names = set()
    for st in mod.tree.body:
        if isinstance(st, (ast.Assign, ast.AnnAssign)):
            ts = st.targets if isinstance(st, ast.Assign) else [st.target]
            for t in ts:
                if isinstance(t, ast.Name):
                    module_names.add(t.id)
    for fn in [x for x in ast.walk(mod.tree) if isinstance(x, (ast.FunctionDef, ast.AsyncFunctionDef))]:
        for n in ast.walk(fn):
            tgt = None
            if isinstance(n, (ast.Assign, ast.AugAssign, ast.Delete)):
                ts = n.targets if isinstance(n, (ast.Assign, ast.Delete)) else [n.target]
                for t in ts:
                    if isinstance(t, ast.Subscript):
                        tgt = t.value
            elif isinstance(n, ast.Call) and isinstance(n.func, ast.Attribute) and n.func.attr in _WRITE_METHODS:
                tgt = n.func.value
            if tgt is None:
                continue
            ch = unparse(tgt)
            if isinstance(tgt, ast.Name) and tgt.id in module_names:
                out.setdefault(ch, n.lineno)
            elif isinstance(tgt, ast.Attribute) and isinstance(tgt.value, ast.Name) and tgt.value.id == "self":
                out.setdefault(ch, n.lineno)
    return out


def _const_false(t: ast.AST) -> bool:
    if isinstance(t, ast.Constant):
        return not t.value
    if isinstance(t, ast.BoolOp) and isinstance(t.op, ast.And):
        return any(_const_false(v) for v in t.values)
    if isinstance(t, ast.BoolOp) and isinstance(t.op, ast.Or):
        return all(_const_false(v) for v in t.values)
    if isinstance(t, ast.UnaryOp) and isinstance(t.op, ast.Not) and isinstance(t.operand, ast.Constant):
        return bool(t.operand.value)
    return False


def dead_nodes(fn: ast.AST) -> set[int]:
    """ids of nodes inside `if <constant false>:` bodies (switched-off code is not behaviour)"""
    out: set[int] = set()
    for i in ast.walk(fn):
        if isinstance(i, ast.If) and _const_false(i.test):
            for st in i.body:
                out |= {id(x) for x in ast.walk(st)}
    return out


def _live_walk(fn: ast.AST):
    dead = dead_nodes(fn)
    return [n for n in ast.walk(fn) if id(n) not in dead]


def _names(e: ast.AST) -> set[str]:
    return {n.id for n in ast.walk(e) if isinstance(n, ast.Name)}


def memo_findings(mod: PyModule, fn: ast.FunctionDef, inputs: Iterable[str], memory_dependent: bool = False, _depth: int = 0,
                  storage: Iterable[str] = (), persist_in: frozenset | None = None) -> list[tuple[int, str]]:
    """[(line, description)] for memos in `fn` whose key does not cover `inputs` (or any memo when the result also depends on memory).
    Methods of the same class that `fn` calls through `self.` are followed (their own parameters are their inputs)."""
    inputs = tuple(inputs)
    storage = tuple(storage)       # containers that *are* the machine state being read (the memory itself), not a memo of it
    # persist_in: names of the functions whose attribute assignments count as "remembered by an earlier call" (the access path
    # itself); attributes only assigned by configuration methods are wiring, not memos.  None = every method but __init__.
    out: list[tuple[int, str]] = _scalar_memos(mod, fn, inputs, memory_dependent, storage, persist_in)
    if _depth < 3:
        cls = _class_of(mod, fn)
        if cls is not None:
            meths = {m.name: m for m in cls.body if isinstance(m, (ast.FunctionDef, ast.AsyncFunctionDef))}
            for c in _live_walk(fn):
                if isinstance(c, ast.Call) and isinstance(c.func, ast.Attribute) and isinstance(c.func.value, ast.Name) and c.func.value.id == "self" and c.func.attr in meths and meths[c.func.attr] is not fn:
                    h = meths[c.func.attr]
                    hin = tuple(a.arg for a in h.args.args + h.args.kwonlyargs if a.arg != "self")
                    # only helpers that receive (something derived from) the inputs matter
                    if any(isinstance(x, ast.Name) and x.id in inputs for a in list(c.args) + [k.value for k in c.keywords] for x in ast.walk(a)):
                        for ln, what in memo_findings(mod, h, hin, memory_dependent, _depth + 1, storage, persist_in):
                            out.append((ln, what + f" (helper of {fn.name})"))
    if _depth < 3:
        # module-level helper functions the function hands its inputs to
        modfns = {f_.name: f_ for f_ in mod.tree.body if isinstance(f_, (ast.FunctionDef, ast.AsyncFunctionDef))}
        for c in _live_walk(fn):
            if isinstance(c, ast.Call) and isinstance(c.func, ast.Name) and c.func.id in modfns and modfns[c.func.id] is not fn:
                h = modfns[c.func.id]
                hin = tuple(a.arg for a in h.args.args + h.args.kwonlyargs)
                if any(isinstance(x, ast.Name) and x.id in inputs for a in list(c.args) + [k.value for k in c.keywords] for x in ast.walk(a)):
                    for ln, what in memo_findings(mod, h, hin, memory_dependent, _depth + 1, storage, persist_in):
                        out.append((ln, what + f" (helper of {fn.name})"))
    for d in fn.decorator_list:
        dd = d.func if isinstance(d, ast.Call) else d
        nm = dd.id if isinstance(dd, ast.Name) else getattr(dd, "attr", "")
        if nm in _CACHE_DECOS:
            out.append((fn.lineno, f"@{nm} on {fn.name}: results are remembered across calls"))
    conts = {k: v for k, v in written_containers(mod).items() if k not in storage}
    live = _live_walk(fn)
    # local single assignments for key resolution
    defs: dict[str, list[ast.AST]] = {}
    for n in live:
        if isinstance(n, ast.Assign) and len(n.targets) == 1 and isinstance(n.targets[0], ast.Name):
            defs.setdefault(n.targets[0].id, []).append(n.value)
        if isinstance(n, ast.NamedExpr) and isinstance(n.target, ast.Name):
            defs.setdefault(n.target.id, []).append(n.value)

    def roots(e: ast.AST, depth: int = 0) -> set[str]:
        r: set[str] = set()
        for nm in _names(e):
            if nm in defs and depth < 5:
                for v in defs[nm]:
                    r |= roots(v, depth + 1)
            else:
                r.add(nm)
        return r

    loads: list[tuple[str, ast.AST, ast.AST, int]] = []     # (container, key expr, load node, line)
    for n in live:
        if isinstance(n, ast.Call) and isinstance(n.func, ast.Attribute) and n.func.attr in ("get", "setdefault", "pop") and n.args and unparse(n.func.value) in conts:
            loads.append((unparse(n.func.value), n.args[0], n, n.lineno))
        if isinstance(n, ast.Subscript) and isinstance(n.ctx, ast.Load) and unparse(n.value) in conts:
            loads.append((unparse(n.value), n.slice, n, n.lineno))
    if not loads:
        return out
    # names that hold loaded values
    holders: dict[str, tuple] = {}
    for cont, key, node, ln in loads:
        for a in live:
            tgt = None
            if isinstance(a, ast.Assign) and any(x is node for x in ast.walk(a.value)) and len(a.targets) == 1 and isinstance(a.targets[0], ast.Name):
                tgt = a.targets[0].id
            if isinstance(a, ast.NamedExpr) and any(x is node for x in ast.walk(a.value)) and isinstance(a.target, ast.Name):
                tgt = a.target.id
            if tgt:
                holders[tgt] = (cont, key, ln)
    rets = [r for r in live if isinstance(r, (ast.Return, ast.Yield)) and r.value is not None]
    for cont, key, node, ln in loads:
        reach = any(any(x is node for x in ast.walk(r.value)) for r in rets) or any(h in _names(r.value) for r in rets for h, v in holders.items() if v[0] == cont and v[2] == ln)
        if not reach:
            continue
        kroots = roots(key)
        missing = [i for i in inputs if i not in kroots]
        if memory_dependent:
            out.append((ln, f"{fn.name} returns a value remembered in `{cont}` under key `{unparse(key)}`: the result depends on memory contents, which the key cannot cover"))
        elif missing:
            out.append((ln, f"{fn.name} returns a value remembered in `{cont}` under key `{unparse(key)}`, which does not include {missing}: a call with other {'/'.join(missing)} gets an earlier call's answer"))
    return out


# ---------------------------------------------------------------------------
# Derived-copy coherence: `if self.A is None: self.A = f(<other state>)` ... `return self.A` is a stored copy of state that lives
# elsewhere.  It is coherent only if every function that mutates that state (directly, or by calling a mutating method of the state
# class) also drops the copy.
def _self_attr(t: ast.AST) -> str | None:
    if isinstance(t, ast.Attribute) and isinstance(t.value, ast.Name) and t.value.id == "self":
        return t.attr
    return None


def derived_copies(mod: PyModule) -> list[tuple[str, str, str, int]]:
    """[(class, attr, method, line)]: attr is assigned a computed value outside __init__ and returned by the same method."""
    out = []
    for cls in [n for n in mod.tree.body if isinstance(n, ast.ClassDef)]:
        for m in [x for x in cls.body if isinstance(x, (ast.FunctionDef, ast.AsyncFunctionDef))]:
            if m.name == "__init__":
                continue
            stored = {}
            for n in ast.walk(m):
                if isinstance(n, ast.Assign):
                    for t in n.targets:
                        a = _self_attr(t)
                        if a and any(isinstance(x, ast.Call) for x in ast.walk(n.value)):
                            stored[a] = n.lineno
            for r in ast.walk(m):
                if isinstance(r, ast.Return) and r.value is not None:
                    a = _self_attr(r.value)
                    if a in stored:
                        out.append((cls.name, a, m.name, stored[a]))
    return out


def state_mutators(mod: PyModule, cls_name: str) -> dict[str, set[str]]:
    """method of `cls_name` -> names of the fields it stores into (self.a, self.a.b -> 'b', self.a[i] -> 'a'), excluding __init__."""
    out: dict[str, set[str]] = {}
    for cls in [n for n in mod.tree.body if isinstance(n, ast.ClassDef) and n.name == cls_name]:
        for m in [x for x in cls.body if isinstance(x, (ast.FunctionDef, ast.AsyncFunctionDef))]:
            if m.name == "__init__":
                continue
            for n in ast.walk(m):
                ts = n.targets if isinstance(n, ast.Assign) else [n.target] if isinstance(n, (ast.AugAssign, ast.AnnAssign)) else []
                for t in ts:
                    b = t
                    while isinstance(b, (ast.Attribute, ast.Subscript)):
                        b = b.value
                    if isinstance(b, ast.Name) and b.id == "self" and not isinstance(t, ast.Name):
                        leaf = t
                        while isinstance(leaf, ast.Subscript):
                            leaf = leaf.value
                        out.setdefault(m.name, set()).add(leaf.attr if isinstance(leaf, ast.Attribute) else "?")
    return out


def _fields_read_by_copy(m: PyModule, cls: str, attr: str) -> set[str] | None:
    """attribute names read while building the stored copy (through one module-level helper); None = unknown (treat as everything)."""
    for c in [n for n in m.tree.body if isinstance(n, ast.ClassDef) and n.name == cls]:
        for n in ast.walk(c):
            if isinstance(n, ast.Assign) and any(_self_attr(t) == attr for t in n.targets) and isinstance(n.value, ast.Call) and isinstance(n.value.func, ast.Name):
                helper = [f for f in m.tree.body if isinstance(f, ast.FunctionDef) and f.name == n.value.func.id]
                if not helper:
                    return None
                return {a.attr for a in ast.walk(helper[0]) if isinstance(a, ast.Attribute) and isinstance(a.ctx, ast.Load)}
    return None


def incoherent_copies(mods: list[PyModule], state_mod: PyModule, state_cls: str, stat_attrs: Iterable[str] = ()) -> tuple[list[tuple[str, int, str]], int]:
    """([(module rel, line, description)], functions scanned).  `stat_attrs`: attributes of the state class that are statistics, whose
    mutation need not invalidate (not part of what the copy is used for) - none by default."""
    copies = [(m, c) for m in mods for c in derived_copies(m)]
    muts = state_mutators(state_mod, state_cls)
    scanned = 0
    out: list[tuple[str, int, str]] = []
    for m in mods:
        for cls in [n for n in m.tree.body if isinstance(n, ast.ClassDef)]:
            for fn in [x for x in cls.body if isinstance(x, (ast.FunctionDef, ast.AsyncFunctionDef))]:
                scanned += 1
    if not copies:
        return out, scanned
    inval_methods: set[str] = set()
    for m, (cls, attr, _meth, _ln) in copies:
        for c in [n for n in m.tree.body if isinstance(n, ast.ClassDef) and n.name == cls]:
            for fn in [x for x in c.body if isinstance(x, ast.FunctionDef)]:
                if any(isinstance(n, ast.Assign) and any(_self_attr(t) == attr for t in n.targets) and isinstance(n.value, ast.Constant) and n.value.value is None for n in ast.walk(fn)):
                    inval_methods.add(fn.name)
    for m in mods:
        if m is state_mod:
            pass
        for cls in [n for n in m.tree.body if isinstance(n, ast.ClassDef)]:
            if m is state_mod and cls.name == state_cls:
                continue
            for fn in [x for x in cls.body if isinstance(x, (ast.FunctionDef, ast.AsyncFunctionDef))]:
                if fn.name == "__init__":
                    continue
                mutates = []
                for n in ast.walk(fn):
                    if isinstance(n, ast.Call) and isinstance(n.func, ast.Attribute) and n.func.attr in muts and not (isinstance(n.func.value, ast.Name) and n.func.value.id == "self"):
                        mutates.append((n.lineno, f"{unparse(n.func)}()", muts[n.func.attr]))
                    ts = n.targets if isinstance(n, ast.Assign) else [n.target] if isinstance(n, ast.AugAssign) else []
                    for t in ts:
                        ch = unparse(t)
                        if (".state." in ch or ".vram" in ch) and not ch.startswith("self."):
                            mutates.append((n.lineno, ch, {ch.split("[")[0].split(".")[-1]}))
                if not mutates:
                    continue
                relevant = []
                for _m, (ccls, attr, _meth, _cln) in copies:
                    rd = _fields_read_by_copy(_m, ccls, attr)
                    relevant.append(rd)
                mutates = [(ln, what, w) for (ln, what, w) in mutates if any(rd is None or w is None or (w & rd) for rd in relevant)]
                if not mutates:
                    continue
                invalidates = any((isinstance(n, ast.Call) and isinstance(n.func, ast.Attribute) and n.func.attr in inval_methods)
                                  or (isinstance(n, ast.Assign) and any(_self_attr(t) in {c[1][1] for c in copies} for t in n.targets) and isinstance(n.value, ast.Constant) and n.value.value is None)
                                  for n in ast.walk(fn))
                if not invalidates:
                    ln, what, _w = mutates[0]
                    for _m, (ccls, attr, meth, cln) in copies:
                        out.append((m.rel, ln, f"{cls.name}.{fn.name} changes chip state through {what} without dropping {ccls}.{attr}, the stored copy that {ccls}.{meth} returns (line {cln}): later readers of {meth} - the snapshot saver among them - see the state before the change"))
    return out, scanned



def _class_of(mod: PyModule, fn: ast.AST) -> ast.ClassDef | None:
    for c in ast.walk(mod.tree):
        if isinstance(c, ast.ClassDef) and any(m is fn for m in c.body):
            return c
    return None


def _persistent_attrs(mod: PyModule, only_in: frozenset | None = None) -> dict[str, int]:
    """'self.X' -> line, for attributes assigned in some method other than __init__ (state that outlives a call and changes)."""
    out: dict[str, int] = {}
    for f in [x for x in ast.walk(mod.tree) if isinstance(x, (ast.FunctionDef, ast.AsyncFunctionDef)) and x.name != "__init__" and (only_in is None or x.name in only_in)]:
        for n in ast.walk(f):
            ts = n.targets if isinstance(n, ast.Assign) else [n.target] if isinstance(n, (ast.AnnAssign, ast.AugAssign)) else []
            for t in ts:
                for e in (t.elts if isinstance(t, (ast.Tuple, ast.List)) else [t]):
                    a = _self_attr(e)
                    if a:
                        out.setdefault("self." + a, n.lineno)
    return out


def _scalar_memos(mod: PyModule, fn: ast.FunctionDef, inputs: tuple, memory_dependent: bool, storage: tuple = (), persist_in: frozenset | None = None) -> list[tuple[int, str]]:
    """`return <something read from self.X>` where X is re-assigned by methods: the value was computed by an earlier call.  It is the
    answer to *this* call only if the path to the return compares the remembered key with every input."""
    persist = {k: v for k, v in _persistent_attrs(mod, persist_in).items() if k not in storage}
    parent: dict[int, ast.AST] = {}
    for p in ast.walk(fn):
        for c in ast.iter_child_nodes(p):
            parent[id(c)] = p
    live = _live_walk(fn)
    defs: dict[str, list[ast.AST]] = {}
    for n in live:
        if isinstance(n, ast.Assign) and len(n.targets) == 1 and isinstance(n.targets[0], ast.Name):
            defs.setdefault(n.targets[0].id, []).append(n.value)
        if isinstance(n, ast.NamedExpr) and isinstance(n.target, ast.Name):
            defs.setdefault(n.target.id, []).append(n.value)

    def reads_persist(e: ast.AST, depth: int = 0) -> str | None:
        for x in ast.walk(e):
            if isinstance(x, ast.Attribute) and isinstance(x.ctx, ast.Load):
                ch = unparse(x)
                if ch in persist:
                    # a method call on the attribute (self.memory.read_byte) is a query of live state, not a remembered result
                    par = parent.get(id(x))
                    if isinstance(par, ast.Attribute) and isinstance(parent.get(id(par)), ast.Call) and parent[id(par)].func is par:
                        continue
                    return ch
            if isinstance(x, ast.Name) and x.id in defs and depth < 4:
                for v in defs[x.id]:
                    r = reads_persist(v, depth + 1)
                    if r:
                        return r
        return None

    def roots(e: ast.AST, depth: int = 0) -> set[str]:
        r: set[str] = set()
        for nm in _names(e):
            if nm in defs and depth < 5:
                r.add(nm)
                for v in defs[nm]:
                    r |= roots(v, depth + 1)
            else:
                r.add(nm)
        return r

    out: list[tuple[int, str]] = []
    for ret in [r for r in live if isinstance(r, (ast.Return, ast.Yield)) and r.value is not None]:
        # returns nested in inner defs belong to those
        anc = parent.get(id(ret))
        inner = False
        tests: list[ast.AST] = []
        while anc is not None and anc is not fn:
            if isinstance(anc, (ast.FunctionDef, ast.AsyncFunctionDef, ast.Lambda)):
                inner = True
                break
            if isinstance(anc, (ast.If, ast.While)):
                tests.append(anc.test)
            anc = parent.get(id(anc))
        if inner:
            continue
        src = reads_persist(ret.value)
        if not src:
            continue
        # refreshed in this very call: an assignment to the attribute from live state dominates the return
        try:
            from . import cfg as _cfg
            g = _cfg.build_py(fn, fn.name)
            rn = g.node_of(ret)
            fresh = False
            for a in live:
                if isinstance(a, ast.Assign) and any(unparse(t) == src for t in a.targets) and not reads_persist(a.value):
                    an = g.node_of(a)
                    if an is not None and rn is not None and g.dominates(an, rn):
                        fresh = True
            if fresh:
                continue
        except Exception:  # noqa: BLE001 - no flow graph: keep the conservative answer
            pass
        covered: set[str] = set()
        for t in tests:
            for cmp_ in [c for c in ast.walk(t) if isinstance(c, ast.Compare)]:
                sides = [cmp_.left] + list(cmp_.comparators)
                if any(reads_persist(sd) for sd in sides):
                    for sd in sides:
                        covered |= roots(sd)
        missing = [i for i in inputs if i not in covered]
        if memory_dependent:
            out.append((ret.lineno, f"{fn.name} returns a value remembered in `{src}` by an earlier call: the result depends on memory contents, which no remembered key can stand for"))
        elif missing:
            out.append((ret.lineno, f"{fn.name} returns a value remembered in `{src}` by an earlier call without comparing the remembered key with {missing}: a call with other {'/'.join(missing)} gets an earlier call's answer"))
    return out


def method_closure(mod: PyModule, cls_name: str, entries: Iterable[str]) -> frozenset:
    """names of the methods of `cls_name` reachable from `entries` through `self.m(...)` calls (dead `if False:` code excluded)"""
    cls = next((c for c in ast.walk(mod.tree) if isinstance(c, ast.ClassDef) and c.name == cls_name), None)
    if cls is None:
        return frozenset()
    meths = {m.name: m for m in cls.body if isinstance(m, (ast.FunctionDef, ast.AsyncFunctionDef))}
    seen: set[str] = set()
    todo = [e for e in entries if e in meths]
    while todo:
        nm = todo.pop()
        if nm in seen:
            continue
        seen.add(nm)
        for c in _live_walk(meths[nm]):
            if isinstance(c, ast.Call) and isinstance(c.func, ast.Attribute) and isinstance(c.func.value, ast.Name) and c.func.value.id == "self" and c.func.attr in meths:
                todo.append(c.func.attr)
    return frozenset(seen)
